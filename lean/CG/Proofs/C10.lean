/-
Property C10 — structural queries agree with their graph-theoretic definitions.

Model: `CG/Model/Queries.lean` (`CG.Q`), over a node list and the list `E` of DIRECTED edges.  Specification:
`EL.TC (Rel E)` / `EL.RTC (Rel E)` (transitive / reflexive-transitive closure of the edge relation),
`Paths.Walk` (vertex list of a directed walk), `EL.Acyclic`.  Every right-hand side below mentions `E` only
through membership, which is why the answers do not depend on construction order (`queries_order_invariant`)
nor on the names (`queries_rename_invariant`).

Topological orders (`get_topological_order`) are handled in their own file.
-/
import CG.Proofs.Lemmas.Queries
import CG.Proofs.Lemmas.QueriesRec
import CG.Proofs.Lemmas.QueriesSub
import CG.Proofs.Lemmas.QueriesInv
set_option linter.unusedSectionVars false
set_option linter.unusedSimpArgs false
set_option linter.unusedVariables false

namespace CG.C10
open CG.EL CG.Paths CG.Q
variable {α : Type} [DecidableEq α] {β : Type} [DecidableEq β]

/-! ### a concrete graph for the non-vacuity examples: a diamond `1→2→4, 1→3→4` with a side branch `3→5`
    and an isolated node `6` -/

def exNodes : List Nat := [1, 2, 3, 4, 5, 6]
def exE : List (Nat × Nat) := [(1, 2), (1, 3), (2, 4), (3, 4), (3, 5)]

/-- a graph whose edges all increase some rank is acyclic -/
theorem acyclic_of_rank {E : List (α × α)} (r : α → Nat) (h : ∀ e : α × α, e ∈ E → r e.1 < r e.2) :
    Acyclic (Rel E) := by
  have mono : ∀ a b : α, TC (Rel E) a b → r a < r b := by
    intro a b hab
    induction hab with
    | single hab => exact h _ hab
    | tail _ hbc ih => exact Nat.lt_trans ih (h _ hbc)
  intro n hn
  exact Nat.lt_irrefl _ (mono n n hn)

theorem rtc_rank {E : List (α × α)} (r : α → Nat) (h : ∀ e : α × α, e ∈ E → r e.1 < r e.2) {a b : α}
    (hab : RTC (Rel E) a b) : r a ≤ r b := by
  induction hab with
  | refl => exact Nat.le_refl _
  | tail _ hbc ih => exact Nat.le_trans ih (Nat.le_of_lt (h _ hbc))

theorem exE_acyclic : Acyclic (Rel exE) := acyclic_of_rank id (by decide)
theorem exE_nodes : ∀ e : Nat × Nat, e ∈ exE → e.1 ∈ exNodes ∧ e.2 ∈ exNodes := by decide
theorem exE_nodup : exE.Nodup := by decide
theorem exE_1_3 : Rel exE 1 3 := by unfold Rel; decide
theorem exE_3_4 : Rel exE 3 4 := by unfold Rel; decide
theorem exE_rtc_1_4 : RTC (Rel exE) 1 4 := .tail (.tail (.refl 1) exE_1_3) exE_3_4

/-! ### ancestors, descendants and the tests built on them -/

/-- `get_descendants(n)` is the set of nodes reachable from `n` by a non-empty directed path -/
theorem descendants_iff {E : List (α × α)} (hac : Acyclic (Rel E)) (n a : α) :
    a ∈ descendants E n ↔ TC (Rel E) n a := by
  rw [mem_descendants]
  constructor
  · rintro ⟨h, hne⟩; exact h.ne_tc (Ne.symm hne)
  · intro h; exact ⟨h.toRTC, fun heq => by subst heq; exact hac a h⟩

example (a : Nat) : a ∈ descendants exE 1 ↔ TC (Rel exE) 1 a := descendants_iff exE_acyclic 1 a

/-- `get_ancestors(n)` is the set of nodes from which `n` is reachable by a non-empty directed path -/
theorem ancestors_iff {E : List (α × α)} (hac : Acyclic (Rel E)) (n a : α) :
    a ∈ ancestors E n ↔ TC (Rel E) a n := by
  rw [mem_ancestors]
  constructor
  · rintro ⟨h, hne⟩; exact h.ne_tc hne
  · intro h; exact ⟨h.toRTC, fun heq => by subst heq; exact hac a h⟩

example (a : Nat) : a ∈ ancestors exE 4 ↔ TC (Rel exE) a 4 := ancestors_iff exE_acyclic 4 a

/-- `is_ancestor(a, ds)` for a single node (`ds = [d]`), a list or a set: ALL of `ds` are proper descendants -/
theorem isAncestor_iff {E : List (α × α)} (hac : Acyclic (Rel E)) (a : α) (ds : List α) :
    isAncestor E a ds = true ↔ ∀ d : α, d ∈ ds → TC (Rel E) a d := by
  unfold isAncestor
  simp only [List.all_eq_true, decide_eq_true_eq, descendants_iff hac]

example : isAncestor exE 1 [4, 5] = true ↔ ∀ d : Nat, d ∈ [4, 5] → TC (Rel exE) 1 d :=
  isAncestor_iff exE_acyclic 1 [4, 5]

/-- `is_descendant(d, as)`: ALL of `as` are proper ancestors of `d` -/
theorem isDescendant_iff {E : List (α × α)} (hac : Acyclic (Rel E)) (d : α) (as : List α) :
    isDescendant E d as = true ↔ ∀ a : α, a ∈ as → TC (Rel E) a d := by
  unfold isDescendant
  simp only [List.all_eq_true, decide_eq_true_eq, ancestors_iff hac]

example : isDescendant exE 4 [1, 2] = true ↔ ∀ a : Nat, a ∈ [1, 2] → TC (Rel exE) a 4 :=
  isDescendant_iff exE_acyclic 4 [1, 2]

theorem commonAncestors_iff {E : List (α × α)} (hac : Acyclic (Rel E)) (a b x : α) :
    x ∈ commonAncestors E a b ↔ TC (Rel E) x a ∧ TC (Rel E) x b := by
  unfold commonAncestors
  simp only [List.mem_filter, decide_eq_true_eq, ancestors_iff hac]

example (x : Nat) : x ∈ commonAncestors exE 4 5 ↔ TC (Rel exE) x 4 ∧ TC (Rel exE) x 5 :=
  commonAncestors_iff exE_acyclic 4 5 x

theorem commonDescendants_iff {E : List (α × α)} (hac : Acyclic (Rel E)) (a b x : α) :
    x ∈ commonDescendants E a b ↔ TC (Rel E) a x ∧ TC (Rel E) b x := by
  unfold commonDescendants
  simp only [List.mem_filter, decide_eq_true_eq, descendants_iff hac]

example (x : Nat) : x ∈ commonDescendants exE 2 3 ↔ TC (Rel exE) 2 x ∧ TC (Rel exE) 3 x :=
  commonDescendants_iff exE_acyclic 2 3 x

/-! ### all causal paths -/

/-- `get_all_causal_paths(s, t)` lists exactly the simple directed paths from `s` to `t`, and nothing when
    `s = t` (holds for every edge list; on a DAG every walk is simple, `Q.walk_nodup`) -/
theorem allCausalPaths_iff (E : List (α × α)) (s t : α) (p : List α) :
    p ∈ allCausalPaths E s t ↔ s ≠ t ∧ Walk E s t p ∧ p.Nodup := by
  unfold allCausalPaths
  split
  · rename_i h; simp [h]
  · rename_i h
    simp only [ne_eq, h, not_false_eq_true, true_and]
    constructor
    · intro hp
      obtain ⟨hw, hnd, _, _⟩ := paths_sound E t (E.length + 1) s [] (by simp) p hp
      exact ⟨hw, hnd⟩
    · rintro ⟨hw, hnd⟩
      exact paths_complete E t (E.length + 1) s [] p ⟨hw, hnd, by simp, walk_length_le hw hnd⟩

example (p : List Nat) : p ∈ allCausalPaths exE 1 4 ↔ (1 : Nat) ≠ 4 ∧ Walk exE 1 4 p ∧ p.Nodup :=
  allCausalPaths_iff exE 1 4 p

example : allCausalPaths exE 1 4 = [[1, 2, 4], [1, 3, 4]] := by decide

/-- no path is listed twice -/
theorem allCausalPaths_nodup {E : List (α × α)} (hE : E.Nodup) (s t : α) : (allCausalPaths E s t).Nodup := by
  unfold allCausalPaths
  split
  · simp
  · exact paths_nodup hE t _ s []

example : (allCausalPaths exE 1 4).Nodup := allCausalPaths_nodup exE_nodup 1 4

theorem allCausalPaths_self (E : List (α × α)) (s : α) : allCausalPaths E s s = [] := by
  unfold allCausalPaths; simp

/-- the `is_dag()` assertion of `get_all_causal_paths` / `get_nodes_between`, on a fully directed graph -/
theorem isDag_iff (E : List (α × α)) : isDag E = true ↔ Acyclic (Rel E) := isDag_iff_acyclic E

example : isDag exE = true := (isDag_iff exE).mpr exE_acyclic

/-! ### nodes between: the code's memoised recursion -/

/-- on a DAG the recursion of `get_nodes_between` never needs more depth than there are nodes -/
theorem nodesBetween_terminates {E : List (α × α)} (hac : Acyclic (Rel E)) {nodes : List α}
    (hE : ∀ e : α × α, e ∈ E → e.1 ∈ nodes ∧ e.2 ∈ nodes) {fuel : Nat} (hf : nodes.length ≤ fuel) {s : α}
    (hs : s ∈ nodes) (t : α) : ∃ r, nodesBetweenF E fuel s t = some r := by
  obtain ⟨⟨r, m⟩, h⟩ := inner_total E t hac nodes hE fuel s [] [] hs (by simp) (by simp) (by simp) (by simpa using hf)
  unfold nodesBetweenF
  rw [h]
  cases r <;> exact ⟨_, rfl⟩

example : ∃ r, nodesBetweenF exE exNodes.length 1 4 = some r :=
  nodesBetween_terminates exE_acyclic exE_nodes (Nat.le_refl _) (by decide) 4

/-- whatever the recursion returns (with any fuel) is right: the nodes on directed paths from `s` to `t` when `t`
    is reachable from `s`, nothing otherwise -/
theorem nodesBetweenF_spec {E : List (α × α)} (hac : Acyclic (Rel E)) {fuel : Nat} {s t : α} {r : List α}
    (h : nodesBetweenF E fuel s t = some r) :
    (RTC (Rel E) s t → ∀ n : α, n ∈ r ↔ RTC (Rel E) s n ∧ RTC (Rel E) n t) ∧ (¬ RTC (Rel E) s t → r = []) := by
  unfold nodesBetweenF at h
  split at h
  · cases h
  · rename_i m hin
    simp at h; subst h
    have := (inner_spec E t (RTC (Rel E) s) (fun a b ha hab => .tail ha hab) fuel s [] false m
      (MInv.nil E t _) (.refl s) hin).1
    exact ⟨fun hst => by simpa using this.mpr hst, fun _ => rfl⟩
  · rename_i m hin
    simp at h; subst h
    obtain ⟨hr, hm, _, hskey⟩ := inner_spec E t (RTC (Rel E) s) (fun a b ha hab => .tail ha hab) fuel s [] true m
      (MInv.nil E t _) (.refl s) hin
    refine ⟨fun _ n => ?_, fun hno => absurd (hr.mp rfl) hno⟩
    rw [Memo.mem_trueKeys]
    constructor
    · intro hn
      exact ⟨hm.inP n (Memo.mem_keys.mpr ⟨true, hn⟩), (hm.truth n true hn).mp rfl⟩
    · rintro ⟨hsn, hnt⟩
      -- every node on a path from s to t is a key: walk along the path; it cannot pass through t early
      have hkey : n ∈ m.keys := by
        clear hr
        induction hsn with
        | refl => exact hskey
        | tail hsb hbc ih =>
          rename_i b c
          rcases hm.closed b (ih (RTC.head hbc hnt)) with hbt | hcl
          · subst hbt; exact absurd (TC.of_step_rtc hbc hnt) (hac b)
          · exact hcl c (mem_succs.mpr hbc)
      obtain ⟨b, hb⟩ := Memo.mem_keys.mp hkey
      have : b = true := (hm.truth n b hb).mpr hnt
      subst this; exact hb

/-- `get_nodes_between(s, t)` when a directed path from `s` to `t` exists (`s = t` included): exactly the nodes
    lying on such paths — diamonds, dead-end branches and the end-node short-cut notwithstanding -/
theorem nodesBetween_eq {E : List (α × α)} (hac : Acyclic (Rel E)) {nodes : List α}
    (hE : ∀ e : α × α, e ∈ E → e.1 ∈ nodes ∧ e.2 ∈ nodes) {s t : α} (hs : s ∈ nodes)
    (hst : RTC (Rel E) s t) (n : α) :
    n ∈ nodesBetween nodes E s t ↔ RTC (Rel E) s n ∧ RTC (Rel E) n t := by
  obtain ⟨r, hr⟩ := nodesBetween_terminates hac hE (Nat.le_refl _) hs t
  unfold nodesBetween
  rw [hr]
  exact (nodesBetweenF_spec hac hr).1 hst n

example (n : Nat) : n ∈ nodesBetween exNodes exE 1 4 ↔ RTC (Rel exE) 1 n ∧ RTC (Rel exE) n 4 :=
  nodesBetween_eq exE_acyclic exE_nodes (by decide) exE_rtc_1_4 n

/-- … and the empty set when there is no directed path -/
theorem nodesBetween_empty {E : List (α × α)} (hac : Acyclic (Rel E)) {nodes : List α}
    (hE : ∀ e : α × α, e ∈ E → e.1 ∈ nodes ∧ e.2 ∈ nodes) {s t : α} (hs : s ∈ nodes)
    (hst : ¬ RTC (Rel E) s t) : nodesBetween nodes E s t = [] := by
  obtain ⟨r, hr⟩ := nodesBetween_terminates hac hE (Nat.le_refl _) hs t
  unfold nodesBetween
  rw [hr]
  exact (nodesBetweenF_spec hac hr).2 hst


example : nodesBetween exNodes exE 5 1 = [] :=
  nodesBetween_empty exE_acyclic exE_nodes (by decide)
    (fun h => absurd (rtc_rank (E := exE) id (by decide) h) (by decide))

/-- equal source and destination: the node itself -/
theorem nodesBetween_self {E : List (α × α)} (hac : Acyclic (Rel E)) {nodes : List α}
    (hE : ∀ e : α × α, e ∈ E → e.1 ∈ nodes ∧ e.2 ∈ nodes) {s : α} (hs : s ∈ nodes) (n : α) :
    n ∈ nodesBetween nodes E s s ↔ n = s := by
  rw [nodesBetween_eq hac hE hs (.refl s)]
  constructor
  · rintro ⟨h1, h2⟩; exact rtc_antisymm hac h2 h1
  · rintro rfl; exact ⟨.refl _, .refl _⟩

example (n : Nat) : n ∈ nodesBetween exNodes exE 3 3 ↔ n = 3 := nodesBetween_self exE_acyclic exE_nodes (by decide) n

/-! ### directed path exists: the code's recursion on the directed part of a mixed graph -/

/-- with an acyclic directed part the recursion terminates within depth `|nodes|` (no `RecursionError`) -/
theorem directedPathExists_terminates {E : List (α × α)} (hac : Acyclic (Rel E)) {nodes : List α}
    (hE : ∀ e : α × α, e ∈ E → e.1 ∈ nodes ∧ e.2 ∈ nodes) {fuel : Nat} (hf : nodes.length ≤ fuel) {s : α}
    (hs : s ∈ nodes) (t : α) : ∃ b, directedPathExists E fuel s t = some b := by
  obtain ⟨b, hb, _⟩ := dpe_spec E t hac nodes hE fuel s [] hs (by simp) (by simp) (by simp) (by simpa using hf)
  exact ⟨b, hb⟩

example : ∃ b, directedPathExists exE exNodes.length 2 5 = some b :=
  directedPathExists_terminates exE_acyclic exE_nodes (Nat.le_refl _) (by decide) 5

/-- … and answers `True` exactly when a non-empty directed path exists (so `False` for `s = t`) -/
theorem directedPathExists_iff {E : List (α × α)} (hac : Acyclic (Rel E)) {nodes : List α}
    (hE : ∀ e : α × α, e ∈ E → e.1 ∈ nodes ∧ e.2 ∈ nodes) {fuel : Nat} (hf : nodes.length ≤ fuel) {s : α}
    (hs : s ∈ nodes) (t : α) : directedPathExists E fuel s t = some true ↔ TC (Rel E) s t := by
  obtain ⟨b, hb, hbm⟩ := dpe_spec E t hac nodes hE fuel s [] hs (by simp) (by simp) (by simp) (by simpa using hf)
  unfold directedPathExists
  rw [hb, ← hbm]
  simp

example : directedPathExists exE exNodes.length 1 5 = some true ↔ TC (Rel exE) 1 5 :=
  directedPathExists_iff exE_acyclic exE_nodes (Nat.le_refl _) (by decide) 5


/-- an answer `True` is witnessed by a directed path on ANY graph and with any fuel -/
theorem directedPathExists_sound (E : List (α × α)) (fuel : Nat) (s t : α)
    (h : directedPathExists E fuel s t = some true) : TC (Rel E) s t := dpe_sound E t fuel s h

/-! ### sub-graphs -/

/-- nodes of `_get_subgraph(ns)`: the requested nodes when no edge lies inside `ns`, otherwise ONLY the end points
    of the kept edges (the code's isolated-node branch) -/
theorem subgraph_nodes (E : List (α × α)) (ns : List α) :
    ((∀ e : α × α, e ∈ E → ¬ (e.1 ∈ ns ∧ e.2 ∈ ns)) → (subgraph E ns).1 = ns) ∧
    ((∃ e : α × α, e ∈ E ∧ e.1 ∈ ns ∧ e.2 ∈ ns) → ∀ x : α, x ∈ (subgraph E ns).1 ↔
      ∃ e : α × α, e ∈ E ∧ (e.1 ∈ ns ∧ e.2 ∈ ns) ∧ (x = e.1 ∨ x = e.2)) :=
  ⟨subgraph_nodes_isolated, fun h x => subgraph_nodes_incident h x⟩

/-- the odd branch is observable for arbitrary node sets: `6` is requested but dropped -/
example : subgraph exE [1, 2, 6] = ([1, 2], [(1, 2)]) := by decide

/-- edges of `_get_subgraph(ns)`: all edges with both end points in `ns` -/
theorem subgraph_edges (E : List (α × α)) (ns : List α) (e : α × α) :
    e ∈ (subgraph E ns).2 ↔ e ∈ E ∧ e.1 ∈ ns ∧ e.2 ∈ ns := mem_subgraph_edges

/-- `get_ancestral_graph(n)` is the sub-graph induced on `{n} ∪ ancestors(n)`: the isolated-node branch is harmless
    there because every proper ancestor — and `n` as soon as it has one — touches a kept edge -/
theorem subgraph_induced_ancestral {E : List (α × α)} (hac : Acyclic (Rel E)) (n : α) :
    (∀ x : α, x ∈ (ancestralGraph E n).1 ↔ x = n ∨ TC (Rel E) x n) ∧
    (∀ e : α × α, e ∈ (ancestralGraph E n).2 ↔
      e ∈ E ∧ (e.1 = n ∨ TC (Rel E) e.1 n) ∧ (e.2 = n ∨ TC (Rel E) e.2 n)) := by
  have hns : ∀ x : α, x ∈ ancestors E n ++ [n] ↔ TC (Rel E) x n ∨ x = n := by
    intro x; simp only [List.mem_append, ancestors_iff hac, List.mem_singleton]
  unfold ancestralGraph
  constructor
  · intro x
    rw [subgraph_nodes_cover (ancestral_cover hac n _ hns), hns]
    exact Or.comm
  · intro e
    rw [mem_subgraph_edges, hns, hns]
    simp only [Or.comm]

example (x : Nat) : x ∈ (ancestralGraph exE 4).1 ↔ x = 4 ∨ TC (Rel exE) x 4 :=
  (subgraph_induced_ancestral exE_acyclic 4).1 x


/-- `get_descendant_graph(n)` is the sub-graph induced on `{n} ∪ descendants(n)` -/
theorem subgraph_induced_descendant {E : List (α × α)} (hac : Acyclic (Rel E)) (n : α) :
    (∀ x : α, x ∈ (descendantGraph E n).1 ↔ x = n ∨ TC (Rel E) n x) ∧
    (∀ e : α × α, e ∈ (descendantGraph E n).2 ↔
      e ∈ E ∧ (e.1 = n ∨ TC (Rel E) n e.1) ∧ (e.2 = n ∨ TC (Rel E) n e.2)) := by
  have hns : ∀ x : α, x ∈ descendants E n ++ [n] ↔ TC (Rel E) n x ∨ x = n := by
    intro x; simp only [List.mem_append, descendants_iff hac, List.mem_singleton]
  unfold descendantGraph
  constructor
  · intro x
    rw [subgraph_nodes_cover (descendant_cover hac n _ hns), hns]
    exact Or.comm
  · intro e
    rw [mem_subgraph_edges, hns, hns]
    simp only [Or.comm]

example (x : Nat) : x ∈ (descendantGraph exE 3).1 ↔ x = 3 ∨ TC (Rel exE) 3 x :=
  (subgraph_induced_descendant exE_acyclic 3).1 x

/-- `get_parents_graph(n)` is the star into `n`: nodes `n` and its parents, edges exactly the edges into `n` -/
theorem parentsGraph_star (nodes : List α) (E : List (α × α)) (n : α) :
    (∀ x : α, x ∈ (parentsGraph nodes E n).1 ↔ x ∈ nodes ∧ (x = n ∨ Rel E x n)) ∧
    (∀ e : α × α, e ∈ (parentsGraph nodes E n).2 ↔ e ∈ E ∧ e.2 = n) := by
  unfold parentsGraph
  simp only [List.mem_filter, decide_eq_true_eq, mem_preds, implies_true, and_self]

/-- `get_children_graph(n)` is the star out of `n` -/
theorem childrenGraph_star (nodes : List α) (E : List (α × α)) (n : α) :
    (∀ x : α, x ∈ (childrenGraph nodes E n).1 ↔ x ∈ nodes ∧ (x = n ∨ Rel E n x)) ∧
    (∀ e : α × α, e ∈ (childrenGraph nodes E n).2 ↔ e ∈ E ∧ e.1 = n) := by
  unfold childrenGraph
  simp only [List.mem_filter, decide_eq_true_eq, mem_succs, implies_true, and_self]

example : parentsGraph exNodes exE 4 = ([2, 3, 4], [(2, 4), (3, 4)]) := by decide

/-! ### the public wrappers do not fail on existing nodes of a DAG -/

/-- the explicit `add_node` loop of `_get_subgraph` cannot fail on distinct existing nodes -/
theorem getSubgraph_ok {nodes : List α} {E : List (α × α)} {ns : List α} (hnd : ns.Nodup)
    (hsub : ∀ x : α, x ∈ ns → x ∈ nodes) : getSubgraph nodes E ns = .ok (subgraph E ns) := getSubgraph_eq hnd hsub

/-- every checked query returns the value of the pure function studied above (no assertion fires, the recursion
    limit is not hit) when its arguments are nodes of a DAG -/
theorem checked_queries_ok {E : List (α × α)} (hac : Acyclic (Rel E)) {nodes : List α}
    (hE : ∀ e : α × α, e ∈ E → e.1 ∈ nodes ∧ e.2 ∈ nodes) {s t : α} (hs : s ∈ nodes) (ht : t ∈ nodes)
    (ds : List α) :
    getAncestors nodes E s = .ok (ancestors E s) ∧ getDescendants nodes E s = .ok (descendants E s) ∧
    getIsAncestor nodes E s ds = .ok (isAncestor E s ds) ∧ getIsDescendant nodes E s ds = .ok (isDescendant E s ds) ∧
    getCommonAncestors nodes E s t = .ok (commonAncestors E s t) ∧
    getCommonDescendants nodes E s t = .ok (commonDescendants E s t) ∧
    getAllCausalPaths nodes E s t = .ok (allCausalPaths E s t) ∧
    getNodesBetween nodes E s t = .ok (nodesBetween nodes E s t) ∧
    (∃ b, getDirectedPathExists nodes E s t = .ok b ∧ (b = true ↔ TC (Rel E) s t)) ∧
    getAncestralGraph nodes E s = .ok (ancestralGraph E s) ∧
    getDescendantGraph nodes E s = .ok (descendantGraph E s) ∧
    getParentsGraph nodes E s = .ok (parentsGraph nodes E s) ∧
    getChildrenGraph nodes E s = .ok (childrenGraph nodes E s) := by
  have hdag : isDag E = true := (isDag_iff E).mpr hac
  refine ⟨by simp [getAncestors, hs], by simp [getDescendants, hs], by simp [getIsAncestor, hs],
    by simp [getIsDescendant, hs], by simp [getCommonAncestors, hs, ht], by simp [getCommonDescendants, hs, ht],
    by simp [getAllCausalPaths, hdag, hs, ht], ?_, ?_, ?_, ?_, by simp [getParentsGraph, hs],
    by simp [getChildrenGraph, hs]⟩
  · obtain ⟨r, hr⟩ := nodesBetween_terminates hac hE (Nat.le_refl _) hs t
    simp [getNodesBetween, hdag, hs, ht, nodesBetween, hr]
  · obtain ⟨b, hb, hbm⟩ := dpe_spec E t hac nodes hE nodes.length s [] hs (by simp) (by simp) (by simp) (by simp)
    refine ⟨b, ?_, hbm⟩
    simp [getDirectedPathExists, hs, ht, directedPathExists, hb]
  · simp only [getAncestralGraph, hs, if_true, ancestralGraph]
    refine getSubgraph_eq ?_ ?_
    · rw [List.nodup_append]
      refine ⟨ancestors_nodup E s, by simp, ?_⟩
      intro a ha b hb
      simp at hb; subst hb
      exact (mem_ancestors.mp ha).2
    · intro x hx
      rcases List.mem_append.mp hx with h | h
      · obtain ⟨y, hxy, _⟩ := ((ancestors_iff hac s x).mp h).split
        exact (hE (x, y) hxy).1
      · simp at h; subst h; exact hs
  · simp only [getDescendantGraph, hs, if_true, descendantGraph]
    refine getSubgraph_eq ?_ ?_
    · rw [List.nodup_append]
      refine ⟨descendants_nodup E s, by simp, ?_⟩
      intro a ha b hb
      simp at hb; subst hb
      exact (mem_descendants.mp ha).2
    · intro x hx
      rcases List.mem_append.mp hx with h | h
      · have := (descendants_iff hac s x).mp h
        cases this with
        | single h1 => exact (hE (s, x) h1).2
        | tail _ h2 => exact (hE (_, x) h2).2
      · simp at h; subst h; exact hs

example : getNodesBetween exNodes exE 1 4 = .ok (nodesBetween exNodes exE 1 4) :=
  (checked_queries_ok exE_acyclic exE_nodes (s := 1) (t := 4) (by decide) (by decide) []).2.2.2.2.2.2.2.1

example : getAncestralGraph exNodes exE 4 = .ok (ancestralGraph exE 4) :=
  (checked_queries_ok exE_acyclic exE_nodes (s := 4) (t := 4) (by decide) (by decide) []).2.2.2.2.2.2.2.2.2.1

/-! ### cross-consistency -/

/-- `is_ancestor(a, b)`, `a ∈ get_ancestors(b)` and `b ∈ get_descendants(a)` always agree -/
theorem isAncestor_consistent (E : List (α × α)) (a b : α) :
    (isAncestor E a [b] = true ↔ a ∈ ancestors E b) ∧ (a ∈ ancestors E b ↔ b ∈ descendants E a) := by
  unfold isAncestor
  simp only [List.all_cons, List.all_nil, Bool.and_true, decide_eq_true_eq, mem_ancestors, mem_descendants]
  exact ⟨⟨fun ⟨h1, h2⟩ => ⟨h1, Ne.symm h2⟩, fun ⟨h1, h2⟩ => ⟨h1, Ne.symm h2⟩⟩,
    ⟨fun ⟨h1, h2⟩ => ⟨h1, Ne.symm h2⟩, fun ⟨h1, h2⟩ => ⟨h1, Ne.symm h2⟩⟩⟩

/-- `is_descendant(d, a)` is `is_ancestor(a, d)` -/
theorem isDescendant_consistent (E : List (α × α)) (a d : α) :
    isDescendant E d [a] = true ↔ isAncestor E a [d] = true := by
  rw [(isAncestor_consistent E a d).1]
  unfold isDescendant
  simp only [List.all_cons, List.all_nil, Bool.and_true, decide_eq_true_eq]

/-- `get_nodes_between(s, t)` is the union of the nodes of `get_all_causal_paths(s, t)` for `s ≠ t`
    (for `s = t` the former is `{s}` — `nodesBetween_self` — and the latter is empty — `allCausalPaths_self`) -/
theorem nodesBetween_eq_paths_union {E : List (α × α)} (hac : Acyclic (Rel E)) {nodes : List α}
    (hE : ∀ e : α × α, e ∈ E → e.1 ∈ nodes ∧ e.2 ∈ nodes) {s t : α} (hs : s ∈ nodes) (hst : s ≠ t) (n : α) :
    n ∈ nodesBetween nodes E s t ↔ ∃ p, p ∈ allCausalPaths E s t ∧ n ∈ p := by
  by_cases hr : RTC (Rel E) s t
  · rw [nodesBetween_eq hac hE hs hr]
    constructor
    · rintro ⟨h1, h2⟩
      obtain ⟨p, hp, hn⟩ := walk_through h1 h2
      exact ⟨p, (allCausalPaths_iff E s t p).mpr ⟨hst, hp, walk_nodup hac hp⟩, hn⟩
    · rintro ⟨p, hp, hn⟩
      exact walk_mem_rtc ((allCausalPaths_iff E s t p).mp hp).2.1 n hn
  · rw [nodesBetween_empty hac hE hs hr]
    simp only [List.not_mem_nil, false_iff, not_exists, not_and]
    intro p hp
    exact absurd (rtc_of_walk ((allCausalPaths_iff E s t p).mp hp).2.1) hr

example (n : Nat) : n ∈ nodesBetween exNodes exE 1 4 ↔ ∃ p, p ∈ allCausalPaths exE 1 4 ∧ n ∈ p :=
  nodesBetween_eq_paths_union exE_acyclic exE_nodes (by decide) (by decide) n

/-! ### invariance under construction order and under renaming -/

/-- Construction order: two edge lists with the same members (and two node lists with the same members) give
    the same answers, as sets, for every query. -/
theorem queries_order_invariant {E E' : List (α × α)} (hmem : ∀ e : α × α, e ∈ E ↔ e ∈ E')
    (hac : Acyclic (Rel E)) {nodes nodes' : List α} (hnodes : ∀ x : α, x ∈ nodes ↔ x ∈ nodes')
    (hE : ∀ e : α × α, e ∈ E → e.1 ∈ nodes ∧ e.2 ∈ nodes) :
    (∀ n x : α, x ∈ ancestors E n ↔ x ∈ ancestors E' n) ∧
    (∀ n x : α, x ∈ descendants E n ↔ x ∈ descendants E' n) ∧
    (∀ (a : α) (ds : List α), isAncestor E a ds = isAncestor E' a ds) ∧
    (∀ (d : α) (as : List α), isDescendant E d as = isDescendant E' d as) ∧
    (∀ a b x : α, x ∈ commonAncestors E a b ↔ x ∈ commonAncestors E' a b) ∧
    (∀ a b x : α, x ∈ commonDescendants E a b ↔ x ∈ commonDescendants E' a b) ∧
    (∀ (s t : α) (p : List α), p ∈ allCausalPaths E s t ↔ p ∈ allCausalPaths E' s t) ∧
    (∀ s t x : α, s ∈ nodes → (x ∈ nodesBetween nodes E s t ↔ x ∈ nodesBetween nodes' E' s t)) ∧
    (∀ s t : α, s ∈ nodes → directedPathExists E nodes.length s t = directedPathExists E' nodes'.length s t) ∧
    (∀ n x : α, x ∈ (ancestralGraph E n).1 ↔ x ∈ (ancestralGraph E' n).1) ∧
    (∀ (n : α) (e : α × α), e ∈ (ancestralGraph E n).2 ↔ e ∈ (ancestralGraph E' n).2) ∧
    (∀ n x : α, x ∈ (descendantGraph E n).1 ↔ x ∈ (descendantGraph E' n).1) ∧
    (∀ (n : α) (e : α × α), e ∈ (descendantGraph E n).2 ↔ e ∈ (descendantGraph E' n).2) ∧
    (∀ n x : α, x ∈ (parentsGraph nodes E n).1 ↔ x ∈ (parentsGraph nodes' E' n).1) ∧
    (∀ (n : α) (e : α × α), e ∈ (parentsGraph nodes E n).2 ↔ e ∈ (parentsGraph nodes' E' n).2) ∧
    (∀ n x : α, x ∈ (childrenGraph nodes E n).1 ↔ x ∈ (childrenGraph nodes' E' n).1) ∧
    (∀ (n : α) (e : α × α), e ∈ (childrenGraph nodes E n).2 ↔ e ∈ (childrenGraph nodes' E' n).2) := by
  have hrel : Rel E = Rel E' := rel_congr hmem
  have hac' : Acyclic (Rel E') := hrel ▸ hac
  have hE' : ∀ e : α × α, e ∈ E' → e.1 ∈ nodes' ∧ e.2 ∈ nodes' := fun e he =>
    ⟨(hnodes _).mp (hE e ((hmem e).mpr he)).1, (hnodes _).mp (hE e ((hmem e).mpr he)).2⟩
  refine ⟨?_, ?_, ?_, ?_, ?_, ?_, ?_, ?_, ?_, ?_, ?_, ?_, ?_, ?_, ?_, ?_, ?_⟩
  · intro n x; rw [ancestors_iff hac, ancestors_iff hac', hrel]
  · intro n x; rw [descendants_iff hac, descendants_iff hac', hrel]
  · intro a ds; rw [Bool.eq_iff_iff, isAncestor_iff hac, isAncestor_iff hac', hrel]
  · intro d as; rw [Bool.eq_iff_iff, isDescendant_iff hac, isDescendant_iff hac', hrel]
  · intro a b x; rw [commonAncestors_iff hac, commonAncestors_iff hac', hrel]
  · intro a b x; rw [commonDescendants_iff hac, commonDescendants_iff hac', hrel]
  · intro s t p; rw [allCausalPaths_iff, allCausalPaths_iff, walk_congr hmem]
  · intro s t x hs
    by_cases hr : RTC (Rel E) s t
    · rw [nodesBetween_eq hac hE hs hr, nodesBetween_eq hac' hE' ((hnodes s).mp hs) (hrel ▸ hr), hrel]
    · rw [nodesBetween_empty hac hE hs hr, nodesBetween_empty hac' hE' ((hnodes s).mp hs) (hrel ▸ hr)]
  · intro s t hs
    obtain ⟨b, hb⟩ := directedPathExists_terminates hac hE (Nat.le_refl _) hs t
    obtain ⟨b', hb'⟩ := directedPathExists_terminates hac' hE' (Nat.le_refl _) ((hnodes s).mp hs) t
    have h1 := directedPathExists_iff hac hE (Nat.le_refl _) hs t
    have h2 := directedPathExists_iff hac' hE' (Nat.le_refl _) ((hnodes s).mp hs) t
    rw [hb] at h1 ⊢
    rw [hb'] at h2 ⊢
    rw [← hrel, ← h1] at h2
    cases b <;> cases b' <;> simp_all
  · intro n x; rw [(subgraph_induced_ancestral hac n).1, (subgraph_induced_ancestral hac' n).1, hrel]
  · intro n e; rw [(subgraph_induced_ancestral hac n).2, (subgraph_induced_ancestral hac' n).2, hrel, hmem]
  · intro n x; rw [(subgraph_induced_descendant hac n).1, (subgraph_induced_descendant hac' n).1, hrel]
  · intro n e; rw [(subgraph_induced_descendant hac n).2, (subgraph_induced_descendant hac' n).2, hrel, hmem]
  · intro n x; rw [(parentsGraph_star nodes E n).1, (parentsGraph_star nodes' E' n).1, hrel, hnodes]
  · intro n e; rw [(parentsGraph_star nodes E n).2, (parentsGraph_star nodes' E' n).2, hmem]
  · intro n x; rw [(childrenGraph_star nodes E n).1, (childrenGraph_star nodes' E' n).1, hrel, hnodes]
  · intro n e; rw [(childrenGraph_star nodes E n).2, (childrenGraph_star nodes' E' n).2, hmem]

example : (∀ n x : Nat, x ∈ ancestors exE n ↔ x ∈ ancestors exE.reverse n) :=
  (queries_order_invariant (E := exE) (E' := exE.reverse) (nodes := exNodes) (nodes' := exNodes.reverse)
    (by simp) exE_acyclic (by simp) exE_nodes).1

/-- Renaming: an injective renaming `f` of the nodes renames every answer (membership statements; `mapE f E` is the
    renamed edge list). -/
theorem queries_rename_invariant {f : α → β} (hf : Inj f) {E : List (α × α)} (hac : Acyclic (Rel E))
    {nodes : List α} (hE : ∀ e : α × α, e ∈ E → e.1 ∈ nodes ∧ e.2 ∈ nodes) :
    Acyclic (Rel (mapE f E)) ∧
    (∀ n x : α, f x ∈ ancestors (mapE f E) (f n) ↔ x ∈ ancestors E n) ∧
    (∀ (n : α) (y : β), y ∈ ancestors (mapE f E) (f n) → ∃ x, y = f x) ∧
    (∀ n x : α, f x ∈ descendants (mapE f E) (f n) ↔ x ∈ descendants E n) ∧
    (∀ (n : α) (y : β), y ∈ descendants (mapE f E) (f n) → ∃ x, y = f x) ∧
    (∀ (a : α) (ds : List α), isAncestor (mapE f E) (f a) (ds.map f) = isAncestor E a ds) ∧
    (∀ (d : α) (as : List α), isDescendant (mapE f E) (f d) (as.map f) = isDescendant E d as) ∧
    (∀ (s t : α) (q : List β), q ∈ allCausalPaths (mapE f E) (f s) (f t) ↔
      ∃ p, p ∈ allCausalPaths E s t ∧ q = p.map f) ∧
    (∀ s t x : α, s ∈ nodes →
      (f x ∈ nodesBetween (nodes.map f) (mapE f E) (f s) (f t) ↔ x ∈ nodesBetween nodes E s t)) ∧
    (∀ (s t : α) (y : β), s ∈ nodes → y ∈ nodesBetween (nodes.map f) (mapE f E) (f s) (f t) → ∃ x, y = f x) ∧
    (∀ s t : α, s ∈ nodes →
      directedPathExists (mapE f E) (nodes.map f).length (f s) (f t) = directedPathExists E nodes.length s t) := by
  have hac' : Acyclic (Rel (mapE f E)) := acyclic_mapE hf hac
  have hE' : ∀ e : β × β, e ∈ mapE f E → e.1 ∈ nodes.map f ∧ e.2 ∈ nodes.map f := by
    rintro ⟨x, y⟩ he
    obtain ⟨a, b, h, rfl, rfl⟩ := mem_mapE.mp he
    exact ⟨List.mem_map.mpr ⟨a, (hE _ h).1, rfl⟩, List.mem_map.mpr ⟨b, (hE _ h).2, rfl⟩⟩
  have hs' : ∀ s : α, s ∈ nodes → f s ∈ nodes.map f := fun s hs => List.mem_map.mpr ⟨s, hs, rfl⟩
  refine ⟨hac', ?_, ?_, ?_, ?_, ?_, ?_, ?_, ?_, ?_, ?_⟩
  · intro n x; rw [ancestors_iff hac', ancestors_iff hac, tc_mapE hf]
  · intro n y hy
    obtain ⟨a, b, h1, _, _⟩ := (tc_mapE_iff hf).mp ((ancestors_iff hac' _ _).mp hy)
    exact ⟨a, h1⟩
  · intro n x; rw [descendants_iff hac', descendants_iff hac, tc_mapE hf]
  · intro n y hy
    obtain ⟨a, b, _, h2, _⟩ := (tc_mapE_iff hf).mp ((descendants_iff hac' _ _).mp hy)
    exact ⟨b, h2⟩
  · intro a ds
    rw [Bool.eq_iff_iff, isAncestor_iff hac', isAncestor_iff hac]
    simp only [List.mem_map, forall_exists_index, and_imp, forall_apply_eq_imp_iff₂, tc_mapE hf]
  · intro d as
    rw [Bool.eq_iff_iff, isDescendant_iff hac', isDescendant_iff hac]
    simp only [List.mem_map, forall_exists_index, and_imp, forall_apply_eq_imp_iff₂, tc_mapE hf]
  · intro s t q
    rw [allCausalPaths_iff]
    constructor
    · rintro ⟨hne, hw, hnd⟩
      obtain ⟨t', p, ht, rfl, hw'⟩ := (walk_mapE hf).mp hw
      rw [← hf _ _ ht] at hw'
      exact ⟨p, (allCausalPaths_iff E s t p).mpr ⟨fun h => hne (by rw [h]), hw', (nodup_map_inj hf).mp hnd⟩, rfl⟩
    · rintro ⟨p, hp, rfl⟩
      obtain ⟨hne, hw, hnd⟩ := (allCausalPaths_iff E s t p).mp hp
      exact ⟨fun h => hne (hf _ _ h), (walk_mapE hf).mpr ⟨t, p, rfl, rfl, hw⟩, (nodup_map_inj hf).mpr hnd⟩
  · intro s t x hs
    by_cases hr : RTC (Rel E) s t
    · rw [nodesBetween_eq hac' hE' (hs' s hs) ((rtc_mapE hf).mpr hr), nodesBetween_eq hac hE hs hr, rtc_mapE hf,
        rtc_mapE hf]
    · rw [nodesBetween_empty hac' hE' (hs' s hs) (fun h => hr ((rtc_mapE hf).mp h)), nodesBetween_empty hac hE hs hr]
      simp
  · intro s t y hs hy
    by_cases hr : RTC (Rel E) s t
    · rw [nodesBetween_eq hac' hE' (hs' s hs) ((rtc_mapE hf).mpr hr)] at hy
      obtain ⟨b, hb, _⟩ := (rtc_mapE_from hf).mp hy.1
      exact ⟨b, hb⟩
    · rw [nodesBetween_empty hac' hE' (hs' s hs) (fun h => hr ((rtc_mapE hf).mp h))] at hy
      simp at hy
  · intro s t hs
    obtain ⟨b, hb⟩ := directedPathExists_terminates hac hE (Nat.le_refl _) hs t
    obtain ⟨b', hb'⟩ := directedPathExists_terminates hac' hE' (Nat.le_refl _) (hs' s hs) (f t)
    have h1 := directedPathExists_iff hac hE (Nat.le_refl _) hs t
    have h2 := directedPathExists_iff hac' hE' (Nat.le_refl _) (hs' s hs) (f t)
    rw [hb] at h1 ⊢
    rw [hb'] at h2 ⊢
    rw [tc_mapE hf, ← h1] at h2
    cases b <;> cases b' <;> simp_all

example : ∀ n x : Nat, (x + 10) ∈ ancestors (mapE (· + 10) exE) (n + 10) ↔ x ∈ ancestors exE n :=
  (queries_rename_invariant (f := (· + 10)) (fun a b h => by have h' : a + 10 = b + 10 := h; omega) exE_acyclic exE_nodes).2.1

end CG.C10
