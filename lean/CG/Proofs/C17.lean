/-
C17 — the summary graph has one node per variable and an edge per causal link.

Model: `CG.TS.summaryGraph`, the code AFTER the repair of D11 (skip self-links; opposite orientation already present ⇒
that edge becomes bidirected by remove + add with `validate=False`; otherwise add with `validate=False` when absent;
floating variables from the parsed node names).

Hypotheses: `TsHyp g` (well-formed time-series graph with canonical node names) and `isDag g = true`.

  summary_total      get_summary_graph never raises on a DAG; the result is a well-formed PLAIN graph with the input's
                     graph metadata
  summary_nodes      its nodes are exactly the variables (floating variables included)
  summary_edges      no self-link; two distinct variables are adjacent iff some edge of the input joins them (any lags);
                     `x -> y` iff every such edge runs from x to y; `<>` iff edges run both ways; no other edge type
-/
import CG.Proofs.Lemmas.TSSummary
import CG.Proofs.AcyclicStep
import CG.Proofs.C02Core

namespace CG.C17
open CG Std CG.Name CG.TS

variable {g : Graph}

/-! ### a DAG has directed edges only -/

theorem directed_of_isDag (hd : isDag g = true) {k : EKey} {r : EdgeRec} (h : g.edges[k]? = some r) :
    r.ty = .directed := by
  unfold isDag at hd
  simp only [Bool.and_eq_true] at hd
  have := hd.1
  unfold isFullyDirected at this
  rw [List.all_eq_true] at this
  have hm : (k, r) ∈ g.edges.toList := ExtTreeMap.mem_toList_iff_getElem?_eq_some.mpr h
  simpa using this (k, r) hm

/-! ### the collapse loop -/

theorem linkIn_all_iff (x y : String) : LinkIn g (getEdges g none none none) x y ↔ Link g x y := by
  unfold LinkIn Link IsTemplate
  constructor
  · rintro ⟨⟨⟨a, b⟩, re⟩, he, ra, rb, ha, hb, rfl, rfl⟩
    exact ⟨rb.lag - ra.lag, re.ty, a, b, ra, rb, re, mem_getEdges_all he, ha, hb, rfl, rfl, rfl, rfl⟩
  · rintro ⟨δ, ty, a, b, ra, rb, re, he, ha, hb, rfl, rfl, _, _⟩
    exact ⟨((a, b), re), mem_getEdges_all_iff.mpr he, ra, rb, ha, hb, rfl, rfl⟩

/-- **the collapse loop never fails and establishes the invariant for the whole edge list** -/
theorem collapse_fold (h : TsHyp g) (hd : isDag g = true) :
    ∃ S, (getEdges g none none none).foldlM (sumStep summaryFlip g) (Graph.empty .plain g.gmeta) = .ok S ∧
      SumInv g S (getEdges g none none none) := by
  obtain ⟨S, h1, pre, h2, h3⟩ := foldlM_inv (sumStep summaryFlip g)
    (fun S rest => ∃ pre, pre ++ rest = getEdges g none none none ∧ SumInv g S pre)
    (by
      rintro S ⟨⟨a, b⟩, re⟩ rest ⟨pre, hp, hi⟩
      have hmem : ((a, b), re) ∈ getEdges g none none none := by rw [← hp]; simp
      have he := mem_getEdges_all hmem
      obtain ⟨ra, rb, ha, hb, _⟩ := h.edge he
      refine ⟨_, sumStep_eq h ha hb hi.wf hi.cls, pre ++ [((a, b), re)], by simp [← hp], ?_⟩
      exact sumInv_step hi ha hb (directed_of_isDag hd he))
    (getEdges g none none none) (Graph.empty .plain g.gmeta) ⟨[], rfl, sumInv_empty g⟩
  refine ⟨S, h1, ?_⟩
  rw [List.append_nil] at h2
  rw [← h2]; exact h3

/-! ### the floating-variable pass -/

theorem mapM_parse_ok (l : List (String × NodeRec))
    (hl : ∀ p ∈ l, Name.parse p.1 = some (p.2.var, p.2.lag)) :
    (l.map (·.1)).mapM (fun n => ofOpt Err.valueError ((Name.parse n).map (·.1))) = .ok (l.map (·.2.var)) := by
  induction l with
  | nil => rfl
  | cons p l ih =>
    have hp := hl p (List.mem_cons_self ..)
    have := ih (fun q hq => hl q (List.mem_cons_of_mem _ hq))
    have e : ofOpt Err.valueError ((Name.parse p.1).map (·.1)) = .ok p.2.var := by rw [hp]; rfl
    simp only [List.map_cons, List.mapM_cons, e, bind, Except.bind, this, pure, Except.pure]

theorem allVariableNames_eq (h : TsHyp g) : allVariableNames g = .ok (variables g) := by
  unfold allVariableNames variables
  have hk : g.nodes.keys = g.nodes.toList.map (·.1) := ExtTreeMap.map_fst_toList_eq_keys.symm
  rw [hk, mapM_parse_ok g.nodes.toList (fun p hp =>
    (h.wf.tsName h.cls p.1 p.2 (ExtTreeMap.mem_toList_iff_getElem?_eq_some.mp hp)).1)]
  rfl

/-- the floating pass as a pure function -/
def floatP (present : List String) (S : Graph) (v : String) : Graph :=
  if present.contains v then S else S.insNode v { vtype := .unspecified, md := [] }

theorem floatP_fold (present : List String) :
    ∀ (vs : List String) (S : Graph), WF S → S.cls = .plain → vs.Nodup → (∀ v ∈ vs, v ∉ present → v ∉ S.nodes) →
      vs.foldlM (fun acc v => if present.contains v then pure acc else addNode acc v .unspecified []) S
        = .ok (vs.foldl (floatP present) S) ∧ WF (vs.foldl (floatP present) S) := by
  intro vs
  induction vs with
  | nil => intro S hw _ _ _; exact ⟨rfl, hw⟩
  | cons v vs ih =>
    intro S hw hc hnd hfresh
    obtain ⟨hv, hnd'⟩ := List.nodup_cons.mp hnd
    simp only [List.foldlM_cons, List.foldl_cons]
    by_cases hp : present.contains v = true
    · simp only [hp, if_true, pure, Except.pure, bind, Except.bind, floatP]
      exact ih S hw hc hnd' (fun w hw => hfresh w (List.mem_cons_of_mem _ hw))
    · have hn : v ∉ S.nodes := hfresh v (List.mem_cons_self ..) (fun x => hp (List.contains_iff_mem.mpr x))
      have hadd : addNode S v .unspecified [] = .ok (S.insNode v { vtype := .unspecified, md := [] }) := by
        unfold addNode
        simp only [mkNode, hc, bind, Except.bind, (hasNode_false_iff _ _).mpr hn, Bool.false_eq_true, if_false, pure,
          Except.pure]
      simp only [hp, Bool.false_eq_true, if_false, hadd, bind, Except.bind, floatP]
      refine ih _ (wf_addNode hadd hw) (by simp [hc]) hnd' ?_
      intro w hw hwp
      rw [mem_insNode]
      rintro (e | e)
      · exact hv (e ▸ hw)
      · exact hfresh w (List.mem_cons_of_mem _ hw) hwp e

theorem floatP_foldl_edges (present : List String) (vs : List String) (S : Graph) :
    (vs.foldl (floatP present) S).edges = S.edges := by
  induction vs generalizing S with
  | nil => rfl
  | cons v vs ih => rw [List.foldl_cons, ih]; unfold floatP; split <;> rfl

theorem floatP_foldl_cls (present : List String) (vs : List String) (S : Graph) :
    (vs.foldl (floatP present) S).cls = S.cls := by
  induction vs generalizing S with
  | nil => rfl
  | cons v vs ih => rw [List.foldl_cons, ih]; unfold floatP; split <;> rfl

theorem floatP_foldl_gmeta (present : List String) (vs : List String) (S : Graph) :
    (vs.foldl (floatP present) S).gmeta = S.gmeta := by
  induction vs generalizing S with
  | nil => rfl
  | cons v vs ih => rw [List.foldl_cons, ih]; unfold floatP; split <;> rfl

theorem mem_floatP_foldl_nodes (present : List String) (vs : List String) (S : Graph) (n : String) :
    n ∈ (vs.foldl (floatP present) S).nodes ↔ n ∈ S.nodes ∨ (n ∈ vs ∧ n ∉ present) := by
  induction vs generalizing S with
  | nil => simp
  | cons v vs ih =>
    rw [List.foldl_cons, ih]
    unfold floatP
    by_cases hp : present.contains v = true
    · simp only [hp, if_true, List.mem_cons]
      constructor
      · rintro (h | ⟨h1, h2⟩)
        · exact .inl h
        · exact .inr ⟨.inr h1, h2⟩
      · rintro (h | ⟨h1 | h1, h2⟩)
        · exact .inl h
        · exact absurd (List.contains_iff_mem.mp (h1 ▸ hp)) h2
        · exact .inr ⟨h1, h2⟩
    · simp only [hp, Bool.false_eq_true, if_false, mem_insNode, List.mem_cons]
      have hp' : v ∉ present := fun x => hp (List.contains_iff_mem.mpr x)
      constructor
      · rintro ((h | h) | ⟨h1, h2⟩)
        · exact .inr ⟨.inl h.symm, h ▸ hp'⟩
        · exact .inl h
        · exact .inr ⟨.inr h1, h2⟩
      · rintro (h | ⟨h1 | h1, h2⟩)
        · exact .inl (.inr h)
        · exact .inl (.inl h1.symm)
        · exact .inr ⟨h1, h2⟩

/-! ### the whole of `get_summary_graph` -/

/-- the summary graph as a pure function of the collapsed graph -/
def finish (g S : Graph) : Graph := (variables g).foldl (floatP (getNodeNames S)) S

theorem summaryGraph_eq (h : TsHyp g) (hd : isDag g = true) :
    ∃ S, SumInv g S (getEdges g none none none) ∧ summaryGraph g = .ok (finish g S) ∧ WF (finish g S) := by
  obtain ⟨S, h1, hi⟩ := collapse_fold h hd
  have hfresh : ∀ v ∈ variables g, v ∉ getNodeNames S → v ∉ S.nodes := by
    intro v _ hv hm
    exact hv ((mem_nodeNames_iff S v).mpr hm)
  obtain ⟨h2, h3⟩ := floatP_fold (getNodeNames S) (variables g) S hi.wf hi.cls (C12.variables_nodup g) hfresh
  refine ⟨S, hi, ?_, h3⟩
  unfold summaryGraph summaryGraphWith
  simp only [hd, not_true_eq_false, if_false, bind, Except.bind, h1, allVariableNames_eq h, pure, Except.pure]
  exact h2

/-- **C17 (total): `get_summary_graph` succeeds on every time-series DAG — including those whose summary contains
    feedback loops or longer cycles — and returns a well-formed plain graph with the input's graph metadata.** -/
theorem summary_total (h : TsHyp g) (hd : isDag g = true) :
    ∃ S, summaryGraph g = .ok S ∧ S.cls = .plain ∧ S.gmeta = g.gmeta ∧ WF S := by
  obtain ⟨S, hi, h1, h2⟩ := summaryGraph_eq h hd
  refine ⟨_, h1, ?_, ?_, h2⟩
  · unfold finish; rw [floatP_foldl_cls]; exact hi.cls
  · unfold finish; rw [floatP_foldl_gmeta]; exact hi.gmeta

theorem link_vars {x y : String} (hl : Link g x y) : IsVar g x ∧ IsVar g y := by
  obtain ⟨δ, ty, a, b, ra, rb, re, _, ha, hb, rfl, rfl, _, _⟩ := hl
  exact ⟨⟨a, ra, ha, rfl⟩, ⟨b, rb, hb, rfl⟩⟩

/-- **C17 (nodes): exactly one node per variable, floating variables included.** -/
theorem summary_nodes (h : TsHyp g) (hd : isDag g = true) {S : Graph} (hS : summaryGraph g = .ok S) (n : String) :
    n ∈ S.nodes ↔ IsVar g n := by
  obtain ⟨S0, hi, h1, _⟩ := summaryGraph_eq h hd
  rw [h1] at hS; cases hS
  unfold finish
  rw [mem_floatP_foldl_nodes, isVar_iff_mem_variables]
  constructor
  · rintro (hn | ⟨hn, _⟩)
    · obtain ⟨x, y, hxy, hxn⟩ := (hi.nodes n).mp hn
      obtain ⟨r, hr⟩ := (mem_edges_iff _ _).mp hxy
      have hl := (linkIn_all_iff x y).mp (hi.stored x y r hr).1
      obtain ⟨vx, vy⟩ := link_vars hl
      rcases hxn with rfl | rfl
      · exact (isVar_iff_mem_variables _ _).mp vx
      · exact (isVar_iff_mem_variables _ _).mp vy
    · exact hn
  · intro hv
    by_cases hm : n ∈ S0.nodes
    · exact .inl hm
    · exact .inr ⟨hv, fun hx => hm ((mem_nodeNames_iff S0 n).mp hx)⟩

/-- **C17 (edges): self-links are dropped; two distinct variables are adjacent exactly when some edge of the input
    joins them at any lags; the edge is `x -> y` when every such edge runs from `x` to `y`, bidirected when edges run
    both ways; there is no other edge type.** -/
theorem summary_edges (h : TsHyp g) (hd : isDag g = true) {S : Graph} (hS : summaryGraph g = .ok S) :
    (∀ x : String, (x, x) ∉ S.edges) ∧
    (∀ x y : String, x ≠ y → (((x, y) ∈ S.edges ∨ (y, x) ∈ S.edges) ↔ (Link g x y ∨ Link g y x))) ∧
    (∀ x y : String, IsEdge S x y .directed ↔ (x ≠ y ∧ Link g x y ∧ ¬ Link g y x)) ∧
    (∀ x y : String, (IsEdge S x y .bidirected ∨ IsEdge S y x .bidirected) ↔ (x ≠ y ∧ Link g x y ∧ Link g y x)) ∧
    (∀ (x y : String) (r : EdgeRec), S.edges[(x, y)]? = some r → r.ty = .directed ∨ r.ty = .bidirected) := by
  obtain ⟨S0, hi, h1, hw⟩ := summaryGraph_eq h hd
  rw [h1] at hS; cases hS
  have hE : (finish g S0).edges = S0.edges := by unfold finish; rw [floatP_foldl_edges]
  have hne : ∀ {x y : String}, (x, y) ∈ S0.edges → x ≠ y := by
    rintro x y hm rfl; exact hi.wf.noLoop x hm
  have st : ∀ {x y : String} {r : EdgeRec}, S0.edges[(x, y)]? = some r →
      Link g x y ∧ (r.ty = .bidirected ∨ r.ty = .directed) ∧ (r.ty = .bidirected ↔ Link g y x) := by
    intro x y r hr
    obtain ⟨a1, a2, a3⟩ := hi.stored x y r hr
    exact ⟨(linkIn_all_iff _ _).mp a1, a2, a3.trans (linkIn_all_iff _ _)⟩
  have adj : ∀ {x y : String}, x ≠ y → Link g x y → (x, y) ∈ S0.edges ∨ (y, x) ∈ S0.edges :=
    fun hxy hl => hi.adj _ _ hxy ((linkIn_all_iff _ _).mpr hl)
  unfold IsEdge
  rw [hE]
  refine ⟨fun x => hi.wf.noLoop x, ?_, ?_, ?_, ?_⟩
  · intro x y hxy
    constructor
    · rintro (hm | hm)
      · obtain ⟨r, hr⟩ := (mem_edges_iff _ _).mp hm; exact .inl (st hr).1
      · obtain ⟨r, hr⟩ := (mem_edges_iff _ _).mp hm; exact .inr (st hr).1
    · rintro (hl | hl)
      · exact adj hxy hl
      · exact (adj (fun e => hxy e.symm) hl).symm
  · intro x y
    constructor
    · rintro ⟨r, hr, hty⟩
      obtain ⟨a1, _, a3⟩ := st hr
      refine ⟨hne (mem_edges_of_get hr), a1, fun hl => ?_⟩
      have := a3.mpr hl
      rw [hty] at this; cases this
    · rintro ⟨hxy, hl, hnl⟩
      rcases adj hxy hl with hm | hm
      · obtain ⟨r, hr⟩ := (mem_edges_iff _ _).mp hm
        obtain ⟨_, a2, a3⟩ := st hr
        refine ⟨r, hr, ?_⟩
        rcases a2 with hb | hb
        · exact absurd (a3.mp hb) hnl
        · exact hb
      · obtain ⟨r, hr⟩ := (mem_edges_iff _ _).mp hm
        exact absurd (st hr).1 hnl
  · intro x y
    constructor
    · rintro (⟨r, hr, hty⟩ | ⟨r, hr, hty⟩)
      · obtain ⟨a1, _, a3⟩ := st hr
        exact ⟨hne (mem_edges_of_get hr), a1, a3.mp hty⟩
      · obtain ⟨a1, _, a3⟩ := st hr
        exact ⟨fun e => hne (mem_edges_of_get hr) e.symm, a3.mp hty, a1⟩
    · rintro ⟨hxy, hl, hl'⟩
      rcases adj hxy hl with hm | hm
      · obtain ⟨r, hr⟩ := (mem_edges_iff _ _).mp hm
        exact .inl ⟨r, hr, (st hr).2.2.mpr hl'⟩
      · obtain ⟨r, hr⟩ := (mem_edges_iff _ _).mp hm
        exact .inr ⟨r, hr, (st hr).2.2.mpr hl⟩
  · intro x y r hr
    exact (st hr).2.1.symm

/-! ### a concrete input with feedback (non-vacuity; the D11 replay `X(t-1) -> Y`, `Y(t-1) -> X`) -/

namespace Demo

def tXY : Tgt :=
  { sv := "X", sk := -1, svt := .binary, smd := [], dv := "Y", dk := 0, dvt := .unspecified, dmd := [],
    ty := .directed, md := [] }
def tYX : Tgt :=
  { sv := "Y", sk := -1, svt := .unspecified, smd := [], dv := "X", dk := 0, dvt := .binary, dmd := [],
    ty := .directed, md := [] }

/-- `X lag(n=1) -> Y`, `Y lag(n=1) -> X` -/
def g2 : Graph := putAll (Graph.empty .ts []) [tXY, tYX]

theorem domX : Dom "X" := ⟨by decide, by decide⟩
theorem domY : Dom "Y" := ⟨by decide, by decide⟩
theorem xy : ("X" : String) ≠ "Y" := by decide

theorem tXY_good : tXY.Good :=
  ⟨domX, domY, by decide, fun e => xy (fmt_inj domX domY (show fmt "X" (-1) = fmt "Y" 0 from e)).1⟩
theorem tYX_good : tYX.Good :=
  ⟨domY, domX, by decide, fun e => xy (fmt_inj domY domX (show fmt "Y" (-1) = fmt "X" 0 from e)).1.symm⟩

theorem key_ne {v v' w w' : String} {k k' l l' : Int} (hv : Dom v) (hv' : Dom v') (h : v ≠ v' ∨ k ≠ k') :
    (fmt v k, fmt w l) ≠ (fmt v' k', fmt w' l') := by
  intro e
  simp only [Prod.mk.injEq] at e
  have := fmt_inj hv hv' e.1
  rcases h with h | h
  · exact h this.1
  · exact h this.2

theorem g2_noRev : NoRev (Graph.empty .ts []) [tXY, tYX] := by
  intro t ht
  refine ⟨not_mem_empty_edges _ _ _, ?_⟩
  intro t' ht'
  simp only [List.mem_cons, List.mem_nil_iff, or_false] at ht ht'
  rcases ht with rfl | rfl <;> rcases ht' with rfl | rfl
  · exact key_ne domX domY (.inl xy)
  · exact key_ne domY domY (.inr (by decide))
  · exact key_ne domX domX (.inr (by decide))
  · exact key_ne domY domX (.inl xy.symm)

theorem g2_tinv : TInv g2 :=
  tinv_putAll (tinv_empty _) (by
    intro t ht
    simp only [List.mem_cons, List.mem_nil_iff, or_false] at ht
    rcases ht with rfl | rfl
    · exact tXY_good
    · exact tYX_good) g2_noRev

theorem g2_hyp : TsHyp g2 := tsHyp_of_tinv g2_tinv

theorem g2_edge {k : EKey} {r : EdgeRec} (h : g2.edges[k]? = some r) :
    (k = tXY.key ∨ k = tYX.key) ∧ r.ty = .directed := by
  rcases getElem?_putAll_edges h with h0 | ⟨t, ht, hk, rfl⟩
  · simp [Graph.empty] at h0
  · simp only [List.mem_cons, List.mem_nil_iff, or_false] at ht
    rcases ht with rfl | rfl
    · exact ⟨.inl hk.symm, rfl⟩
    · exact ⟨.inr hk.symm, rfl⟩

theorem g2_mem (t : Tgt) (ht : t ∈ [tXY, tYX]) : t.key ∈ g2.edges :=
  (mem_putAll_edges _ _ _).mpr (.inr ⟨t, ht, rfl⟩)

theorem g2_isDag : isDag g2 = true := by
  refine (isDag_iff g2_tinv.wf).mpr ⟨?_, ?_⟩
  · rintro ⟨k, r⟩ hm
    exact (g2_edge (ExtTreeMap.mem_toList_iff_getElem?_eq_some.mp hm)).2
  · -- every edge leads from a lag -1 node to a lag 0 node
    refine C02.acyclic_of_rank (fun n => if n = fmt "X" 0 ∨ n = fmt "Y" 0 then 1 else 0) ?_
    rintro ⟨a, b⟩ he
    obtain ⟨r, hr, _⟩ := (mem_dirEdges g2 a b).mp he
    have hk := (g2_edge hr).1
    simp only [Tgt.key, Tgt.a, Tgt.b, tXY, tYX, Prod.mk.injEq] at hk
    have n1 : fmt "X" (-1) ≠ fmt "X" 0 := fun e => absurd (fmt_inj domX domX e).2 (by decide)
    have n2 : fmt "X" (-1) ≠ fmt "Y" 0 := fun e => xy (fmt_inj domX domY e).1
    have n3 : fmt "Y" (-1) ≠ fmt "X" 0 := fun e => xy (fmt_inj domY domX e).1.symm
    have n4 : fmt "Y" (-1) ≠ fmt "Y" 0 := fun e => absurd (fmt_inj domY domY e).2 (by decide)
    rcases hk with ⟨rfl, rfl⟩ | ⟨rfl, rfl⟩
    · simp [n1, n2]
    · simp [n3, n4]

theorem g2_link {t : Tgt} (ht : t ∈ [tXY, tYX]) : Link g2 t.sv t.dv := by
  have hg : t.Good := by
    simp only [List.mem_cons, List.mem_nil_iff, or_false] at ht
    rcases ht with rfl | rfl
    · exact tXY_good
    · exact tYX_good
  obtain ⟨r, hr⟩ := (mem_edges_iff _ _).mp (g2_mem t ht)
  obtain ⟨hma, hmb⟩ := g2_tinv.wf.ends _ _ (mem_edges_of_get hr)
  obtain ⟨ra, hra⟩ := (mem_nodes_iff _ _).mp hma
  obtain ⟨rb, hrb⟩ := (mem_nodes_iff _ _).mp hmb
  exact ⟨_, _, _, _, ra, rb, r, hr, hra, hrb, (g2_tinv.canon.lookup hg.sdom hra).1,
    (g2_tinv.canon.lookup hg.ddom hrb).1, rfl, rfl⟩

/-- the documented feedback case: `get_summary_graph` succeeds and `X`, `Y` are joined by a bidirected edge -/
example : ∃ S, summaryGraph g2 = .ok S ∧ S.cls = .plain ∧ ("X" ∈ S.nodes ∧ "Y" ∈ S.nodes) ∧
    (IsEdge S "X" "Y" .bidirected ∨ IsEdge S "Y" "X" .bidirected) ∧ ¬ IsEdge S "X" "Y" .directed := by
  obtain ⟨S, hS, hc, _, _⟩ := summary_total g2_hyp g2_isDag
  have lxy : Link g2 "X" "Y" := g2_link (t := tXY) (by simp)
  have lyx : Link g2 "Y" "X" := g2_link (t := tYX) (by simp)
  obtain ⟨_, _, e3, e4, _⟩ := summary_edges g2_hyp g2_isDag hS
  refine ⟨S, hS, hc, ⟨(summary_nodes g2_hyp g2_isDag hS _).mpr (link_vars lxy).1,
    (summary_nodes g2_hyp g2_isDag hS _).mpr (link_vars lxy).2⟩, (e4 _ _).mpr ⟨xy, lxy, lyx⟩, ?_⟩
  intro h
  exact ((e3 _ _).mp h).2.2 lyx

end Demo

end CG.C17
