/-
C05, third-party half: the JSON text round trip of CPython 3.12 (`CG/Model/PyJson.lean`, a transcription of
`json.encoder` / `json.decoder` / `json.scanner`; measured against the real module by `harness/lanes/c05_pyjson.py`).

What is proved (every theorem below, no gaps):

  M1  string level   `scanstring_encodeString`, `scanOnce_encodeString`: `py_scanstring` reads back what
                     `py_encode_basestring_ascii` writes, for EVERY string (all scalar values; an astral character goes out
                     as a surrogate pair of `\uXXXX` escapes and is joined back), whatever follows;
                     `encodeString_printable`, `dumps_printable`: the encoder's output is printable ASCII (`ensure_ascii`).
      int level      `intText_eq_toString`: the model's decimal text is Lean's `toString`; `scanNumber_toString`:
                     `NUMBER_RE` + `int()` read `toString i ++ rest` as `i` when `rest` does not continue the number.
  M2  round trip     `loads_dumps`: `loads (dumps v) = ok v` for every `v` whose objects have pairwise distinct keys at every
                     level (`DistinctKeys`, what a Python `dict` guarantees);  `loads_dumps_dedup`: without the hypothesis
                     `loads (dumps v) = ok (dedupLast v)` (last value wins, first position kept, at every level).
  M3  sorted keys    `loads_dumpsSorted`: `loads (dumpsSorted v) = ok (sortKeys v)`; `sortKeys_obj_perm`, `sortKeys_arr`,
                     `sortPairs_sorted`: `sortKeys` only permutes the items of each object (into key order) and maps over
                     lists; `dumps_injective`: `dumps` is injective on `DistinctKeys` values.
  M4  cheap extras   `loads_ws_dumps_ws`: whitespace around the text is ignored; `loads_trailing`: the text followed by
                     anything that is not whitespace (and does not continue a number) is `JSONDecodeError`; `loads_empty`;
                     `scanstring_control`, `scanstring_unterminated`: a raw control character inside a string (strict
                     mode) and a string that is never closed are `JSONDecodeError`.

  M5  other formats  `loads_dumpsF`: the round trip for every format of the encoder with separators `w1 , w2` / `w3 : w4`
                     (any whitespace `w1..w4`) and `ensure_ascii` on or off; `dumpsF_default`: the default format is
                     `dumps`; `loads_cj`, `cj_injective`, `cj_obj_canonical`, `cj_arr_congr`: the canonical text `cj`
                     of `harness/impl.py` (sorted keys, compact, non-ASCII kept) reads back as `sortKeys v`, separates
                     values that differ by more than key order, and does not see the key order.
      totality       `loads_ne_fuel`, `loads_cases`: on EVERY text the fuel `loads` passes is enough (every call of the
                     transcription consumes a character), so the answer is a value, `JSONDecodeError` or `unsupported`.
-/
import CG.Proofs.Lemmas.JsonValue
import CG.Proofs.Lemmas.JsonFuel
import CG.Proofs.Lemmas.JsonFmt

namespace CG.C05Json
open CG.PyJson

/-! ## M1: strings -/

/-- the text after the opening quote of an encoded string reads back as the string, up to and including the closing
quote, whatever follows (`perm` is the mode of the decoder, see the model) -/
theorem scanstring_encodeString (perm : Bool) (s : String) (rest : List Char) :
    scanstring perm ((encodeStringL s.toList).tail ++ rest) = .ok (s.toList, rest) := by
  simp only [encodeStringL, List.tail_cons, List.append_assoc, List.cons_append, List.nil_append]
  exact scanstring_encodeBody perm s.toList rest

/-- `_scan_once` on an encoded string -/
theorem scanOnce_encodeString (perm : Bool) (f : Nat) (s : String) (rest : List Char) :
    scanOnce perm (f + 1) (encodeStringL s.toList ++ rest) = .ok (.str s, rest) := by
  rw [scanOnce_string, String.ofList_toList]

example : scanstring false ((encodeStringL "a\"\\\n\x7fé😀".toList).tail ++ [',', ' ', '1']) =
    .ok ("a\"\\\n\x7fé😀".toList, [',', ' ', '1']) := scanstring_encodeString false _ _

/-- `ensure_ascii=True`: every character the string encoder writes is printable ASCII -/
theorem encodeString_printable (s : String) :
    ∀ ch ∈ encodeStringL s.toList, 32 ≤ ch.toNat ∧ ch.toNat ≤ 126 :=
  encodeStringL_printable s.toList

/-! ## M1: ints -/

theorem digitChar_eq (d : Nat) (h : d < 10) : Nat.digitChar d = Char.ofNat (48 + d) := by
  have : ∀ d : Fin 10, Nat.digitChar d.val = Char.ofNat (48 + d.val) := by decide
  exact this ⟨d, h⟩

theorem natDigits_eq_toDigits (n : Nat) : natDigits n = Nat.toDigits 10 n := by
  induction n using natDigitsRev.induct with
  | case1 n h =>
    rw [Nat.toDigits_of_lt_base h, natDigits, natDigitsRev, if_pos h, digitChar_eq n h]
    rfl
  | case2 n h ih =>
    rw [Nat.toDigits_of_base_le (by omega) (by omega), ← ih, natDigits, natDigitsRev, if_neg h,
      digitChar_eq _ (Nat.mod_lt n (by omega))]
    simp [natDigits]

/-- the decimal text of the model is Lean's `toString` on `Int` -/
theorem intText_eq_toString (i : Int) : intText i = (toString i).toList := by
  rw [Int.toString_eq_repr, Int.repr_eq_if]
  cases i with
  | ofNat n =>
    rw [if_pos (by exact Int.natCast_nonneg n)]
    simp [intText, natDigits_eq_toDigits]
  | negSucc n =>
    rw [if_neg (by omega)]
    simp [intText, natDigits_eq_toDigits]

/-- `NUMBER_RE.match` + `int()` on `toString i ++ rest` give `i` and leave `rest`, when `rest` does not continue the
number (does not start with a digit, `.`, `e`, `E`) -/
theorem scanNumber_toString (perm : Bool) (i : Int) (rest : List Char) (hr : NoNumCont rest) :
    scanNumber perm ((toString i).toList ++ rest) = some (.ok (.int i, rest)) := by
  rw [← intText_eq_toString]
  exact scanNumber_intText perm i rest hr

/-- the same through `_scan_once` -/
theorem scanOnce_toString (perm : Bool) (f : Nat) (i : Int) (rest : List Char) (hr : NoNumCont rest) :
    scanOnce perm (f + 1) ((toString i).toList ++ rest) = .ok (.int i, rest) := by
  rw [← intText_eq_toString]
  exact scanOnce_int perm f i rest hr

example : NoNumCont [',', ' ', '2'] := by decide
example : NoNumCont [] := trivial
example : scanNumber false ((toString (-1234567890123456789012345678901234567890 : Int)).toList ++ [']']) =
    some (.ok (.int (-1234567890123456789012345678901234567890), [']'])) :=
  scanNumber_toString false _ _ (by decide)

/-! ## the whole text is printable ASCII -/

mutual
theorem dumpsL_printable : (v : JVal) → ∀ ch ∈ dumpsL v, Printable ch
  | .null => by intro ch h; simp only [dumpsL, List.mem_cons, List.not_mem_nil, or_false] at h
                rcases h with h | h | h | h <;> subst h <;> exact ⟨by decide, by decide⟩
  | .bool true => by intro ch h; simp only [dumpsL, List.mem_cons, List.not_mem_nil, or_false] at h
                     rcases h with h | h | h | h <;> subst h <;> exact ⟨by decide, by decide⟩
  | .bool false => by intro ch h; simp only [dumpsL, List.mem_cons, List.not_mem_nil, or_false] at h
                      rcases h with h | h | h | h | h <;> subst h <;> exact ⟨by decide, by decide⟩
  | .int i => by intro ch h; exact intText_printable i ch (by simpa [dumpsL] using h)
  | .str s => by intro ch h; exact encodeStringL_printable s.toList ch (by simpa [dumpsL] using h)
  | .arr [] => by intro ch h; simp only [dumpsL, List.mem_cons, List.not_mem_nil, or_false] at h
                  rcases h with h | h <;> subst h <;> exact ⟨by decide, by decide⟩
  | .arr (x :: xs) => by
    intro ch h
    simp only [dumpsL, List.mem_cons, List.mem_append] at h
    rcases h with h | h | h
    · subst h; exact ⟨by decide, by decide⟩
    · exact dumpsL_printable x ch h
    · exact arrTail_printable xs ch h
  | .obj [] => by intro ch h; simp only [dumpsL, List.mem_cons, List.not_mem_nil, or_false] at h
                  rcases h with h | h <;> subst h <;> exact ⟨by decide, by decide⟩
  | .obj ((k, v) :: kvs) => by
    intro ch h
    simp only [dumpsL, List.mem_cons, List.mem_append] at h
    rcases h with h | h | h | h | h | h
    · subst h; exact ⟨by decide, by decide⟩
    · exact encodeStringL_printable k.toList ch h
    · subst h; exact ⟨by decide, by decide⟩
    · subst h; exact ⟨by decide, by decide⟩
    · exact dumpsL_printable v ch h
    · exact objTail_printable kvs ch h
theorem arrTail_printable : (xs : List JVal) → ∀ ch ∈ arrTail xs, Printable ch
  | [] => by intro ch h; simp only [arrTail, List.mem_cons, List.not_mem_nil, or_false] at h
             subst h; exact ⟨by decide, by decide⟩
  | x :: xs => by
    intro ch h
    simp only [arrTail, List.mem_cons, List.mem_append] at h
    rcases h with h | h | h | h
    · subst h; exact ⟨by decide, by decide⟩
    · subst h; exact ⟨by decide, by decide⟩
    · exact dumpsL_printable x ch h
    · exact arrTail_printable xs ch h
theorem objTail_printable : (kvs : List (String × JVal)) → ∀ ch ∈ objTail kvs, Printable ch
  | [] => by intro ch h; simp only [objTail, List.mem_cons, List.not_mem_nil, or_false] at h
             subst h; exact ⟨by decide, by decide⟩
  | (k, v) :: kvs => by
    intro ch h
    simp only [objTail, List.mem_cons, List.mem_append] at h
    rcases h with h | h | h | h | h | h | h
    · subst h; exact ⟨by decide, by decide⟩
    · subst h; exact ⟨by decide, by decide⟩
    · exact encodeStringL_printable k.toList ch h
    · subst h; exact ⟨by decide, by decide⟩
    · subst h; exact ⟨by decide, by decide⟩
    · exact dumpsL_printable v ch h
    · exact objTail_printable kvs ch h
end

/-- `json.dumps` (ensure_ascii=True) writes printable ASCII only -/
theorem dumps_printable (v : JVal) : ∀ ch ∈ (dumps v).toList, 32 ≤ ch.toNat ∧ ch.toNat ≤ 126 := by
  intro ch h
  rw [dumps, String.toList_ofList] at h
  exact dumpsL_printable v ch h

/-! ## M2: the round trip -/

theorem decodeL_dumpsL (perm : Bool) (v : JVal) : decodeL perm (dumpsL v) = .ok (dedupLast v) := by
  have hs : skipWs (dumpsL v) = dumpsL v := by simpa using skipWs_dumpsL v []
  have hscan := scanOnce_dumpsL perm v (2 * (dumpsL v).length + 2) []
    (by have := need_le_length v; omega) trivial
  rw [List.append_nil] at hscan
  simp only [decodeL, hs, hscan]
  rfl

/-- without any hypothesis: the text `dumps` writes for an association list is read back as the `dict` of its pairs,
at every level -/
theorem loads_dumps_dedup (v : JVal) : loads (dumps v) = .ok (dedupLast v) := by
  simp only [loads, dumps, String.toList_ofList, loadsL, decodeL_dumpsL]

/-- THE round trip: `json.loads(json.dumps(v)) == v`, keys in the same order, for every tree of `str`, `int`, `bool`,
`None`, `list`, `dict` whose dicts have distinct keys (as every Python `dict` has) -/
theorem loads_dumps (v : JVal) (h : DistinctKeys v) : loads (dumps v) = .ok v := by
  rw [loads_dumps_dedup, dedupLast_of_distinct v h]

/-- a value in the shape `to_dict` produces: nested dicts and lists, awkward keys, a negative int, an astral character -/
def exampleVal : JVal :=
  .obj [("nodes", .obj [("a\"\\\n", .obj [("variable_type", .str "unspecified"), ("meta", .obj [])]),
                        ("é😀", .obj [("variable_type", .str "é"), ("meta", .obj [("k", .int (-12)), ("K", .null)])])]),
        ("edges", .obj [("a", .obj [("b", .obj [("edge_type", .str "->"), ("w", .arr [.int 1, .bool true, .arr []])])])]),
        ("", .arr [])]

example : DistinctKeys exampleVal := by decide
example : loads (dumps exampleVal) = .ok exampleVal := loads_dumps _ (by decide)

/-- a repeated key: the last value at the first position -/
example : dedupLast (.obj [("a", .int 1), ("b", .int 2), ("a", .int 3)]) = .obj [("a", .int 3), ("b", .int 2)] := by
  rfl

/-! ## M3: sorted keys -/

theorem nodupKeys_iff (l : List (String × JVal)) : nodupKeys l = true ↔ (l.map Prod.fst).Nodup := by
  induction l with
  | nil => simp [nodupKeys]
  | cons p l ih =>
    obtain ⟨k, v⟩ := p
    simp only [nodupKeys, Bool.and_eq_true, Bool.not_eq_true', ih, List.map_cons, List.nodup_cons, List.mem_map,
      List.any_eq_false, beq_iff_eq]
    constructor
    · rintro ⟨h1, h2⟩
      exact ⟨fun ⟨q, hq, e⟩ => h1 q hq e, h2⟩
    · rintro ⟨h1, h2⟩
      exact ⟨fun q hq e => h1 ⟨q, hq, e⟩, h2⟩

theorem distinctKeysPairs_iff (l : List (String × JVal)) :
    distinctKeysPairs l = true ↔ ∀ p ∈ l, distinctKeys p.2 = true := by
  induction l with
  | nil => simp [distinctKeysPairs]
  | cons p l ih =>
    obtain ⟨k, v⟩ := p
    simp only [distinctKeysPairs, Bool.and_eq_true, ih, List.mem_cons, forall_eq_or_imp]

theorem sortKeysPairs_eq_map (kvs : List (String × JVal)) :
    sortKeysPairs kvs = kvs.map fun p => (p.1, sortKeys p.2) := by
  induction kvs with
  | nil => rfl
  | cons p kvs ih => obtain ⟨k, v⟩ := p; simp only [sortKeysPairs, ih, List.map_cons]

theorem sortKeysList_eq_map (xs : List JVal) : sortKeysList xs = xs.map sortKeys := by
  induction xs with
  | nil => rfl
  | cons x xs ih => simp only [sortKeysList, ih, List.map_cons]

/-- `sorted(items)` is a permutation of the items -/
theorem sortPairs_perm (kvs : List (String × JVal)) : (sortPairs kvs).Perm kvs :=
  List.mergeSort_perm kvs _

/-- … in key order (code-point order of the keys, as Python compares `str`) -/
theorem sortPairs_sorted (kvs : List (String × JVal)) : (sortPairs kvs).Pairwise fun a b => a.1 ≤ b.1 := by
  have := List.pairwise_mergeSort (le := fun (a b : String × JVal) => decide (a.1 ≤ b.1))
    (fun a b c h1 h2 => by
      simp only [decide_eq_true_eq] at h1 h2 ⊢
      exact String.le_trans h1 h2)
    (fun a b => by
      simp only [Bool.or_eq_true, decide_eq_true_eq]
      exact String.le_total a.1 b.1)
    kvs
  simpa [sortPairs] using this

/-- `sortKeys` on an object: the items, each value sorted inside, permuted -/
theorem sortKeys_obj_perm (kvs : List (String × JVal)) :
    ∃ l, sortKeys (.obj kvs) = .obj l ∧ l.Perm (kvs.map fun p => (p.1, sortKeys p.2)) ∧
      l.Pairwise fun a b => a.1 ≤ b.1 := by
  refine ⟨sortPairs (sortKeysPairs kvs), by simp only [sortKeys], ?_, sortPairs_sorted _⟩
  rw [← sortKeysPairs_eq_map]
  exact sortPairs_perm _

/-- `sortKeys` on a list: element by element, order kept; on anything else the identity -/
theorem sortKeys_arr (xs : List JVal) : sortKeys (.arr xs) = .arr (xs.map sortKeys) := by
  simp only [sortKeys, sortKeysList_eq_map]

theorem sortKeys_atom : sortKeys .null = .null ∧ (∀ b, sortKeys (.bool b) = .bool b) ∧
    (∀ i, sortKeys (.int i) = .int i) ∧ (∀ s, sortKeys (.str s) = .str s) :=
  ⟨rfl, fun _ => rfl, fun _ => rfl, fun _ => rfl⟩

mutual
theorem distinctKeys_sortKeys : (v : JVal) → distinctKeys v = true → distinctKeys (sortKeys v) = true
  | .null, _ => rfl
  | .bool _, _ => rfl
  | .int _, _ => rfl
  | .str _, _ => rfl
  | .arr xs, h => by
    simp only [distinctKeys] at h
    simp only [sortKeys, distinctKeys, distinctKeysList_sortKeys xs h]
  | .obj kvs, h => by
    simp only [distinctKeys, Bool.and_eq_true] at h
    have hp := sortPairs_perm (sortKeysPairs kvs)
    have h2 := distinctKeysPairs_sortKeys kvs h.2
    simp only [sortKeys, distinctKeys, Bool.and_eq_true]
    constructor
    · rw [nodupKeys_iff, (hp.map Prod.fst).nodup_iff, sortKeysPairs_eq_map, List.map_map]
      have : (Prod.fst ∘ fun p : String × JVal => (p.1, sortKeys p.2)) = Prod.fst := rfl
      rw [this, ← nodupKeys_iff]
      exact h.1
    · rw [distinctKeysPairs_iff] at h2 ⊢
      intro p hpm
      exact h2 p (hp.mem_iff.mp hpm)
theorem distinctKeysList_sortKeys : (xs : List JVal) → distinctKeysList xs = true →
    distinctKeysList (sortKeysList xs) = true
  | [], _ => rfl
  | x :: xs, h => by
    simp only [distinctKeysList, Bool.and_eq_true] at h
    simp only [sortKeysList, distinctKeysList, Bool.and_eq_true]
    exact ⟨distinctKeys_sortKeys x h.1, distinctKeysList_sortKeys xs h.2⟩
theorem distinctKeysPairs_sortKeys : (kvs : List (String × JVal)) → distinctKeysPairs kvs = true →
    distinctKeysPairs (sortKeysPairs kvs) = true
  | [], _ => rfl
  | (k, v) :: kvs, h => by
    simp only [distinctKeysPairs, Bool.and_eq_true] at h
    simp only [sortKeysPairs, distinctKeysPairs, Bool.and_eq_true]
    exact ⟨distinctKeys_sortKeys v h.1, distinctKeysPairs_sortKeys kvs h.2⟩
end

/-- `json.loads(json.dumps(v, sort_keys=True))` is `v` with every dict re-ordered by key -/
theorem loads_dumpsSorted (v : JVal) (h : DistinctKeys v) : loads (dumpsSorted v) = .ok (sortKeys v) := by
  have := loads_dumps (sortKeys v) (distinctKeys_sortKeys v h)
  simpa [dumps, dumpsSorted, dumpsSortedL] using this

example : sortKeys (.obj [("b", .obj [("z", .int 1), ("a", .int 2)]), ("B", .null), ("a", .arr [])]) =
    .obj [("B", .null), ("a", .arr []), ("b", .obj [("a", .int 2), ("z", .int 1)])] := by
  simp [sortKeys, sortKeysPairs, sortKeysList, sortPairs, List.mergeSort, List.MergeSort.Internal.splitInTwo]

/-- different values (with dict-like objects) never share a text -/
theorem dumps_injective (v w : JVal) (hv : DistinctKeys v) (hw : DistinctKeys w) (h : dumps v = dumps w) : v = w := by
  have h1 := loads_dumps v hv
  have h2 := loads_dumps w hw
  rw [h, h2] at h1
  exact (Except.ok.inj h1).symm

/-! ## M4: whitespace and trailing data -/

theorem skipWs_append_of_all (ws t : List Char) (h : ∀ c ∈ ws, isWs c = true) : skipWs (ws ++ t) = skipWs t := by
  induction ws with
  | nil => rfl
  | cons c ws ih =>
    simp only [List.cons_append, skipWs, h c List.mem_cons_self, if_true]
    exact ih fun d hd => h d (List.mem_cons_of_mem _ hd)

theorem skipWs_all (ws : List Char) (h : ∀ c ∈ ws, isWs c = true) : skipWs ws = [] := by
  simpa [skipWs] using skipWs_append_of_all ws [] h

theorem noNumCont_of_ws (ws : List Char) (h : ∀ c ∈ ws, isWs c = true) : NoNumCont ws := by
  cases ws with
  | nil => trivial
  | cons c ws =>
    have hc := h c List.mem_cons_self
    simp only [isWs, Bool.or_eq_true, decide_eq_true_eq] at hc
    rcases hc with ((hc | hc) | hc) | hc <;> subst hc <;> simp only [NoNumCont] <;> decide

/-- whitespace (`' \t\n\r'`) before and after the text does not matter -/
theorem loads_ws_dumps_ws (v : JVal) (ws1 ws2 : List Char)
    (h1 : ∀ c ∈ ws1, isWs c = true) (h2 : ∀ c ∈ ws2, isWs c = true) :
    loadsL (ws1 ++ dumpsL v ++ ws2) = .ok (dedupLast v) := by
  have hs : skipWs (ws1 ++ dumpsL v ++ ws2) = dumpsL v ++ ws2 := by
    rw [List.append_assoc, skipWs_append_of_all ws1 _ h1, skipWs_dumpsL]
  have hscan := scanOnce_dumpsL false v (2 * (dumpsL v ++ ws2).length + 2) ws2
    (by have := need_le_length v; simp only [List.length_append]; omega) (noNumCont_of_ws ws2 h2)
  simp only [loadsL, decodeL, hs, hscan, skipWs_all ws2 h2]
  rfl

/-- "Extra data": the text followed by a character that is neither whitespace nor a continuation of a number -/
theorem loads_trailing (v : JVal) (c : Char) (rest : List Char) (hc : isWs c = false) (hn : NoNumCont (c :: rest)) :
    loadsL (dumpsL v ++ c :: rest) = .error .decodeError := by
  have hs : skipWs (dumpsL v ++ c :: rest) = dumpsL v ++ c :: rest := skipWs_dumpsL v _
  have hscan := scanOnce_dumpsL false v (2 * (dumpsL v ++ c :: rest).length + 2) (c :: rest)
    (by have := need_le_length v; simp only [List.length_append]; omega) hn
  simp only [loadsL, decodeL, hs, hscan, skipWs_cons_of_not c rest hc]
  rfl

/-- the empty text (and a text of whitespace only) is "Expecting value" -/
theorem loads_empty (ws : List Char) (h : ∀ c ∈ ws, isWs c = true) : loadsL ws = .error .decodeError := by
  simp only [loadsL, decodeL, skipWs_all ws h]
  rfl

/-- a character the string scanner copies as it is -/
def Plain (ch : Char) : Prop := ch ≠ '"' ∧ ch ≠ '\\' ∧ 32 ≤ ch.toNat

theorem scanstr_plain (perm : Bool) (p : List Char) : ∀ (f : Nat) (acc t : List Char), (∀ ch ∈ p, Plain ch) →
    scanstr perm (f + p.length) (p ++ t) acc = scanstr perm f t (p.reverse ++ acc) := by
  induction p with
  | nil => intro f acc t _; simp
  | cons c p ih =>
    intro f acc t hp
    have hc := hp c List.mem_cons_self
    have h3 : ¬ c.toNat < 32 := by have := hc.2.2; omega
    have := ih f (c :: acc) t (fun ch h => hp ch (List.mem_cons_of_mem _ h))
    simp only [List.length_cons, List.cons_append, ← Nat.add_assoc, scanstr, hc.1, hc.2.1, h3, if_false, this,
      List.reverse_cons, List.append_assoc, List.nil_append]

/-- strict mode: a raw control character inside a string is `JSONDecodeError` -/
theorem scanstring_control (perm : Bool) (p : List Char) (c : Char) (rest : List Char)
    (hp : ∀ ch ∈ p, Plain ch) (hc : c.toNat < 32) :
    scanstring perm (p ++ c :: rest) = .error .decodeError := by
  have h1 : c ≠ '"' := fun e => by subst e; revert hc; decide
  have h2 : c ≠ '\\' := fun e => by subst e; revert hc; decide
  unfold scanstring
  have hlen : (p ++ c :: rest).length + 1 = (rest.length + 1 + 1) + p.length := by
    simp only [List.length_append, List.length_cons]; omega
  rw [hlen, scanstr_plain perm p _ [] _ hp]
  simp only [scanstr, h1, h2, hc, if_false, if_true]

/-- a string that is not closed is `JSONDecodeError` -/
theorem scanstring_unterminated (perm : Bool) (p : List Char) (hp : ∀ ch ∈ p, Plain ch) :
    scanstring perm p = .error .decodeError := by
  unfold scanstring
  have := scanstr_plain perm p 1 [] [] hp
  rw [List.append_nil] at this
  rw [Nat.add_comm, this]
  simp only [scanstr]

example : scanstring false ['a', 'é', '\n', 'b', '"'] = .error .decodeError :=
  scanstring_control false ['a', 'é'] '\n' ['b', '"']
    (by intro ch h; simp at h; rcases h with h | h <;> subst h <;> exact ⟨by decide, by decide, by decide⟩) (by decide)

/-! ## M5: other formats of the encoder, and the canonical text `cj` -/

/-- the round trip for every format: separators `w1 , w2` and `w3 : w4` with any whitespace, `ensure_ascii` on / off -/
theorem loads_dumpsF (fmt : Fmt) (hwf : fmt.WF) (v : JVal) :
    loadsL (dumpsF fmt v) = .ok (dedupLast v) := by
  simp only [loadsL, decodeL_dumpsF false fmt hwf v]

theorem loads_dumpsF_distinct (fmt : Fmt) (hwf : fmt.WF) (v : JVal) (h : DistinctKeys v) :
    loadsL (dumpsF fmt v) = .ok v := by
  rw [loads_dumpsF fmt hwf, dedupLast_of_distinct v h]

/-- the default format is `json.dumps(v)` -/
theorem dumpsF_default (v : JVal) : dumpsF Fmt.default v = dumpsL v := CG.PyJson.dumpsF_default v

example : Fmt.WF ⟨false, [' ', '\n'], ['\t'], [], ['\r', ' ']⟩ :=
  ⟨by intro c h; simp at h; rcases h with h | h <;> subst h <;> decide,
   by intro c h; simp at h; subst h; decide, allWs_nil,
   by intro c h; simp at h; rcases h with h | h <;> subst h <;> decide⟩

/-- `json.loads(cj(v))` is `v` with every dict in key order -/
theorem loads_cj (v : JVal) (h : DistinctKeys v) : loads (cj v) = .ok (sortKeys v) := by
  simp only [loads, cj, String.toList_ofList, cjL]
  exact loads_dumpsF_distinct Fmt.compact Fmt.compact_wf _ (distinctKeys_sortKeys v h)

/-- two values with the same canonical text differ at most in the order of the keys of their dicts -/
theorem cj_injective (v w : JVal) (hv : DistinctKeys v) (hw : DistinctKeys w) (h : cj v = cj w) :
    sortKeys v = sortKeys w := by
  have h1 := loads_cj v hv
  have h2 := loads_cj w hw
  rw [h, h2] at h1
  exact (Except.ok.inj h1).symm

theorem eq_of_key_eq (l : List (String × JVal)) (hn : (l.map Prod.fst).Nodup) :
    ∀ a ∈ l, ∀ b ∈ l, a.1 = b.1 → a = b := by
  induction l with
  | nil => intro a ha; simp at ha
  | cons p l ih =>
    simp only [List.map_cons, List.nodup_cons, List.mem_map, not_exists, not_and] at hn
    intro a ha b hb e
    simp only [List.mem_cons] at ha hb
    rcases ha with ha | ha <;> rcases hb with hb | hb
    · rw [ha, hb]
    · subst ha; exact absurd e.symm (hn.1 b hb)
    · subst hb; exact absurd e (hn.1 a ha)
    · exact ih hn.2 a ha b hb e

/-- sorting does not see the order the items came in (distinct keys) -/
theorem sortPairs_perm_eq (l1 l2 : List (String × JVal)) (hp : l1.Perm l2) (hn : nodupKeys l1 = true) :
    sortPairs l1 = sortPairs l2 := by
  have hnd := (nodupKeys_iff l1).mp hn
  have p1 := sortPairs_perm l1
  have p2 := sortPairs_perm l2
  refine List.Perm.eq_of_pairwise (le := fun a b => a.1 ≤ b.1) ?_ (sortPairs_sorted l1) (sortPairs_sorted l2)
    (p1.trans (hp.trans p2.symm))
  intro a b ha hb h1 h2
  exact eq_of_key_eq l1 hnd a (p1.mem_iff.mp ha) b (hp.mem_iff.mpr (p2.mem_iff.mp hb)) (String.le_antisymm h1 h2)

/-- the canonical text does not see the key order of a dict: the items (values compared up to `sortKeys`) in another
order give the same text -/
theorem cj_obj_canonical (l1 l2 : List (String × JVal)) (hn : nodupKeys l1 = true)
    (hp : (l1.map fun p => (p.1, sortKeys p.2)).Perm (l2.map fun p => (p.1, sortKeys p.2))) :
    cj (.obj l1) = cj (.obj l2) := by
  have hn' : nodupKeys (sortKeysPairs l1) = true := by
    rw [nodupKeys_iff, sortKeysPairs_eq_map, List.map_map]
    exact (nodupKeys_iff l1).mp hn
  have := sortPairs_perm_eq (sortKeysPairs l1) (sortKeysPairs l2)
    (by rw [sortKeysPairs_eq_map, sortKeysPairs_eq_map]; exact hp) hn'
  simp only [cj, cjL, sortKeys, this]

/-- … and on lists it is element by element -/
theorem cj_arr_congr (xs ys : List JVal) (h : xs.map sortKeys = ys.map sortKeys) : cj (.arr xs) = cj (.arr ys) := by
  simp only [cj, cjL, sortKeys_arr, h]

example : cj (.obj [("b", .obj [("z", .int 1), ("é", .int 2)]), ("a", .null)]) =
    cj (.obj [("a", .null), ("b", .obj [("é", .int 2), ("z", .int 1)])]) := by
  apply cj_obj_canonical _ _ (by decide)
  have : sortKeys (.obj [("z", .int 1), ("é", .int 2)]) = sortKeys (.obj [("é", .int 2), ("z", .int 1)]) := by
    simp only [sortKeys, sortKeysPairs]
    rw [sortPairs_perm_eq _ _ (List.Perm.swap _ _ _) (by decide)]
  simp only [List.map_cons, List.map_nil, this]
  exact List.Perm.swap _ _ _

/-! ## totality of the transcription -/

/-- the decoder never runs out of fuel, whatever the text -/
theorem loads_ne_fuel (s : String) : loads s ≠ .error .fuel := loadsL_ne_fuel s.toList

/-- so every text is answered by a value, by `JSONDecodeError`, or by `unsupported` (a float or an unpaired surrogate
in a text Python accepts) -/
theorem loads_cases (s : String) :
    (∃ v, loads s = .ok v) ∨ loads s = .error .decodeError ∨ loads s = .error .unsupported := by
  have h := loads_ne_fuel s
  cases hl : loads s with
  | ok v => exact Or.inl ⟨v, rfl⟩
  | error e =>
    cases e with
    | decodeError => exact Or.inr (Or.inl rfl)
    | unsupported => exact Or.inr (Or.inr rfl)
    | fuel => exact absurd hl h

example : loadsL (dumpsL exampleVal ++ ['}']) = .error .decodeError :=
  loads_trailing _ _ _ (by decide) (by decide)

end CG.C05Json
