/-
C11, third-party half, part 2 -- what networkx 3.2.1 runs for `minimal_d_separator` and `is_minimal_d_separator` is
correct.

`CG/Model/NxMinSep.lean` transcribes both functions with everything they call (`ancestors`, `subgraph`, `moral_graph`,
`_bfs_with_marks`, and `d_separated` through `CG/Model/NxDSep.lean`).  This file proves, for every DAG whose edges lie
within its node list:

* `nxIsMinimalDSeparator_eq`: for `u`, `v` and all of `Z` among the nodes (otherwise networkx raises), EVERY such query
  -- adjacent or not, `u = v` or not, `Z` containing end nodes or non-ancestors or repeated members or not --
  `is_minimal_d_separator(G, u, v, Z)` returns exactly the definitional predicate `CG.DSepDec.isMinimalSepB E u v Z`:
  `Z` avoids `u` and `v`, d-separates them in the path-blocking sense, and no single member can be removed.
  No disagreement between networkx and the definitional predicate exists on any input on which networkx returns.
* `nxMinimalDSeparator_isMinimal`: for `u ≠ v` with no edge between them either way, the set returned by
  `minimal_d_separator(G, u, v)` satisfies that predicate (whatever order / multiplicity the list has).
* `nxMinimalDSeparator_ok_iff`, `nxIsMinimalDSeparator_ok_iff`, `…_error_iff`: when the two functions return at all and
  which exception they raise otherwise.
* `nxMinimalDSeparator_adjacent`: for an adjacent pair the function still returns a set, which is NOT a separator
  (nothing is); `nxMinimalDSeparator_self`: for `u = v` it returns the parents of `u`.

The mathematics (lemma files `Lemmas/MinSep*.lean`): `_bfs_with_marks(H, s, C)` = the members of `C` next to the part
of `H` reachable from `s` without entering `C` (`MinSepBfs`); the moralisation theorem for `Z ⊆ An({u, v})`
(`MinSepMoral.dsep_iff_not_reach`, from Darwiche's pruning theorem already proved for `d_separated`); a drop-one minimal
separator lies within `An({u, v})` (`MinSepDrop`); `Pa(u) ∪ Pa(v)` separates non-adjacent nodes in the moral graph and
two closures make a separator minimal (Tian & Paz 1998), below.
-/
import CG.Model.NxMinSep
import CG.Proofs.C11
import CG.Proofs.C11Nx
import CG.Proofs.Lemmas.MinSepBfs
import CG.Proofs.Lemmas.MinSepMoral
import CG.Proofs.Lemmas.MinSepDrop
set_option linter.unusedSectionVars false
set_option linter.unusedSimpArgs false
set_option linter.unusedVariables false

namespace CG.C11
variable {α : Type} [DecidableEq α]
open CG.DSepDec CG.DSepAux CG.NxDSep CG.NxMinSep CG.MinSepBfs CG.MinSepMoral CG.MinSepDrop
open CG.EL (RTC TC Acyclic)

/-! ## the four tests of `is_minimal_d_separator` together say "minimal separator" -/

theorem filter_ne_sub {Z : List α} {z : α} : ∀ y, y ∈ Z.filter (fun w => w ≠ z) → y ∈ Z :=
  fun y hy => (List.mem_filter.mp hy).1

theorem filter_ne_cover {Z : List α} {z : α} : ∀ y, y ∈ Z → y ∈ Z.filter (fun w => w ≠ z) ∨ y = z := by
  intro y hy
  by_cases h : y = z
  · exact Or.inr h
  · exact Or.inl (List.mem_filter.mpr ⟨hy, by simpa using h⟩)

theorem not_mem_filter_ne {Z : List α} {z : α} : z ∉ Z.filter (fun w => w ≠ z) := by
  intro h
  have := (List.mem_filter.mp h).2
  simp at this

/-- if every member of `Z` is marked by both searches, no member can be removed -/
theorem marked_both_not_sep {nodes : List α} {E : List (α × α)} {u v : α} {Z : List α}
    (hac : Acyclic (CG.EL.Rel E)) (hE : ∀ a b : α, (a, b) ∈ E → a ∈ nodes ∧ b ∈ nodes) (hu : u ∉ Z) (hv : v ∉ Z)
    (hZ : ∀ z, z ∈ Z → InA E u v z) {z : α}
    (h1 : Marks (moralOf nodes E u v) Z u z) (h2 : Marks (moralOf nodes E u v) Z v z) :
    ¬ DSep E u v (Z.filter (fun w => w ≠ z)) := by
  have hu' : u ∉ Z.filter (fun w => w ≠ z) := fun h => hu (filter_ne_sub _ h)
  have hv' : v ∉ Z.filter (fun w => w ≠ z) := fun h => hv (filter_ne_sub _ h)
  rw [dsep_iff_not_reach hac hE hu' hv' (fun y hy => hZ y (filter_ne_sub _ hy)), Classical.not_not]
  obtain ⟨_, _, a, ha, haz⟩ := h1
  obtain ⟨_, _, b, hb, hbz⟩ := h2
  exact reach_join (fun _ _ => moralOf_symm) hv' not_mem_filter_ne (reach_mono filter_ne_sub ha) haz
    (reach_mono filter_ne_sub hb) hbz

/-- **the heart of `is_minimal_d_separator`.**  In a DAG: `Z` passes `d_separated`, lies within the strict ancestors of
    `u`, `v`, and is marked completely by the search from `u` and by the search from `v` in the moral graph -- exactly
    when `Z` d-separates `u`, `v` and no single member can be removed. -/
theorem four_tests_iff_minimalSep {nodes : List α} {E : List (α × α)} {u v : α} {Z : List α}
    (hac : Acyclic (CG.EL.Rel E)) (hE : ∀ a b : α, (a, b) ∈ E → a ∈ nodes ∧ b ∈ nodes) :
    (DSepX E u v Z ∧ (∀ z, z ∈ Z → z ∈ unionL (ancestors E u) (ancestors E v)) ∧
      (∀ z, z ∈ Z → z ∈ bfsWithMarks (moralOf nodes E u v) u Z) ∧
      (∀ z, z ∈ Z → z ∈ bfsWithMarks (moralOf nodes E u v) v Z)) ↔ MinimalSep E u v Z := by
  constructor
  · rintro ⟨hsep, hanc, hmu, hmv⟩
    have hu : u ∉ Z := fun h => start_not_marked _ u Z (hmu u h)
    have hv : v ∉ Z := fun h => start_not_marked _ v Z (hmv v h)
    have hZ : ∀ z, z ∈ Z → InA E u v z := by
      intro z hz
      rcases mem_xyAnc.mp (hanc z hz) with h | h
      · exact Or.inl h.1
      · exact Or.inr h.1
    refine ⟨(dsepX_iff_dsep hu hv).mp hsep, ?_⟩
    intro z hz
    exact marked_both_not_sep hac hE hu hv hZ ((mem_bfsWithMarks _ u Z z).mp (hmu z hz))
      ((mem_bfsWithMarks _ v Z z).mp (hmv z hz))
  · intro hmin
    obtain ⟨hu, hv⟩ := minimalSep_avoids_ends hmin
    have hZ := minimalSep_within_anc hac hE hmin
    have hnr : ¬ Reach (moralOf nodes E u v) Z u v := (dsep_iff_not_reach hac hE hu hv hZ).mp hmin.1
    have hsym : ∀ a b : α, (a, b) ∈ moralOf nodes E u v → (b, a) ∈ moralOf nodes E u v := fun _ _ => moralOf_symm
    refine ⟨(dsepX_iff_dsep hu hv).mpr hmin.1, ?_, ?_, ?_⟩
    · intro z hz
      rw [mem_xyAnc]
      rcases hZ z hz with h | h
      · exact Or.inl ⟨h, fun e => hu (e ▸ hz)⟩
      · exact Or.inr ⟨h, fun e => hv (e ▸ hz)⟩
    · intro z hz
      rw [mem_bfsWithMarks]
      have hu' : u ∉ Z.filter (fun w => w ≠ z) := fun h => hu (filter_ne_sub _ h)
      have hv' : v ∉ Z.filter (fun w => w ≠ z) := fun h => hv (filter_ne_sub _ h)
      have hopen := hmin.2 z hz
      rw [dsep_iff_not_reach hac hE hu' hv' (fun y hy => hZ y (filter_ne_sub _ hy)), Classical.not_not] at hopen
      rcases reach_drop_one filter_ne_cover hopen with h | h
      · exact absurd h hnr
      · exact ⟨hz, fun e => hu (e ▸ hz), h⟩
    · intro z hz
      rw [mem_bfsWithMarks]
      have hu' : u ∉ Z.filter (fun w => w ≠ z) := fun h => hu (filter_ne_sub _ h)
      have hv' : v ∉ Z.filter (fun w => w ≠ z) := fun h => hv (filter_ne_sub _ h)
      have hopen := hmin.2 z hz
      rw [dsep_iff_not_reach hac hE hu' hv' (fun y hy => hZ y (filter_ne_sub _ hy)), Classical.not_not] at hopen
      rcases reach_drop_one filter_ne_cover (reach_symm hsym hu' hopen) with h | h
      · exact absurd (reach_symm hsym hv h) hnr
      · exact ⟨hz, fun e => hv (e ▸ hz), h⟩

/-! ## `is_minimal_d_separator` -/

/-- on a DAG holding every query node, the call of `d_separated` inside returns the endpoint-rule decision -/
theorem dSeparated_pair {nodes : List α} {E : List (α × α)} {u v : α} {Z : List α}
    (hac : Acyclic (CG.EL.Rel E)) (hE : ∀ a b : α, (a, b) ∈ E → a ∈ nodes ∧ b ∈ nodes)
    (hu : u ∈ nodes) (hv : v ∈ nodes) (hZn : ∀ z, z ∈ Z → z ∈ nodes) :
    dSeparated nodes E [u] [v] Z = .ok (dsepXB E u v Z) := by
  rw [← dsepSets_singleton]
  exact (dSeparated_ok_iff [u] [v] Z _ hE).mpr ((isDSeparated_ok_iff true nodes E [u] [v] Z _).mpr
    ⟨⟨rfl, hac⟩, by
      intro n hn
      simp only [List.mem_singleton] at hn
      rcases hn with h | h | h
      · rw [h]; exact hu
      · rw [h]; exact hv
      · exact hZn n h, rfl⟩)

theorem any_not_mem_eq_false {Z L : List α} : Z.any (fun n => decide (n ∉ L)) = false ↔ ∀ z, z ∈ Z → z ∈ L := by
  rw [List.any_eq_false]
  simp only [decide_eq_true_eq, Classical.not_not]

/-- **(a) `is_minimal_d_separator` decides "minimal d-separator", on every input on which it returns.**  For a DAG
    (edges within the node list) and `u`, `v`, `Z` among the nodes -- no other hypothesis: the pair may be adjacent or
    equal, `Z` may contain `u`, `v`, non-ancestors, repeated members -- the transcription of
    `networkx.is_minimal_d_separator(G, u, v, Z)` returns the definitional predicate. -/
theorem nxIsMinimalDSeparator_eq {nodes : List α} {E : List (α × α)} {u v : α} {Z : List α}
    (hac : Acyclic (CG.EL.Rel E)) (hE : ∀ a b : α, (a, b) ∈ E → a ∈ nodes ∧ b ∈ nodes)
    (hu : u ∈ nodes) (hv : v ∈ nodes) (hZn : ∀ z, z ∈ Z → z ∈ nodes) :
    nxIsMinimalDSeparator nodes E u v Z = .ok (isMinimalSepB E u v Z) := by
  have key := four_tests_iff_minimalSep (nodes := nodes) (u := u) (v := v) (Z := Z) hac hE
  rw [← isMinimalSep_iff, ← dsepXB_iff] at key
  unfold nxIsMinimalDSeparator
  rw [dSeparated_pair hac hE hu hv hZn]
  cases hsep : dsepXB E u v Z with
  | false =>
    simp only []
    cases hm : isMinimalSepB E u v Z with
    | false => rfl
    | true => rw [hsep] at key; exact absurd (key.mpr hm).1 (by simp)
  | true =>
    simp only []
    rw [hsep] at key
    cases h1 : Z.any (fun n => decide (n ∉ unionL (ancestors E u) (ancestors E v))) with
    | true =>
      simp only [if_true]
      cases hm : isMinimalSepB E u v Z with
      | false => rfl
      | true =>
        have := any_not_mem_eq_false.mpr (key.mpr hm).2.1
        rw [h1] at this; cases this
    | false =>
      simp only [Bool.false_eq_true, if_false]
      cases h2 : Z.any (fun n => decide (n ∉ bfsWithMarks (moralOf nodes E u v) u Z)) with
      | true =>
        simp only [if_true]
        cases hm : isMinimalSepB E u v Z with
        | false => rfl
        | true =>
          have := any_not_mem_eq_false.mpr (key.mpr hm).2.2.1
          rw [h2] at this; cases this
      | false =>
        simp only [Bool.false_eq_true, if_false]
        cases h3 : Z.any (fun n => decide (n ∉ bfsWithMarks (moralOf nodes E u v) v Z)) with
        | true =>
          simp only [if_true]
          cases hm : isMinimalSepB E u v Z with
          | false => rfl
          | true =>
            have := any_not_mem_eq_false.mpr (key.mpr hm).2.2.2
            rw [h3] at this; cases this
        | false =>
          simp only [Bool.false_eq_true, if_false]
          rw [key.mp ⟨rfl, any_not_mem_eq_false.mp h1, any_not_mem_eq_false.mp h2, any_not_mem_eq_false.mp h3⟩]

/-- the same in the vocabulary of C11: the answer is `True` exactly for the separating sets from which no single node
    can be removed -/
theorem nxIsMinimalDSeparator_iff {nodes : List α} {E : List (α × α)} {u v : α} {Z : List α}
    (hac : Acyclic (CG.EL.Rel E)) (hE : ∀ a b : α, (a, b) ∈ E → a ∈ nodes ∧ b ∈ nodes)
    (hu : u ∈ nodes) (hv : v ∈ nodes) (hZn : ∀ z, z ∈ Z → z ∈ nodes) :
    nxIsMinimalDSeparator nodes E u v Z = .ok true ↔ MinimalSep E u v Z := by
  rw [nxIsMinimalDSeparator_eq hac hE hu hv hZn, ← isMinimalSep_iff]
  constructor
  · intro h; injection h
  · intro h; rw [h]

/-- when `is_minimal_d_separator` returns, and what it raises otherwise (the two checks are those of `d_separated`) -/
theorem nxIsMinimalDSeparator_error_iff (nodes : List α) (E : List (α × α)) (u v : α) (Z : List α) (e : NxErr) :
    nxIsMinimalDSeparator nodes E u v Z = .error e ↔ dSeparated nodes E [u] [v] Z = .error e := by
  unfold nxIsMinimalDSeparator
  cases h : dSeparated nodes E [u] [v] Z with
  | error e' => simp
  | ok b =>
    cases b with
    | false => simp
    | true =>
      simp only []
      split
      · simp
      · split
        · simp
        · split <;> simp

theorem dSeparated_error_cases (nodes : List α) (E : List (α × α)) (X Y Z : List α) :
    (dSeparated nodes E X Y Z = .error .NetworkXError ↔ ¬ Acyclic (CG.EL.Rel E)) ∧
      (dSeparated nodes E X Y Z = .error .NodeNotFound ↔
        Acyclic (CG.EL.Rel E) ∧ ∃ n, n ∈ X ++ Y ++ Z ∧ n ∉ nodes) := by
  unfold dSeparated
  rw [← acyclicB_iff]
  have hany : (X ++ Y ++ Z).any (fun n => decide (n ∉ nodes)) = true ↔ ∃ n, n ∈ X ++ Y ++ Z ∧ n ∉ nodes := by
    simp only [List.any_eq_true, decide_eq_true_eq]
  rw [← hany]
  cases acyclicB E <;> cases (X ++ Y ++ Z).any (fun n => decide (n ∉ nodes)) <;> simp

/-- `is_minimal_d_separator` raises `NetworkXError` exactly on a cyclic graph, and `NodeNotFound` exactly on a DAG when
    `u`, `v` or a member of `Z` is not a node; in every other case it returns -/
theorem nxIsMinimalDSeparator_errors (nodes : List α) (E : List (α × α)) (u v : α) (Z : List α) :
    (nxIsMinimalDSeparator nodes E u v Z = .error .NetworkXError ↔ ¬ Acyclic (CG.EL.Rel E)) ∧
      (nxIsMinimalDSeparator nodes E u v Z = .error .NodeNotFound ↔
        Acyclic (CG.EL.Rel E) ∧ ∃ n, n ∈ [u] ++ [v] ++ Z ∧ n ∉ nodes) := by
  rw [nxIsMinimalDSeparator_error_iff, nxIsMinimalDSeparator_error_iff]
  exact dSeparated_error_cases nodes E [u] [v] Z

/-! ## `minimal_d_separator` -/

theorem mem_zPrime {E : List (α × α)} {u v x : α} : x ∈ zPrime E u v ↔ (x, u) ∈ E ∨ (x, v) ∈ E := by
  unfold zPrime
  rw [mem_unionL, CG.NxPrune.mem_predecessors, CG.NxPrune.mem_predecessors]

/-- `minimal_d_separator` returns exactly on DAGs that hold `u` and `v`, and then returns the second closure -/
theorem nxMinimalDSeparator_ok_iff (nodes : List α) (E : List (α × α)) (u v : α) (Z : List α) :
    nxMinimalDSeparator nodes E u v = .ok Z ↔
      Acyclic (CG.EL.Rel E) ∧ u ∈ nodes ∧ v ∈ nodes ∧
        Z = bfsWithMarks (moralOf nodes E u v) v (bfsWithMarks (moralOf nodes E u v) u (zPrime E u v)) := by
  unfold nxMinimalDSeparator
  rw [← acyclicB_iff]
  by_cases hac : acyclicB E = true
  · by_cases hu : u ∈ nodes <;> by_cases hv : v ∈ nodes <;> simp [hac, hu, hv, eq_comm]
  · have hac2 : acyclicB E = false := by simpa using hac
    simp [hac2]

/-- it raises `NetworkXError` exactly on a cyclic graph and `NodeNotFound` exactly on a DAG that lacks `u` or `v` -/
theorem nxMinimalDSeparator_errors (nodes : List α) (E : List (α × α)) (u v : α) :
    (nxMinimalDSeparator nodes E u v = .error .NetworkXError ↔ ¬ Acyclic (CG.EL.Rel E)) ∧
      (nxMinimalDSeparator nodes E u v = .error .NodeNotFound ↔
        Acyclic (CG.EL.Rel E) ∧ (u ∉ nodes ∨ v ∉ nodes)) := by
  unfold nxMinimalDSeparator
  rw [← acyclicB_iff]
  by_cases hac : acyclicB E = true
  · by_cases hu : u ∈ nodes <;> by_cases hv : v ∈ nodes <;> simp [hac, hu, hv]
  · have hac2 : acyclicB E = false := by simpa using hac
    simp [hac2]

/-- a node none of whose children is an ancestor-or-self of `u`, `v` and all of whose parents are in the check set is
    alone in its search -/
theorem reach_isolated {nodes : List α} {E : List (α × α)} {u v s : α} {C : List α}
    (hch : ∀ c, (s, c) ∈ E → ¬ InA E u v c) (hpa : ∀ c, (c, s) ∈ E → c ∈ C) {x : α}
    (h : Reach (moralOf nodes E u v) C s x) : x = s := by
  induction h with
  | refl => rfl
  | @tail b c hb hbc ih =>
    subst ih
    obtain ⟨_, hcA, hcase⟩ := moralOf_imp hbc.1
    rcases hcase with h | h | ⟨d, hd, h1, _⟩
    · exact absurd hcA (hch c h)
    · exact absurd (hpa c h) hbc.2
    · exact absurd hd (hch d h1)

/-- **`Pa(u) ∪ Pa(v)` separates two non-adjacent nodes in the moral graph of their ancestral sub-graph** -/
theorem zPrime_separates {nodes : List α} {E : List (α × α)} {u v : α} (hac : Acyclic (CG.EL.Rel E))
    (huv : u ≠ v) (hnadj : (u, v) ∉ E ∧ (v, u) ∉ E) :
    ¬ Reach (moralOf nodes E u v) (zPrime E u v) u v := by
  have huZ : u ∉ zPrime E u v := by
    rw [mem_zPrime]; rintro (h | h)
    · exact acyclic_irrefl hac u h
    · exact hnadj.1 h
  intro hr
  by_cases hvu : RTC (CG.EL.Rel E) v u
  · -- `v` is an ancestor of `u`: then `u` is not an ancestor of `v` and has no child in the ancestral set
    have hx := reach_isolated (s := u) (C := zPrime E u v) (by
      intro c huc hc
      have hstep : CG.EL.Rel E u c := huc
      rcases hc with h | h
      · exact hac u (TC.of_step_rtc hstep h)
      · exact huv (CG.Q.rtc_antisymm hac (RTC.head hstep h) hvu)) (fun c hc => mem_zPrime.mpr (Or.inl hc)) hr
    exact huv hx.symm
  · have hx := reach_isolated (s := v) (C := zPrime E u v) (by
      intro c hvc hc
      have hstep : CG.EL.Rel E v c := hvc
      rcases hc with h | h
      · exact hvu (RTC.head hstep h)
      · exact hac v (TC.of_step_rtc hstep h)) (fun c hc => mem_zPrime.mpr (Or.inr hc))
      (reach_symm (fun _ _ => moralOf_symm) huZ hr)
    exact huv hx

/-- **(b) what `minimal_d_separator` returns for a non-adjacent pair is a minimal d-separator.**  For a DAG (edges within
    the node list), `u ≠ v` with no edge between them either way: the returned set avoids `u` and `v`, d-separates them,
    and no single member can be removed. -/
theorem nxMinimalDSeparator_isMinimal {nodes : List α} {E : List (α × α)} {u v : α} {Z : List α}
    (hac : Acyclic (CG.EL.Rel E)) (hE : ∀ a b : α, (a, b) ∈ E → a ∈ nodes ∧ b ∈ nodes)
    (huv : u ≠ v) (hnadj : (u, v) ∉ E ∧ (v, u) ∉ E)
    (h : nxMinimalDSeparator nodes E u v = .ok Z) : isMinimalSepB E u v Z = true := by
  obtain ⟨_, _, _, rfl⟩ := (nxMinimalDSeparator_ok_iff nodes E u v Z).mp h
  rw [isMinimalSep_iff]
  -- abbreviations
  generalize hEm : moralOf nodes E u v = Em
  have hsym : ∀ a b : α, (a, b) ∈ Em → (b, a) ∈ Em := by rw [← hEm]; exact fun _ _ => moralOf_symm
  have hsep0 : ¬ Reach Em (zPrime E u v) u v := by rw [← hEm]; exact zPrime_separates hac huv hnadj
  have hZ1 : ∀ x, x ∈ bfsWithMarks Em u (zPrime E u v) → x ∈ zPrime E u v := fun x => marks_subset Em u _
  have hZ2 : ∀ x, x ∈ bfsWithMarks Em v (bfsWithMarks Em u (zPrime E u v)) →
      x ∈ bfsWithMarks Em u (zPrime E u v) := fun x => marks_subset Em v _
  have huZ0 : u ∉ zPrime E u v := by
    rw [mem_zPrime]; rintro (h | h)
    · exact acyclic_irrefl hac u h
    · exact hnadj.1 h
  have hvZ0 : v ∉ zPrime E u v := by
    rw [mem_zPrime]; rintro (h | h)
    · exact hnadj.2 h
    · exact acyclic_irrefl hac v h
  have hA0 : ∀ x, x ∈ zPrime E u v → InA E u v x := by
    intro x hx
    rcases mem_zPrime.mp hx with h | h
    · exact inA_pred h (inA_left E u v)
    · exact inA_pred h (inA_right E u v)
  have hu1 : u ∉ bfsWithMarks Em u (zPrime E u v) := fun h => huZ0 (hZ1 u h)
  have hv1 : v ∉ bfsWithMarks Em u (zPrime E u v) := fun h => hvZ0 (hZ1 v h)
  have hu2 : u ∉ bfsWithMarks Em v (bfsWithMarks Em u (zPrime E u v)) := fun h => hu1 (hZ2 u h)
  have hv2 : v ∉ bfsWithMarks Em v (bfsWithMarks Em u (zPrime E u v)) := fun h => hv1 (hZ2 v h)
  -- the first closure still separates, and so does the second
  have hsep1 : ¬ Reach Em (bfsWithMarks Em u (zPrime E u v)) u v :=
    fun hr => hsep0 (reach_closure (fun k hk => (mem_bfsWithMarks Em u _ k).mpr hk) hr)
  have hsep2 : ¬ Reach Em (bfsWithMarks Em v (bfsWithMarks Em u (zPrime E u v))) u v := by
    intro hr
    have := reach_closure (fun k hk => (mem_bfsWithMarks Em v _ k).mpr hk) (reach_symm hsym hu2 hr)
    exact hsep1 (reach_symm hsym hv1 this)
  have hA2 : ∀ x, x ∈ bfsWithMarks Em v (bfsWithMarks Em u (zPrime E u v)) → InA E u v x :=
    fun x hx => hA0 x (hZ1 x (hZ2 x hx))
  refine ⟨?_, ?_⟩
  · rw [← hEm] at hsep2 hu2 hv2 hA2 ⊢
    exact (dsep_iff_not_reach hac hE hu2 hv2 hA2).mpr hsep2
  · intro z hz
    -- `z` is next to what `v` reaches around the first closure, and next to what `u` reaches around `Pa(u) ∪ Pa(v)`
    obtain ⟨hz1, _, b, hb, hbz⟩ := (mem_bfsWithMarks Em v _ z).mp hz
    obtain ⟨_, _, a, ha, haz⟩ := (mem_bfsWithMarks Em u _ z).mp hz1
    have hsub : ∀ y, y ∈ (bfsWithMarks Em v (bfsWithMarks Em u (zPrime E u v))).filter (fun w => w ≠ z) →
        y ∈ bfsWithMarks Em v (bfsWithMarks Em u (zPrime E u v)) := filter_ne_sub
    have hu3 := fun h => hu2 (hsub u h)
    have hv3 := fun h => hv2 (hsub v h)
    have hjoin := reach_join hsym hv3 not_mem_filter_ne (reach_mono (fun y hy => hZ1 y (hZ2 y (hsub y hy))) ha) haz
      (reach_mono (fun y hy => hZ2 y (hsub y hy)) hb) hbz
    rw [← hEm] at hjoin hu3 hv3 hA2 hsub ⊢
    rw [dsep_iff_not_reach hac hE hu3 hv3 (fun y hy => hA2 y (hsub y hy)), Classical.not_not]
    exact hjoin

/-- the same as a statement about sets: any list with the same members as the returned one is a minimal d-separator -/
theorem nxMinimalDSeparator_isMinimal_set {nodes : List α} {E : List (α × α)} {u v : α} {Z Z' : List α}
    (hac : Acyclic (CG.EL.Rel E)) (hE : ∀ a b : α, (a, b) ∈ E → a ∈ nodes ∧ b ∈ nodes)
    (huv : u ≠ v) (hnadj : (u, v) ∉ E ∧ (v, u) ∉ E)
    (h : nxMinimalDSeparator nodes E u v = .ok Z) (hZ' : ∀ a, a ∈ Z ↔ a ∈ Z') : MinimalSep E u v Z' := by
  have hm := (isMinimalSep_iff E u v Z).mp (nxMinimalDSeparator_isMinimal hac hE huv hnadj h)
  refine ⟨(dsep_congr hZ' u v).mp hm.1, ?_⟩
  intro z hz hsep
  refine hm.2 z ((hZ' z).mpr hz) ((dsep_congr ?_ u v).mpr hsep)
  intro a
  simp only [List.mem_filter, hZ' a]

/-- `is_minimal_d_separator` accepts what `minimal_d_separator` returns (non-adjacent pair, DAG) -/
theorem nxIsMinimal_of_nxMinimal {nodes : List α} {E : List (α × α)} {u v : α} {Z : List α}
    (hac : Acyclic (CG.EL.Rel E)) (hE : ∀ a b : α, (a, b) ∈ E → a ∈ nodes ∧ b ∈ nodes)
    (huv : u ≠ v) (hnadj : (u, v) ∉ E ∧ (v, u) ∉ E)
    (h : nxMinimalDSeparator nodes E u v = .ok Z) : nxIsMinimalDSeparator nodes E u v Z = .ok true := by
  obtain ⟨_, hu, hv, hZdef⟩ := (nxMinimalDSeparator_ok_iff nodes E u v Z).mp h
  have hmin := nxMinimalDSeparator_isMinimal hac hE huv hnadj h
  have hZn : ∀ z, z ∈ Z → z ∈ nodes := by
    intro z hz
    rw [hZdef] at hz
    have hz' := marks_subset _ u _ (marks_subset _ v _ hz)
    rcases mem_zPrime.mp hz' with h' | h'
    · exact (hE _ _ h').1
    · exact (hE _ _ h').1
  rw [nxIsMinimalDSeparator_eq hac hE hu hv hZn, hmin]

/-! ## adjacent pairs: networkx still answers -/

/-- for an adjacent pair `minimal_d_separator` returns a set although no separator exists: whatever it returns fails the
    predicate (this is why `get_d_separation_set` must refuse adjacent pairs itself) -/
theorem nxMinimalDSeparator_adjacent {nodes : List α} {E : List (α × α)} {u v : α} {Z : List α}
    (huv : u ≠ v) (hadj : (u, v) ∈ E ∨ (v, u) ∈ E) (h : nxMinimalDSeparator nodes E u v = .ok Z) :
    isMinimalSepB E u v Z = false :=
  adjacent_not_minimalSep Z huv hadj

/-- with `u = v` and any check set that holds exactly the parents of `u`, the search from `u` marks exactly the parents -/
theorem marks_self {nodes : List α} {E : List (α × α)} {u : α} {C : List α} (hac : Acyclic (CG.EL.Rel E))
    (hC : ∀ x, x ∈ C ↔ (x, u) ∈ E) (x : α) : Marks (moralOf nodes E u u) C u x ↔ (x, u) ∈ E := by
  constructor
  · rintro ⟨h, _, _⟩; exact (hC x).mp h
  · intro h
    refine ⟨(hC x).mpr h, fun e => acyclic_irrefl hac u (e ▸ h), u, .refl _, ?_⟩
    exact (moralOf_edge h (inA_left E u u)).2

/-- **`u = v`: `minimal_d_separator(G, u, u)` returns the parents of `u`** (and nothing d-separates a node from itself,
    `self_not_dsep`): `get_d_separation_set(x, x)` passes its assertions on every DAG and hands this set out -/
theorem nxMinimalDSeparator_self {nodes : List α} {E : List (α × α)} {u : α} {Z : List α}
    (hac : Acyclic (CG.EL.Rel E)) (h : nxMinimalDSeparator nodes E u u = .ok Z) : ∀ x, x ∈ Z ↔ (x, u) ∈ E := by
  obtain ⟨_, _, _, rfl⟩ := (nxMinimalDSeparator_ok_iff nodes E u u Z).mp h
  have h0 : ∀ x, x ∈ zPrime E u u ↔ (x, u) ∈ E := by
    intro x; rw [mem_zPrime]; exact ⟨fun h => h.elim id id, Or.inl⟩
  have h1 : ∀ x, x ∈ bfsWithMarks (moralOf nodes E u u) u (zPrime E u u) ↔ (x, u) ∈ E := by
    intro x; rw [mem_bfsWithMarks]; exact marks_self hac h0 x
  intro x
  rw [mem_bfsWithMarks]
  exact marks_self hac h1 x

/-! ## the two `CausalGraph` methods with the transcription in place of the definitional stand-in -/

/-- whenever the modelled `is_minimally_d_separated` returns, the transcription of `networkx.is_minimal_d_separator`
    returns the same answer on the same graph: the stand-in `isMinimalSepB` used by the model IS what networkx computes -/
theorem isMinimallyDSeparated_eq_nx {fd : Bool} {nodes : List α} {E : List (α × α)} {x y : α} {Z : List α} {b : Bool}
    (h : isMinimallyDSeparated fd nodes E x y Z = .ok b) (hE : ∀ a b : α, (a, b) ∈ E → a ∈ nodes ∧ b ∈ nodes) :
    nxIsMinimalDSeparator nodes E x y Z = .ok b := by
  obtain ⟨⟨_, hac⟩, hx, hy, hZn⟩ := (isMinimallyDSeparated_ok_iff fd nodes E x y Z).mp ⟨b, h⟩
  rw [nxIsMinimalDSeparator_eq hac hE hx hy hZn]
  have h1 := isMinimallyDSeparated_iff h
  rw [← isMinimalSep_iff] at h1
  cases b <;> cases hm : isMinimalSepB E x y Z <;> simp_all

/-- whenever `get_d_separation_set(x, y)` gets past its assertions and the pair is really non-adjacent (`x ≠ y`, no edge
    stored as `(y, x)` either), `networkx.minimal_d_separator` returns, and returns a minimal d-separator -/
theorem getDSeparationSet_nx {fd : Bool} {nodes : List α} {E : List (α × α)} {x y : α}
    (h : getDSeparationSetPre fd nodes E x y = .ok ()) (hE : ∀ a b : α, (a, b) ∈ E → a ∈ nodes ∧ b ∈ nodes)
    (hxy : x ≠ y) (hrev : (y, x) ∉ E) :
    ∃ Z, nxMinimalDSeparator nodes E x y = .ok Z ∧ isMinimalSepB E x y Z = true := by
  obtain ⟨⟨_, hac⟩, hx, hy, hne⟩ := (getDSeparationSetPre_ok_iff fd nodes E x y).mp h
  refine ⟨_, (nxMinimalDSeparator_ok_iff nodes E x y _).mpr ⟨hac, hx, hy, rfl⟩, ?_⟩
  exact nxMinimalDSeparator_isMinimal hac hE hxy ⟨hne, hrev⟩
    ((nxMinimalDSeparator_ok_iff nodes E x y _).mpr ⟨hac, hx, hy, rfl⟩)

/-! ## non-vacuity -/

/-- the graph `5 → 1, 5 → 2, 1 → 3 ← 2, 3 → 4`: the only minimal separator of `1` and `2` is `{5}`; adding the
    descendant `4` of the collider `3` opens `1 → 3 ← 2` -/
def exM : List (Nat × Nat) := [(5, 1), (5, 2), (1, 3), (2, 3), (3, 4)]

theorem exM_acyclic : Acyclic (CG.EL.Rel exM) :=
  acyclic_of_rank (fun n => if n = 5 then 0 else if n = 1 ∨ n = 2 then 1 else if n = 3 then 2 else 3) (by
    intro a b h
    simp only [CG.EL.Rel, exM, List.mem_cons, Prod.mk.injEq, List.not_mem_nil, or_false] at h
    rcases h with ⟨rfl, rfl⟩ | ⟨rfl, rfl⟩ | ⟨rfl, rfl⟩ | ⟨rfl, rfl⟩ | ⟨rfl, rfl⟩ <;> decide)

theorem exM_within : ∀ a b : Nat, (a, b) ∈ exM → a ∈ [1, 2, 3, 4, 5] ∧ b ∈ [1, 2, 3, 4, 5] := by
  intro a b h
  simp only [exM, List.mem_cons, Prod.mk.injEq, List.not_mem_nil, or_false] at h
  rcases h with ⟨rfl, rfl⟩ | ⟨rfl, rfl⟩ | ⟨rfl, rfl⟩ | ⟨rfl, rfl⟩ | ⟨rfl, rfl⟩ <;> simp

/-- the hypotheses of `nxIsMinimalDSeparator_eq` are met by `u = 1`, `v = 2`, `Z = {5}` on that graph, and the answer there
    is `True`: a non-empty minimal separator (the right-hand side is evaluated by the kernel) -/
example : nxIsMinimalDSeparator [1, 2, 3, 4, 5] exM 1 2 [5] = .ok true := by
  rw [nxIsMinimalDSeparator_eq exM_acyclic exM_within (by simp) (by simp) (by simp)]
  exact congrArg Except.ok (by decide +kernel)

/-- ... `{5, 4}` separates nothing (the collider is opened) and `{5, 3}` neither: both are answered `False` -/
example : nxIsMinimalDSeparator [1, 2, 3, 4, 5] exM 1 2 [5, 4] = .ok false ∧
    nxIsMinimalDSeparator [1, 2, 3, 4, 5] exM 1 2 [5, 3] = .ok false := by
  rw [nxIsMinimalDSeparator_eq exM_acyclic exM_within (by simp) (by simp) (by simp),
    nxIsMinimalDSeparator_eq exM_acyclic exM_within (by simp) (by simp) (by simp)]
  exact ⟨congrArg Except.ok (by decide +kernel), congrArg Except.ok (by decide +kernel)⟩

/-- the transcription of `minimal_d_separator` run by the kernel on that graph: it returns `{5}` ... -/
theorem exM_run : nxMinimalDSeparator [1, 2, 3, 4, 5] exM 1 2 = .ok [5] := by
  rw [nxMinimalDSeparator_ok_iff]
  exact ⟨exM_acyclic, by simp, by simp, by decide +kernel⟩

/-- ... which meets the hypotheses of `nxMinimalDSeparator_isMinimal`, so `{5}` is a minimal d-separator of `1`, `2` -/
example : isMinimalSepB exM 1 2 [5] = true :=
  nxMinimalDSeparator_isMinimal exM_acyclic exM_within (by decide) (by decide) exM_run

/-- a separator with two members: `3 → 1`, and `1`, `2` both parents of `4` and of `5` -/
def exK : List (Nat × Nat) := [(3, 1), (1, 4), (1, 5), (2, 4), (2, 5)]

example : (nxMinimalDSeparator [1, 2, 3, 4, 5] exK 4 5).toOption = some [1, 2] ∧ isMinimalSepB exK 4 5 [1, 2] = true ∧
    isMinimalSepB exK 4 5 [1, 2, 3] = false ∧ isMinimalSepB exK 4 5 [1] = false := by
  refine ⟨by decide +kernel, by decide +kernel, by decide +kernel, by decide +kernel⟩

/-- for an adjacent pair `minimal_d_separator` still returns a set (here `{3}` for the edge `1 → 2` next to `1 → 3 → 2`:
    of `Pa(1) ∪ Pa(2) = {1, 3}` the two searches keep `3`); it is not a separator -/
example : (nxMinimalDSeparator [1, 2, 3] [(1, 2), (1, 3), (3, 2)] 1 2).toOption = some [3] ∧
    isMinimalSepB [(1, 2), (1, 3), (3, 2)] 1 2 [3] = false := by
  refine ⟨by decide +kernel, by decide +kernel⟩

end CG.C11
