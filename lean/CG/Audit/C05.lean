import CG.Proofs.C05
import CG.Proofs.C05Conv
import CG.Proofs.PlainNorm
#print axioms CG.C05.edgeType_text_generated
#print axioms CG.C05.vtype_text_generated
#print axioms CG.C05.reserved_keys_generated
#print axioms CG.C05.fromDict_toDict
#print axioms CG.C05.fromDict_toDict_validated
#print axioms CG.C05.fromDict_toDict_cyclic_refused
#print axioms CG.C05.fromDict_toDict_noMeta
#print axioms CG.C05.toDict_fromDict_toDict
#print axioms CG.C05.copy_eq
#print axioms CG.C05.toDict_congr
#print axioms CG.C05.build_order_irrelevant
#print axioms CG.C05.skeleton_roundtrip
#print axioms CG.C05.toPlain_preserves
#print axioms CG.C05.toTs_preserves
#print axioms CG.C05.toTs_fails_unparsable
#print axioms CG.C05.toTs_fails_against
#print axioms CG.C05.toTs_succeeds_iff
#print axioms CG.C05.fromCausalGraph_eq
#print axioms CG.C05.fromCausalGraph_plain
#print axioms CG.C05.tsImage_edge
#print axioms CG.C05.tsImage_edge_inv
#print axioms CG.C05.tsImage_node
#print axioms CG.plainNorm_empty
#print axioms CG.plainNorm_stepRef
#print axioms CG.plainNorm_runRef
#print axioms CG.plainNorm_run
#print axioms CG.fromDict_toDict_run
#print axioms CG.fromDict_toDict_run_cls
#print axioms CG.fromDict_toDict_validated_run
#print axioms CG.copy_eq_run
