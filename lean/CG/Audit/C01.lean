import CG
