import CG.Proofs.C11

#print axioms CG.C11.isDSeparated_iff_DSep
#print axioms CG.C11.isDSeparated_iff_DSepX
#print axioms CG.C11.isDSeparated_ok_iff
#print axioms CG.C11.isDSeparated_total
#print axioms CG.C11.isMinimalSep_iff
#print axioms CG.C11.minimalSep_avoids_ends
#print axioms CG.C11.isMinimallyDSeparated_iff
#print axioms CG.C11.isMinimallyDSeparated_ok_iff
#print axioms CG.C11.dsep_symm_iff
#print axioms CG.C11.adjacent_not_dsep
#print axioms CG.C11.self_not_dsep
#print axioms CG.C11.adjacent_not_minimalSep
#print axioms CG.C11.getDSeparationSetPre_ok_iff
#print axioms CG.C11.getDSeparationSetPre_total
#print axioms CG.C11.getpre_reverse_edge_passes
#print axioms CG.C11.dsepSets_congr
#print axioms CG.C11.dsepSets_singleton
#print axioms CG.C11.dsepSets_singleton_disjoint
#print axioms CG.C11.dsepSets_swap
