import CG.Proofs.C11
import CG.Proofs.C11Nx
import CG.Proofs.C11MinSep

#print axioms CG.C11.isDSeparated_iff_DSep
#print axioms CG.C11.isDSeparated_iff_DSepX
#print axioms CG.C11.isDSeparated_ok_iff
#print axioms CG.C11.isDSeparated_total
#print axioms CG.C11.isMinimalSep_iff
#print axioms CG.C11.minimalSep_avoids_ends
#print axioms CG.C11.isMinimallyDSeparated_iff
#print axioms CG.C11.isMinimallyDSeparated_ok_iff
#print axioms CG.C11.dsep_symm_iff
#print axioms CG.C11.adjacent_not_dsep
#print axioms CG.C11.self_not_dsep
#print axioms CG.C11.adjacent_not_minimalSep
#print axioms CG.C11.getDSeparationSetPre_ok_iff
#print axioms CG.C11.getDSeparationSetPre_total
#print axioms CG.C11.getpre_reverse_edge_passes
#print axioms CG.C11.dsepSets_congr
#print axioms CG.C11.dsepSets_singleton
#print axioms CG.C11.dsepSets_singleton_disjoint
#print axioms CG.C11.dsepSets_swap

#print axioms CG.C11.nxDSeparated_iff
#print axioms CG.C11.nxDSeparated_iff_DSepX
#print axioms CG.C11.nxDSeparated_iff_full
#print axioms CG.C11.nx_eq_model
#print axioms CG.C11.isDSeparated_eq_nx
#print axioms CG.C11.dSeparated_ok_iff
#print axioms CG.C11.finalEdges_isPruned
#print axioms CG.C11.nxDSeparated_eq_false_iff
#print axioms CG.NxPrune.pruneLeaves_spec
#print axioms CG.NxOpen.open_walk_in_pruned
#print axioms CG.NxOpen.pruned_conn_gives_open
#print axioms CG.NxOpen.simplify
#print axioms CG.C11.nxDSeparatedUF_eq
#print axioms CG.NxUF.uf_closed_form
#print axioms CG.NxPrune.pruneReach_leaf_present
#print axioms CG.NxPrune.pruneReach_on_run

#print axioms CG.C11.nxIsMinimalDSeparator_eq
#print axioms CG.C11.nxIsMinimalDSeparator_iff
#print axioms CG.C11.nxMinimalDSeparator_isMinimal
#print axioms CG.C11.nxMinimalDSeparator_isMinimal_set
#print axioms CG.C11.nxIsMinimal_of_nxMinimal
#print axioms CG.C11.four_tests_iff_minimalSep
#print axioms CG.C11.zPrime_separates
#print axioms CG.C11.nxMinimalDSeparator_ok_iff
#print axioms CG.C11.nxMinimalDSeparator_errors
#print axioms CG.C11.nxIsMinimalDSeparator_errors
#print axioms CG.C11.nxMinimalDSeparator_adjacent
#print axioms CG.C11.isMinimallyDSeparated_eq_nx
#print axioms CG.C11.getDSeparationSet_nx
#print axioms CG.C11.exM_run
#print axioms CG.MinSepBfs.mem_bfsWithMarks
#print axioms CG.MinSepMoral.dsep_iff_not_reach
#print axioms CG.MinSepMoral.reach_closure
#print axioms CG.MinSepDrop.minimalSep_within_anc
#print axioms CG.MinSepDrop.dsep_drop_nonanc
#print axioms CG.MinSepBfs.mem_bfsLoop_any_order
#print axioms CG.MinSepBfs.bfsLoop_order_irrelevant
#print axioms CG.MinSepBfs.bfsWithMarks_nodup
#print axioms CG.C11.nxMinimalDSeparator_self
