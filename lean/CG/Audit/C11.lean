import CG.Proofs.C11
import CG.Proofs.C11Nx

#print axioms CG.C11.isDSeparated_iff_DSep
#print axioms CG.C11.isDSeparated_iff_DSepX
#print axioms CG.C11.isDSeparated_ok_iff
#print axioms CG.C11.isDSeparated_total
#print axioms CG.C11.isMinimalSep_iff
#print axioms CG.C11.minimalSep_avoids_ends
#print axioms CG.C11.isMinimallyDSeparated_iff
#print axioms CG.C11.isMinimallyDSeparated_ok_iff
#print axioms CG.C11.dsep_symm_iff
#print axioms CG.C11.adjacent_not_dsep
#print axioms CG.C11.self_not_dsep
#print axioms CG.C11.adjacent_not_minimalSep
#print axioms CG.C11.getDSeparationSetPre_ok_iff
#print axioms CG.C11.getDSeparationSetPre_total
#print axioms CG.C11.getpre_reverse_edge_passes
#print axioms CG.C11.dsepSets_congr
#print axioms CG.C11.dsepSets_singleton
#print axioms CG.C11.dsepSets_singleton_disjoint
#print axioms CG.C11.dsepSets_swap

#print axioms CG.C11.nxDSeparated_iff
#print axioms CG.C11.nxDSeparated_iff_DSepX
#print axioms CG.C11.nxDSeparated_iff_full
#print axioms CG.C11.nx_eq_model
#print axioms CG.C11.isDSeparated_eq_nx
#print axioms CG.C11.dSeparated_ok_iff
#print axioms CG.C11.finalEdges_isPruned
#print axioms CG.C11.nxDSeparated_eq_false_iff
#print axioms CG.NxPrune.pruneLeaves_spec
#print axioms CG.NxOpen.open_walk_in_pruned
#print axioms CG.NxOpen.pruned_conn_gives_open
#print axioms CG.NxOpen.simplify
#print axioms CG.C11.nxDSeparatedUF_eq
#print axioms CG.NxUF.uf_closed_form
#print axioms CG.NxPrune.pruneReach_leaf_present
#print axioms CG.NxPrune.pruneReach_on_run
