import CG.Proofs.C15

#print axioms CG.C15.extend_eq_unroll
#print axioms CG.C15.extend_ok
#print axioms CG.C15.extend_negative
#print axioms CG.C15.minimal_extend
#print axioms CG.C15.extend_templates
#print axioms CG.C15.extend_vars
#print axioms CG.C15.parents_shift_invariant
#print axioms CG.C15.extend_mono
#print axioms CG.C15.extend_acyclic
#print axioms CG.C15.extend_attrs
