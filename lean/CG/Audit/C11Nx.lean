import CG.Proofs.C11Nx

#print axioms CG.C11.nxDSeparated_iff
#print axioms CG.C11.nxDSeparated_iff_DSepX
#print axioms CG.C11.nxDSeparated_iff_full
#print axioms CG.C11.nx_eq_model
#print axioms CG.C11.isDSeparated_eq_nx
#print axioms CG.C11.dSeparated_ok_iff
#print axioms CG.C11.finalEdges_isPruned
#print axioms CG.C11.nxDSeparated_eq_false_iff
#print axioms CG.NxPrune.pruneLeaves_spec
#print axioms CG.NxOpen.open_walk_in_pruned
#print axioms CG.NxOpen.pruned_conn_gives_open
#print axioms CG.NxOpen.simplify
#print axioms CG.C11.nxDSeparatedUF_eq
#print axioms CG.NxUF.uf_closed_form
#print axioms CG.NxPrune.pruneReach_leaf_present
#print axioms CG.NxPrune.pruneReach_on_run
