/- Audit of the index refinement (DESIGN.md "B. State representation"): one `#print axioms` per property theorem
   (allowed: propext, Classical.choice, Quot.sound). -/
import CG.Proofs.IndexRefine

#print axioms CG.IndexRefine.mirror_ofGraph
#print axioms CG.IndexRefine.mirror_empty
#print axioms CG.IndexRefine.mirror_insNode
#print axioms CG.IndexRefine.mirror_insEdge
#print axioms CG.IndexRefine.mirror_delEdgeRaw
#print axioms CG.IndexRefine.mirror_delNodeRaw
#print axioms CG.IndexRefine.mirror_step
#print axioms CG.IndexRefine.commute_insNode
#print axioms CG.IndexRefine.commute_insEdge
#print axioms CG.IndexRefine.commute_delEdgeRaw
#print axioms CG.IndexRefine.commute_delNodeRaw
#print axioms CG.IndexRefine.commute_run
#print axioms CG.IndexRefine.refines_run
#print axioms CG.IndexRefine.refines_from_empty
#print axioms CG.IndexRefine.abs_ofGraph
#print axioms CG.IndexRefine.preG_addNode
#print axioms CG.IndexRefine.preG_addNodeObj
#print axioms CG.IndexRefine.preG_replaceInPlace
#print axioms CG.IndexRefine.preG_insEdge_of_checks
#print axioms CG.IndexRefine.preG_setEdge
#print axioms CG.IndexRefine.addEdgeE_is_run
#print axioms CG.IndexRefine.elem_is_prim
#print axioms CG.IndexRefine.chain_is_run
#print axioms CG.IndexRefine.stepRef_is_run
#print axioms CG.IndexRefine.runRef_is_run
#print axioms CG.IndexRefine.history_refines
#print axioms CG.IndexRefine.setEdgeImpl_is_run
#print axioms CG.IndexRefine.reader_getEdges_source
#print axioms CG.IndexRefine.reader_getEdges_destination
#print axioms CG.IndexRefine.reader_getParents
#print axioms CG.IndexRefine.reader_getChildren
#print axioms CG.IndexRefine.reader_inboundEdges
#print axioms CG.IndexRefine.reader_outboundEdges
#print axioms CG.IndexRefine.reader_isSourceNode
#print axioms CG.IndexRefine.reader_isSinkNode
#print axioms CG.IndexRefine.countInbound_eq
#print axioms CG.IndexRefine.countOutbound_eq
#print axioms CG.IndexRefine.reader_nodesAtLag
#print axioms CG.IndexRefine.reader_nodesForVariable
#print axioms CG.IndexRefine.reader_contemporaneous
#print axioms CG.IndexRefine.reader_variables
#print axioms CG.IndexRefine.demoRun_pre
