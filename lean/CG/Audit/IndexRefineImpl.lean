/- Audit of the mechanism-level part of the index refinement (`CG/Proofs/IndexRefineImpl.lean`, `CG/Proofs/IndexRefineTrace.lean`): one
   `#print axioms` per property theorem (allowed: propext, Classical.choice, Quot.sound). -/
import CG.Proofs.IndexRefineImpl
import CG.Proofs.IndexRefineTrace

#print axioms CG.IndexRefine.ends_of_wf
#print axioms CG.IndexRefine.preG_fresh_ends
#print axioms CG.IndexRefine.ensureNode_re
#print axioms CG.IndexRefine.setEdgeImpl_re
#print axioms CG.IndexRefine.dropNewNodes_re
#print axioms CG.IndexRefine.addEdgeImpl_re
#print axioms CG.IndexRefine.changeEdgeTypeImpl_re
#print axioms CG.IndexRefine.replaceEdgeImpl_re
#print axioms CG.IndexRefine.copyEdgesImpl_re
#print axioms CG.IndexRefine.replaceNodeBaseImpl_re
#print axioms CG.IndexRefine.replaceNodeImpl_re
#print axioms CG.IndexRefine.addTimeEdgeImpl_re
#print axioms CG.IndexRefine.addEdgeImpl_is_run
#print axioms CG.IndexRefine.changeEdgeTypeImpl_is_run
#print axioms CG.IndexRefine.replaceEdgeImpl_is_run
#print axioms CG.IndexRefine.copyEdgesImpl_is_run
#print axioms CG.IndexRefine.replaceNodeBaseImpl_is_run
#print axioms CG.IndexRefine.replaceNodeImpl_is_run
#print axioms CG.IndexRefine.addTimeEdgeImpl_is_run
#print axioms CG.IndexRefine.step_is_run
#print axioms CG.IndexRefine.wf_step
#print axioms CG.IndexRefine.run_is_run
#print axioms CG.IndexRefine.mirror_prefixes
#print axioms CG.IndexRefine.history_refines_impl
#print axioms CG.IndexRefine.run_refines_impl
#print axioms CG.IndexRefine.ensureNode_traced
#print axioms CG.IndexRefine.setEdgeImpl_traced
#print axioms CG.IndexRefine.dropNewNodes_traced
#print axioms CG.IndexRefine.addEdgeImpl_traced
#print axioms CG.IndexRefine.deleteAddRestore_traced
#print axioms CG.IndexRefine.changeEdgeTypeImpl_traced
#print axioms CG.IndexRefine.replaceEdgeImpl_traced
#print axioms CG.IndexRefine.copyEdgesImpl_traced
#print axioms CG.IndexRefine.replaceNodeBaseImpl_traced
#print axioms CG.IndexRefine.replaceNodeImpl_traced
#print axioms CG.IndexRefine.addTimeEdgeImpl_traced
#print axioms CG.IndexRefine.addEdgeImpl_trace_is_run
#print axioms CG.IndexRefine.changeEdgeTypeImpl_trace_is_run
#print axioms CG.IndexRefine.replaceEdgeImpl_trace_is_run
#print axioms CG.IndexRefine.replaceNodeImpl_trace_is_run
#print axioms CG.IndexRefine.addTimeEdgeImpl_trace_is_run
#print axioms CG.IndexRefine.addEdgeImpl_mirror_throughout
