import CG.Proofs.C04
import CG.Proofs.Lemmas.C04Step
#print axioms CG.C04.coherent_iff_coh
#print axioms CG.C04.coherent_init
#print axioms CG.C04.coherent_reader
#print axioms CG.C04.coherent_mutator
#print axioms CG.C04.script_closed
#print axioms CG.C04.coherent_run
#print axioms CG.C04.reader_eq_fresh
#print axioms CG.C04.cached_readers_eq_fresh
#print axioms CG.C04.mutC_graph
#print axioms CG.C04.mutC_graph_single
#print axioms CG.C04.runCalls_graph
#print axioms CG.C04.Table.writers_covered
#print axioms CG.C04.Table.cached_subset_cleared
#print axioms CG.C04.Table.no_reader_in_mutator
#print axioms CG.C04.stepM_eq_step_wf
#print axioms CG.C04.runCalls_graph_run
