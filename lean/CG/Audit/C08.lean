import CG.Proofs.C08
import CG.Proofs.C08RoundTrip
import CG.Proofs.C08RoundTripTs
import CG.Proofs.C08Lagged
import CG.Proofs.C08LaggedRoundTrip
import CG.Proofs.C08Gml
#print axioms CG.C08.entry_law
#print axioms CG.C08.toNumpy_refuses_iff
#print axioms CG.C08.toNetworkx_refuses_iff
#print axioms CG.C08.toNetworkx_faithful
#print axioms CG.C08.toGml_refuses_iff
#print axioms CG.C08.fromAdj_not2D
#print axioms CG.C08.fromAdj_nonSquare
#print axioms CG.C08.fromAdj_nonBinary
#print axioms CG.C08.fromAdj_nameCount
#print axioms CG.C08.fromAdj_malformed
#print axioms CG.C08.fromAdj_validated_acyclic
#print axioms CG.C08.fromAdj_validated_iff
#print axioms CG.C08.fromNetworkx_validated_acyclic
#print axioms CG.C08.fromSkeleton_validated_acyclic
#print axioms CG.C08.fromAdj_of_law
#print axioms CG.C08.fromAdj_toNumpy
#print axioms CG.C08.fromAdj_toNumpy_cyclic_refused
#print axioms CG.C08.fromNetworkx_toNetworkx
#print axioms CG.C08.fromGml_toGml
#print axioms CG.C08.fromSkeleton_skeleton
#print axioms CG.C08.Ts.fromAdj_of_law_ts
#print axioms CG.C08.Ts.fromAdj_toNumpy_ts
#print axioms CG.C08.Ts.fromNetworkx_toNetworkx_ts
#print axioms CG.C08.Ts.fromSkeleton_skeleton_ts
#print axioms CG.C08.lagged_refuses_iff
#print axioms CG.C08.lagged_entry_law
#print axioms CG.C08.toNumpyByLag_eq
#print axioms CG.C08.fromAdjMatrices_toNumpyByLag
#print axioms CG.C08.fromAdjMatrices_toNumpyByLag_min
#print axioms CG.C08.fromAdjMatrices_toNumpyByLag_min_refused
#print axioms CG.C08.fromAdjMatrices_toNumpyByLag_full
#print axioms CG.C08.lagImage_eq
#print axioms CG.C08Gml.unescape_escape
#print axioms CG.C08Gml.escape_chars
#print axioms CG.C08Gml.escape_cons
#print axioms CG.C08Gml.unescape_escape_string
#print axioms CG.C08Gml.tokenize_generated
#print axioms CG.C08Gml.parse_generate
#print axioms CG.C08Gml.nxOrder_of_view
#print axioms CG.C08Gml.nxOrder_eq_view
#print axioms CG.C08Gml.parse_generate_strings
#print axioms CG.C08Gml.parse_generate_list_label
#print axioms CG.C08Gml.survives_iff
#print axioms CG.C08Gml.parseGml_generateGml
#print axioms CG.C08Gml.duplicate_id_refused
#print axioms CG.C08Gml.duplicate_label_refused
#print axioms CG.C08Gml.undefined_source_refused
#print axioms CG.C08Gml.undefined_target_refused
#print axioms CG.C08Gml.duplicate_edge_refused
