import CG.Proofs.C08
import CG.Proofs.C08RoundTrip
#print axioms CG.C08.entry_law
#print axioms CG.C08.toNumpy_refuses_iff
#print axioms CG.C08.toNetworkx_refuses_iff
#print axioms CG.C08.toNetworkx_faithful
#print axioms CG.C08.toGml_refuses_iff
#print axioms CG.C08.fromAdj_not2D
#print axioms CG.C08.fromAdj_nonSquare
#print axioms CG.C08.fromAdj_nonBinary
#print axioms CG.C08.fromAdj_nameCount
#print axioms CG.C08.fromAdj_malformed
#print axioms CG.C08.fromAdj_validated_acyclic
#print axioms CG.C08.fromAdj_validated_iff
#print axioms CG.C08.fromNetworkx_validated_acyclic
#print axioms CG.C08.fromSkeleton_validated_acyclic
#print axioms CG.C08.fromAdj_of_law
#print axioms CG.C08.fromAdj_toNumpy
#print axioms CG.C08.fromAdj_toNumpy_cyclic_refused
#print axioms CG.C08.fromNetworkx_toNetworkx
#print axioms CG.C08.fromGml_toGml
#print axioms CG.C08.fromSkeleton_skeleton
