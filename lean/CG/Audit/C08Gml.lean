/- Audit of the GML text layer (C08 / C09, networkx `generate_gml` / `parse_gml`): one `#print axioms` per property theorem
(allowed: propext, Classical.choice, Quot.sound). -/
import CG.Proofs.C08Gml

#print axioms CG.C08Gml.unescape_escape
#print axioms CG.C08Gml.escape_chars
#print axioms CG.C08Gml.escape_cons
#print axioms CG.C08Gml.unescape_escape_string
#print axioms CG.C08Gml.tokenize_generated
#print axioms CG.C08Gml.parse_generate
#print axioms CG.C08Gml.nxOrder_of_view
#print axioms CG.C08Gml.nxOrder_eq_view
#print axioms CG.C08Gml.parse_generate_strings
#print axioms CG.C08Gml.parse_generate_list_label
#print axioms CG.C08Gml.survives_iff
#print axioms CG.C08Gml.parseGml_generateGml
#print axioms CG.C08Gml.duplicate_id_refused
#print axioms CG.C08Gml.duplicate_label_refused
#print axioms CG.C08Gml.undefined_source_refused
#print axioms CG.C08Gml.undefined_target_refused
#print axioms CG.C08Gml.duplicate_edge_refused
