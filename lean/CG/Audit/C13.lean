import CG.Proofs.C10NxTopo
import CG.Proofs.WFRun
import CG.Proofs.TopoOrders
#print axioms CG.TopoThm.kahn_lag_sorted
#print axioms CG.TopoThm.allTimeTopo_iff
#print axioms CG.TopoThm.allTimeTopo_eq
#print axioms CG.TopoThm.allTimeTopo_nil
#print axioms CG.TopoThm.allTimeTopo_ne_nil
#print axioms CG.TopoThm.lagsSorted_iff
#print axioms CG.TopoThm.isTopoOrder_iff
#print axioms CG.TopoThm.linExt_path_forward
#print axioms CG.ts_edges_forward
#print axioms CG.run_no_edge_backwards
#print axioms CG.C13.no_directed_edge_backwards
#print axioms CG.C13.directed_edge_forward
#print axioms CG.C13.history_no_edge_backwards
#print axioms CG.C13.addEdge_against_time_refused
#print axioms CG.C13.addEdge_against_time_refused'
#print axioms CG.C13.addTimeEdge_against_time_refused
#print axioms CG.C13.changeEdgeType_against_time_refused
#print axioms CG.C13.changeEdgeType_reverse_key
#print axioms CG.C13.replaceEdge_against_time_refused
#print axioms CG.C13.replaceNode_against_time_refused
#print axioms CG.C13.replaceNode_accepted
#print axioms CG.C13.replaceNode_relag_against_time_refused
#print axioms CG.replaceNodeBase_exact

#print axioms CG.NxTopoProofs.nxLexTopo_valid
#print axioms CG.NxTopoProofs.nxLexTopo_sorted
#print axioms CG.NxTopoProofs.nxLexTopo_unfeasible_iff
#print axioms CG.NxTopoProofs.nxLexTopo_total
#print axioms CG.NxTopoProofs.nxLexTopo_eq_kahnByLag
#print axioms CG.NxTopoRuns.lexLoop_spec
#print axioms CG.NxTopoRuns.lexLoop_sorted
