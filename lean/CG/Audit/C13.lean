import CG.Proofs.TopoOrders
#print axioms CG.TopoThm.kahn_lag_sorted
#print axioms CG.TopoThm.allTimeTopo_iff
#print axioms CG.TopoThm.allTimeTopo_eq
#print axioms CG.TopoThm.allTimeTopo_nil
#print axioms CG.TopoThm.allTimeTopo_ne_nil
#print axioms CG.TopoThm.lagsSorted_iff
#print axioms CG.TopoThm.isTopoOrder_iff
#print axioms CG.TopoThm.linExt_path_forward
