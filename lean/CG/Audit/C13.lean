import CG.Proofs.TopoOrders
#print axioms CG.TopoThm.kahn_lag_sorted
#print axioms CG.TopoThm.allTimeTopo_iff
#print axioms CG.TopoThm.allTimeTopo_eq
#print axioms CG.TopoThm.lagsSorted_iff
#print axioms CG.TopoThm.isTopoOrder_iff
