import CG.Proofs.C06

#print axioms CG.C06.export_fresh
#print axioms CG.C06.heap_below
#print axioms CG.C06.export_separated
#print axioms CG.C06.derived_internal_separated
#print axioms CG.C06.source_unchanged
#print axioms CG.C06.exports_any_order
#print axioms CG.C06.mutators_keep_cells_separated
#print axioms CG.C06.to_dict_separated_partial
#print axioms CG.C06.d9_shared
#print axioms CG.C06.to_dict_counterexample
