/- Audit of property C10: one `#print axioms` per property theorem (allowed: propext, Classical.choice, Quot.sound). -/
import CG.Proofs.C10
import CG.Proofs.TopoOrders

#print axioms CG.C10.descendants_iff
#print axioms CG.C10.ancestors_iff
#print axioms CG.C10.isAncestor_iff
#print axioms CG.C10.isDescendant_iff
#print axioms CG.C10.commonAncestors_iff
#print axioms CG.C10.commonDescendants_iff
#print axioms CG.C10.allCausalPaths_iff
#print axioms CG.C10.allCausalPaths_nodup
#print axioms CG.C10.allCausalPaths_self
#print axioms CG.C10.isDag_iff
#print axioms CG.C10.nodesBetween_terminates
#print axioms CG.C10.nodesBetweenF_spec
#print axioms CG.C10.nodesBetween_eq
#print axioms CG.C10.nodesBetween_empty
#print axioms CG.C10.nodesBetween_self
#print axioms CG.C10.directedPathExists_terminates
#print axioms CG.C10.directedPathExists_iff
#print axioms CG.C10.directedPathExists_sound
#print axioms CG.C10.subgraph_nodes
#print axioms CG.C10.subgraph_edges
#print axioms CG.C10.subgraph_induced_ancestral
#print axioms CG.C10.subgraph_induced_descendant
#print axioms CG.C10.parentsGraph_star
#print axioms CG.C10.childrenGraph_star
#print axioms CG.C10.getSubgraph_ok
#print axioms CG.C10.checked_queries_ok
#print axioms CG.C10.isAncestor_consistent
#print axioms CG.C10.isDescendant_consistent
#print axioms CG.C10.nodesBetween_eq_paths_union
#print axioms CG.C10.queries_order_invariant
#print axioms CG.C10.queries_rename_invariant

#print axioms CG.TopoThm.allTopo_iff
#print axioms CG.TopoThm.isTopoOrder_iff
#print axioms CG.TopoThm.linExt_path_forward
#print axioms CG.TopoThm.exists_linExt
#print axioms CG.TopoThm.allTopo_ne_nil_iff
