/- Audit of property C05, json half: one `#print axioms` per property theorem (allowed: propext, Classical.choice, Quot.sound). -/
import CG.Proofs.C05Json

#print axioms CG.C05Json.scanstring_encodeString
#print axioms CG.C05Json.scanOnce_encodeString
#print axioms CG.C05Json.encodeString_printable
#print axioms CG.C05Json.intText_eq_toString
#print axioms CG.C05Json.scanNumber_toString
#print axioms CG.C05Json.scanOnce_toString
#print axioms CG.C05Json.dumps_printable
#print axioms CG.C05Json.loads_dumps_dedup
#print axioms CG.C05Json.loads_dumps
#print axioms CG.C05Json.sortPairs_perm
#print axioms CG.C05Json.sortPairs_sorted
#print axioms CG.C05Json.sortKeys_obj_perm
#print axioms CG.C05Json.sortKeys_arr
#print axioms CG.C05Json.sortKeys_atom
#print axioms CG.C05Json.loads_dumpsSorted
#print axioms CG.C05Json.dumps_injective
#print axioms CG.C05Json.loads_ws_dumps_ws
#print axioms CG.C05Json.loads_trailing
#print axioms CG.C05Json.loads_empty
#print axioms CG.C05Json.loads_ne_fuel
#print axioms CG.C05Json.loads_cases
#print axioms CG.C05Json.loads_dumpsF
#print axioms CG.C05Json.loads_dumpsF_distinct
#print axioms CG.C05Json.dumpsF_default
#print axioms CG.C05Json.loads_cj
#print axioms CG.C05Json.cj_injective
#print axioms CG.C05Json.sortPairs_perm_eq
#print axioms CG.C05Json.cj_obj_canonical
#print axioms CG.C05Json.cj_arr_congr
#print axioms CG.C05Json.scanstring_control
#print axioms CG.C05Json.scanstring_unterminated
