import CG.Proofs.C12Name
#print axioms CG.C12.parse_fmt
#print axioms CG.C12.format_var
#print axioms CG.C12.format_relag
#print axioms CG.C12.format_zero
#print axioms CG.C12.fmt_injective
