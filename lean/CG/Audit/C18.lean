import CG.Proofs.C18

#print axioms CG.C18.confounders_subset
#print axioms CG.C18.confounders_symm
#print axioms CG.C18.confounderSet_symm
#print axioms CG.C18.inputs_refused
#print axioms CG.C18.inputs_accepted
#print axioms CG.C18.witness_answer
#print axioms CG.C18.sufficiency_false
#print axioms CG.C18.confounders_empty_iff
