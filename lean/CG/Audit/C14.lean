import CG.Proofs.C14
import CG.Proofs.C14Idem
import CG.Proofs.C14Eq
import CG.Proofs.C08LaggedRoundTrip

#print axioms CG.C14.minimal_ok
#print axioms CG.C14.minimal_edges
#print axioms CG.C14.minimal_nodes
#print axioms CG.C14.minimal_meta
#print axioms CG.C14.minimal_hyp
#print axioms CG.C14.minimal_idem_shape
#print axioms CG.C14.minimal_idem
#print axioms CG.C14.isMinimal_of_minimal
#print axioms CG.C14.minimal_attrs
#print axioms CG.C14.isMinimal_iff
#print axioms CG.C14.isMinimal_ok
#print axioms CG.C14.isMinimal_eq_graphEq
#print axioms CG.C14.isMinimal_iff_graphEq
#print axioms CG.C14.isMinimal_ok_graphEq
#print axioms CG.C14.isMinimal_of_minimal_graphEq
#print axioms CG.C14.isMinimal_true_iff_structural
#print axioms CG.C14.isMinimal_true_iff
#print axioms CG.C14.isMinimal_true_iff_lag0
#print axioms CG.C14.minimal_no_reverse
#print axioms CG.C14.adjMatrices_eq
#print axioms CG.C14.adjMatrices_refuses_iff
