import CG.Proofs.C14
import CG.Proofs.C14Idem

#print axioms CG.C14.minimal_ok
#print axioms CG.C14.minimal_edges
#print axioms CG.C14.minimal_nodes
#print axioms CG.C14.minimal_meta
#print axioms CG.C14.minimal_hyp
#print axioms CG.C14.minimal_idem_shape
#print axioms CG.C14.minimal_idem
#print axioms CG.C14.isMinimal_of_minimal
#print axioms CG.C14.minimal_attrs
#print axioms CG.C14.isMinimal_iff
#print axioms CG.C14.isMinimal_ok
