import CG.Model.TS
