import CG.Proofs.C16
import CG.Proofs.C16Closed
import CG.Proofs.C16Idem

#print axioms CG.TS.tsGraphEqShallow_eq_graphEq
#print axioms CG.TS.tsEq_iff_structural
#print axioms CG.C16.stationary_def
#print axioms CG.C16.stationary_no_nodes
#print axioms CG.C16.stationary_ok
#print axioms CG.C16.stationary_contains
#print axioms CG.C16.stationary_nodes
#print axioms CG.C16.stationary_window
#print axioms CG.C16.stationary_edges
#print axioms CG.C16.stationary_complete
#print axioms CG.C16.stationary_hyp
#print axioms CG.C16.stationary_is_stationary
#print axioms CG.C16.stationary_idem
#print axioms CG.C16.stationary_least
#print axioms CG.C16.isStationary_def
#print axioms CG.C16.isStationary_nonDag
#print axioms CG.C16.isStationary_true_iff
#print axioms CG.C16.isStationary_ok
#print axioms CG.C16.isStationary_iff
#print axioms CG.C16.isStationary_iff_stationary
#print axioms CG.C16.isStationary_iff_nothing_missing
#print axioms CG.C16.isStationary_of_stationaryGraph

#print axioms CG.C16.extendSpec
#print axioms CG.C15.extend_eq_unroll
#print axioms CG.C16.stationary_meta
#print axioms CG.C16.stationary_edge_uniform
#print axioms CG.C16.stationary_keeps_minimal
#print axioms CG.C16.stationary_nodeConsistent
#print axioms CG.C16.stationary_varConsistent
#print axioms CG.C16.stationary_idem_attrs
#print axioms CG.C16.stationary_idem_state
#print axioms CG.C16.stationary_idem_full
#print axioms CG.C16.stationary_idem_twice
#print axioms CG.C16.stationary_idem_statement_false
