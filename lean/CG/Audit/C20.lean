import CG.Proofs.C20

#print axioms CG.C20.mb_eq
#print axioms CG.C20.mb_shields
#print axioms CG.C20.mb_minimal
#print axioms CG.C20.mb_shields_dag
#print axioms CG.C20.mb_minimal_dag
#print axioms CG.C20.self_not_mem_mb
#print axioms CG.C20.identifyMarkovBoundary_ok_iff
#print axioms CG.C20.identifyMarkovBoundary_err
#print axioms CG.C20.mb_correct
#print axioms CG.C20.skeleton_mb_iff
#print axioms CG.C20.skeletonBoundary_ok_iff
#print axioms CG.C20.mem_potentialParents
#print axioms CG.C20.nodup_potentialParents
#print axioms CG.C20.colliders_iff_count
#print axioms CG.C20.colliders_iff
#print axioms CG.C20.colliders_unshielded_iff
