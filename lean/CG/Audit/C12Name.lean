import CG.Proofs.C12Name

#print axioms CG.C12.parse_fmt
#print axioms CG.C12.format_var
#print axioms CG.C12.format_relag
#print axioms CG.C12.format_zero
#print axioms CG.C12.fmt_injective
#print axioms CG.C12.parseL_fmtL
#print axioms CG.C12.formatL_var
#print axioms CG.C12.formatL_relag
#print axioms CG.C12.fmtL_zero
#print axioms CG.C12.fmtL_injective
#print axioms CG.Name.search_fmt
#print axioms CG.Name.noMarker_iff
