import CG.Proofs.C17

#print axioms CG.C17.summary_total
#print axioms CG.C17.summary_nodes
#print axioms CG.C17.summary_edges
