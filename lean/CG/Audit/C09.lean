import CG.Proofs.C09

#print axioms CG.C09.sk_nodes
#print axioms CG.C09.sk_edges_iff
#print axioms CG.C09.sk_adj_iff
#print axioms CG.C09.sk_adj_symm
#print axioms CG.C09.sk_exists_comm
#print axioms CG.C09.sk_exists_iff
#print axioms CG.C09.sk_get_edge_iff
#print axioms CG.C09.sk_get_edge_comm
#print axioms CG.C09.sk_neighbors_iff
#print axioms CG.C09.sk_follows
#print axioms CG.C09.sk_dict_round_trip
#print axioms CG.C09.sk_matrix_round_trip
#print axioms CG.C09.sk_networkx_matrix
