import CG.Proofs.Basics
#print axioms CG.failed_stepRef_unchanged
