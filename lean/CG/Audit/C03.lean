import CG.Proofs.WFRun
import CG.Proofs.Basics
import CG.Proofs.C03

#print axioms CG.failed_stepRef_unchanged
#print axioms CG.C03.step_eq_stepRef
#print axioms CG.C03.failed_step_unchanged
#print axioms CG.C03.failed_stepRef_unchanged
#print axioms CG.C03.setEdgeImpl_eq
#print axioms CG.C03.setEdgeImpl_eq_of_mem
#print axioms CG.C03.addEdgeImpl_eq
#print axioms CG.C03.changeEdgeTypeImpl_eq
#print axioms CG.C03.replaceEdgeImpl_eq
#print axioms CG.C03.addTimeEdgeImpl_eq
#print axioms CG.C03.replaceNodeBaseImpl_eq
#print axioms CG.C03.replaceNodeImpl_eq
#print axioms CG.C03.addEdge_restore
#print axioms CG.C03.copyEdgesImpl_spec
#print axioms CG.C03.Ex.step_fails
#print axioms CG.wf_run_all
