import CG.Proofs.C10NxTopo
import CG.Proofs.WFRun
import CG.Proofs.C02Core
import CG.Proofs.Basics
#print axioms CG.C02.selfDep_iff
#print axioms CG.C02.selfDep_congr
#print axioms CG.C02.anySelfDep_eq_none_iff
#print axioms CG.C02.anySelfDep_eq_none_iff'
#print axioms CG.C02.anySelfDep_eq_some_iff
#print axioms CG.C02.acyclicB_iff
#print axioms CG.C02.acyclicB_iff'
#print axioms CG.C02.acyclicB_eq_isNone
#print axioms CG.C02.acyclic_insert_iff
#print axioms CG.C02.acyclic_insert
#print axioms CG.C02.acyclic_insert_self
#print axioms CG.C02.selfDep_insert_iff
#print axioms CG.C02.selfDep_insert_iff_cyclic
#print axioms CG.C02.selfDep_insert_iff_of_mem
#print axioms CG.C02.acyclic_of_subset
#print axioms CG.C02.acyclic_erase
#print axioms CG.C02.acyclic_filter
#print axioms CG.C02.acyclic_congr
#print axioms CG.C02.acyclic_of_rank
#print axioms CG.selfDepR_iff
#print axioms CG.acyclic_ins_iff
#print axioms CG.setEdge_rejects_iff
#print axioms CG.setEdge_accepts_iff
#print axioms CG.setEdge_nondirected_no_cycle_error
#print axioms CG.addEdge_cyclic_iff
#print axioms CG.acyclic_stepRef
#print axioms CG.acyclic_runRef
#print axioms CG.isDag_iff

#print axioms CG.NxTopoProofs.nxIsDag_iff
#print axioms CG.NxTopoProofs.nxIsDag_eq_acyclicB
#print axioms CG.NxTopoProofs.nxIsDag_total
