import CG.Proofs.Basics
#print axioms CG.selfDepR_iff
