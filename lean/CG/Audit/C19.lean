import CG.Proofs.C19

#print axioms CG.C19.mediators_eq
#print axioms CG.C19.mediators_error_iff
#print axioms CG.C19.mediators_empty_when_reversed
#print axioms CG.C19.instruments_ancestor
#print axioms CG.C19.instruments_no_direct
#print axioms CG.C19.instruments_ne_destination
#print axioms CG.C19.instruments_empty_when_reversed
#print axioms CG.C19.instruments_no_confounder
#print axioms CG.C19.instruments_unrelated_to_confounders
#print axioms CG.C19.instruments_error_iff
#print axioms CG.C19.instruments_dsep
