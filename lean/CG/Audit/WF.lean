import CG.Proofs.WFStep
import CG.Proofs.AcyclicStep
import CG.Proofs.C13Inv
import CG.Proofs.WFRun

#print axioms CG.wf_empty
#print axioms CG.wf_stepRef
#print axioms CG.wf_runRef
#print axioms CG.wf_runRef_empty
#print axioms CG.wf_run
#print axioms CG.ts_identity_coherent
#print axioms CG.ts_edges_forward
#print axioms CG.stepRef_chain
#print axioms CG.selfDepR_iff
#print axioms CG.selfDepR_false_iff
#print axioms CG.acyclic_ins_iff
#print axioms CG.setEdge_rejects_iff
#print axioms CG.setEdge_accepts_iff
#print axioms CG.setEdge_nondirected_no_cycle_error
#print axioms CG.addEdge_cyclic_iff
#print axioms CG.acyclic_stepRef
#print axioms CG.acyclic_runRef
#print axioms CG.isDag_iff
#print axioms CG.replaceNodeBase_exact
#print axioms CG.C13.no_directed_edge_backwards
#print axioms CG.C13.directed_edge_forward
#print axioms CG.C13.history_no_edge_backwards
#print axioms CG.C13.addEdge_against_time_refused
#print axioms CG.C13.addEdge_against_time_refused'
#print axioms CG.C13.addTimeEdge_against_time_refused
#print axioms CG.C13.changeEdgeType_against_time_refused
#print axioms CG.C13.changeEdgeType_reverse_key
#print axioms CG.C13.replaceEdge_against_time_refused
#print axioms CG.C13.replaceNode_against_time_refused
#print axioms CG.C13.replaceNode_accepted
#print axioms CG.C13.replaceNode_relag_against_time_refused
#print axioms CG.wf_run_all
#print axioms CG.wf_run_empty
#print axioms CG.acyclic_run
#print axioms CG.run_no_edge_backwards
#print axioms CG.run_identity_coherent
