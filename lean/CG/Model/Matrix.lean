/-
C08: matrix / networkx / GML / skeleton interchange, and the lagged matrices of the time-series class.

Python transcribed (cai_causal_graph 0.5.x, `causal_graph.py`, `time_series_causal_graph.py`):

* `adjacency_matrix`     zeros, then one pass over `self.edges` (sorted): `->` sets `[src, dst]`, `--` sets both,
                         anything else raises `TypeError`; row / column order = `get_node_names()` (sorted)
* `to_numpy`             first a pass over the edges raising `TypeError` on a type outside {->, --}, then the pair
                         (`adjacency_matrix`, `get_node_names()`)
* `to_networkx`          `GraphConversionError` unless fully directed or fully undirected; `is_fully_directed` is
                         tested FIRST, so a graph without edges becomes a `DiGraph`; nodes = sorted names, one
                         networkx edge per stored pair
* `to_gml_string`        `GraphConversionError` when some edge type is outside {->, --}; then `to_networkx()`, which
                         still refuses a mixture of `->` and `--`
* `from_adjacency_matrix`  2-D check, square check, binary check (`InvalidAdjacencyMatrixError`), name count
                         (`assert` → `AssertionError`), default names `node_i`, `add_nodes_from` (duplicate →
                         `NodeDuplicatedError`; time-series class: unparsable name → `ValueError`), the
                         `itertools.combinations(range(n), 2)` scan choosing `i -> j`, `j -> i` or `i -- j` with
                         `validate=False` (time-series class: a directed entry against time → `ValueError`, an
                         undirected one is stored from the earlier to the later node), then — only when `validate` —
                         EVERY node is checked for lying on a directed cycle (`CyclicConnectionError`).
                         The diagonal is never read.
* `from_networkx`        `from_adjacency_matrix(networkx.to_numpy_array(g), list(g.nodes()), validate)`
* `from_skeleton`        `from_networkx(skeleton.to_networkx(), validate)`
* `from_gml_string`      `from_networkx(networkx.parse_gml(text), validate)` — the GML text layer is not modelled:
                         `parse_gml(generate_gml(x))` is taken to be `x` on the abstract value (measured by the lane)
* `from_adjacency_matrices(…, construct_minimal=False)`  block matrix + `from_adjacency_matrix`
* `adjacency_matrices`   the matrix view of the minimal graph (the minimal graph itself is modelled elsewhere)
* `to_numpy_by_lag`      (`adjacency_matrices`, variables of the minimal graph)

networkx is a parameter with recorded assumed behaviour: the abstract value `NX` (directed?, `g.nodes()` in order,
edge pairs) and `nxToNumpy` (`networkx.to_numpy_array`: node order = `g.nodes()` order, entry 1 for an edge, an
undirected edge fills both entries; edge weights other than the default 1 are outside the abstract value).

Matrix entries are `Nat`: `0`, `1`, and anything else stands for a non-binary entry (2, -1, 0.5, …).

No Mathlib: this file is linked into the driver.
-/
import CG.Model.Views

namespace CG.Mx
open CG Std

abbrev Mat := List (List Nat)

def zeros (r c : Nat) : Mat := List.replicate r (List.replicate c 0)

/-- `M[i, j]` (0 outside the matrix) -/
def cell (M : Mat) (i j : Nat) : Nat := ((M[i]?).bind (fun row => row[j]?)).getD 0

/-- `M[i, j] = 1` (nothing outside the matrix) -/
def setCell (M : Mat) (i j : Nat) : Mat :=
  match M[i]? with
  | some row => M.set i (row.set j 1)
  | none => M

/-! ### export -/

/-- the loop of `adjacency_matrix` over the sorted edge list -/
def adjFill (names : List String) : Mat → List (EKey × EdgeRec) → Except Err Mat
  | M, [] => .ok M
  | M, (k, r) :: rest =>
    match r.ty with
    | .directed => adjFill names (setCell M (names.idxOf k.1) (names.idxOf k.2)) rest
    | .undirected =>
      adjFill names (setCell (setCell M (names.idxOf k.1) (names.idxOf k.2)) (names.idxOf k.2) (names.idxOf k.1)) rest
    | _ => .error .typeError

/-- `graph.adjacency_matrix` -/
def adjacencyMatrix (g : Graph) : Except Err Mat :=
  adjFill g.nodes.keys (zeros g.nodes.keys.length g.nodes.keys.length) g.edges.toList

def dirOrUndir (t : EdgeType) : Bool := t = .directed || t = .undirected

/-- `graph.to_numpy()` -/
def toNumpy (g : Graph) : Except Err (Mat × List String) :=
  if g.edges.toList.any (fun kv => !dirOrUndir kv.2.ty) then .error .typeError
  else (adjacencyMatrix g).map (fun M => (M, g.nodes.keys))

/-- abstract `networkx.Graph` / `networkx.DiGraph` -/
structure NX where
  directed : Bool
  nodes    : List String
  edges    : List (String × String)
  deriving DecidableEq, Repr, Inhabited

/-- `graph.to_networkx()` -/
def toNetworkx (g : Graph) : Except Err NX :=
  let fd := isFullyDirected g
  let fu := isFullyUndirected g
  if !fd && !fu then .error .graphConversion
  else if fd then .ok { directed := true, nodes := g.nodes.keys, edges := g.edges.keys }
  else .ok { directed := false, nodes := g.nodes.keys, edges := g.edges.keys }

/-- the first test of `to_gml_string` -/
def toGmlCheck (g : Graph) : Option Err :=
  if g.edges.toList.any (fun kv => !dirOrUndir kv.2.ty) then some .graphConversion else none

/-- `graph.to_gml_string()` up to the text layer: the networkx value that is written -/
def toGml (g : Graph) : Except Err NX :=
  match toGmlCheck g with
  | some e => .error e
  | none => toNetworkx g

/-- `Skeleton.to_networkx()`: always a `networkx.Graph` -/
def skeletonToNetworkx (g : Graph) : NX := { directed := false, nodes := g.nodes.keys, edges := g.edges.keys }

/-- assumed behaviour of `networkx.to_numpy_array(x)` -/
def nxEntry (x : NX) (a b : String) : Nat :=
  if x.edges.contains (a, b) || (!x.directed && x.edges.contains (b, a)) then 1 else 0

def nxToNumpy (x : NX) : Mat := x.nodes.map (fun a => x.nodes.map (fun b => nxEntry x a b))

/-! ### import -/

/-- the array handed to `from_adjacency_matrix`: only a 2-D array has rows -/
inductive Arr
  | d1 (xs : List Nat)
  | d2 (rows : Mat)
  | d3 (blocks : List Mat)
  deriving Repr

/-- `adjacency.shape[0] == adjacency.shape[1]` for a rectangular 2-D array -/
def isSquare (rows : Mat) : Bool := rows.all (fun r => r.length = rows.length)

/-- `numpy.array_equal(adjacency, adjacency.astype(bool))` -/
def isBinary (rows : Mat) : Bool := rows.all (fun r => r.all (fun x => x ≤ 1))

/-- `[f'node_{i}' for i in range(n)]` -/
def autoNames (n : Nat) : List String := (List.range n).map (fun i => "node_" ++ toString i)

/-- `itertools.combinations(range(n), 2)` -/
def scanPairs (n : Nat) : List (Nat × Nat) :=
  (List.range n).flatMap (fun i => ((List.range n).filter (fun j => i < j)).map (fun j => (i, j)))

/-- one iteration of the scan -/
def scanStep (rows : Mat) (names : List String) (g : Graph) (p : Nat × Nat) : Except Err Graph :=
  let a := cell rows p.1 p.2
  let b := cell rows p.2 p.1
  let ni := names.getD p.1 ""
  let nj := names.getD p.2 ""
  if a ≠ 0 && b = 0 then addEdge g ni nj .directed [] false
  else if a = 0 && b ≠ 0 then addEdge g nj ni .directed [] false
  else if a ≠ 0 && b ≠ 0 then addEdge g ni nj .undirected [] false
  else .ok g

/-- the deferred validation: `for node in nodes: graph._assert_node_does_not_depend_on_itself(node)` -/
def anyOnCycle (g : Graph) (names : List String) : Bool := names.any (fun n => selfDepR g.dirEdges n)

/-- `cls.from_adjacency_matrix(rows, names?, validate)` for a 2-D array; on an error the graph built so far -/
def fromAdjacencyMatrix (c : GraphClass) (rows : Mat) (names? : Option (List String)) (validate : Bool) :
    Graph × Option Err :=
  if !isSquare rows then (Graph.empty c, some .invalidAdjacency) else
  if !isBinary rows then (Graph.empty c, some .invalidAdjacency) else
  match (match names? with
         | some ns => if ns.length = rows.length then Except.ok ns else Except.error Err.assertionError
         | none => Except.ok (autoNames rows.length)) with
  | .error e => (Graph.empty c, some e)
  | .ok names =>
    match addNodesFrom (Graph.empty c) names with
    | (g1, some e) => (g1, some e)
    | (g1, none) =>
      match bulk (scanStep rows names) g1 (scanPairs names.length) with
      | (g2, some e) => (g2, some e)
      | (g2, none) => if validate && anyOnCycle g2 names then (g2, some .cyclicConnection) else (g2, none)

/-- `cls.from_adjacency_matrix` for an array of any dimension -/
def fromAdjacencyArray (c : GraphClass) (a : Arr) (names? : Option (List String)) (validate : Bool) :
    Graph × Option Err :=
  match a with
  | .d2 rows => fromAdjacencyMatrix c rows names? validate
  | _ => (Graph.empty c, some .invalidAdjacency)

/-- `cls.from_networkx(x, validate)` -/
def fromNetworkx (c : GraphClass) (x : NX) (validate : Bool) : Graph × Option Err :=
  fromAdjacencyMatrix c (nxToNumpy x) (some x.nodes) validate

/-- `cls.from_skeleton(g.skeleton, validate)` -/
def fromSkeleton (c : GraphClass) (g : Graph) (validate : Bool) : Graph × Option Err :=
  fromNetworkx c (skeletonToNetworkx g) validate

/-! ### lagged matrices -/

/-- position of a time delta in the (ordered) dictionary -/
def deltaIndex (mats : List (Int × Mat)) (δ : Int) : Nat := (mats.map (·.1)).idxOf δ

/-- the `(row, column)` pairs of `numpy.where(A)` -/
def nonzeroCells (A : Mat) : List (Nat × Nat) :=
  (A.zipIdx).flatMap (fun ri => ((ri.1.zipIdx).filter (fun cj => cj.1 ≠ 0)).map (fun cj => (ri.2, cj.2)))

/-- the block matrix: entry `(idx δ + T·row, idx 0 + T·column)` for every non-zero entry of the matrix of `δ` -/
def fullMatrix (mats : List (Int × Mat)) (R : Nat) : Mat :=
  let T := mats.length
  mats.foldl (fun M dm =>
    (nonzeroCells dm.2).foldl (fun M rc => setCell M (deltaIndex mats dm.1 + T * rc.1) (deltaIndex mats 0 + T * rc.2)) M)
    (zeros (R * T) (R * T))

def optAll {α : Type} : List (Option α) → Option (List α)
  | [] => some []
  | none :: _ => none
  | some x :: rest => (optAll rest).map (x :: ·)

/-- `TimeSeriesCausalGraph.from_adjacency_matrices(mats, names?, construct_minimal=False, validate)`:
    everything up to (not including) `get_minimal_graph()`.  `mats` is the dictionary in its own order. -/
def fromAdjacencyMatricesFull (mats : List (Int × Mat)) (names? : Option (List String)) (validate : Bool) :
    Graph × Option Err :=
  let shapes := mats.map (fun dm => (dm.2.length, (dm.2.headD []).length))
  match shapes with
  | [] => (Graph.empty .ts, some .assertionError)            -- `len(set(shapes)) == 1` fails on no matrix at all
  | shape :: _ =>
    if !shapes.all (fun s => s = shape) then (Graph.empty .ts, some .assertionError) else
    let R := shape.1
    let mats' := if mats.any (fun dm => dm.1 = 0) then mats else mats ++ [(0, zeros R R)]
    match (match names? with
           | some ns => if ns.length = R then Except.ok ns else Except.error Err.assertionError
           | none => Except.ok (autoNames R)) with
    | .error e => (Graph.empty .ts, some e)
    | .ok vars =>
      match optAll (vars.flatMap (fun v => mats'.map (fun dm => Name.format v dm.1))) with
      | none => (Graph.empty .ts, some .valueError)
      | some nodeNames =>
        -- an entry in a column ≥ number of rows indexes outside the block matrix
        if mats'.any (fun dm => (nonzeroCells dm.2).any (fun rc => rc.2 ≥ R)) then (Graph.empty .ts, some .indexError)
        else fromAdjacencyMatrix .ts (fullMatrix mats' R) (some nodeNames) validate

/-- add one entry to the dictionary of lag matrices (a new key goes to the end) -/
def lagSet (V : Nat) (acc : List (Int × Mat)) (lag : Int) (i j : Nat) : List (Int × Mat) :=
  if acc.any (fun dm => dm.1 = lag) then acc.map (fun dm => if dm.1 = lag then (dm.1, setCell dm.2 i j) else dm)
  else acc ++ [(lag, setCell (zeros V V) i j)]

/-- the loop of `adjacency_matrices` over the edges of the (already minimal) graph `m` -/
def lagFill (m : Graph) (vars : List String) : List (Int × Mat) → List (EKey × EdgeRec) → Except Err (List (Int × Mat))
  | acc, [] => .ok acc
  | acc, (k, r) :: rest =>
    let s := (m.nodes[k.1]?).getD default
    let d := (m.nodes[k.2]?).getD default
    let i := vars.idxOf s.var
    let j := vars.idxOf d.var
    match r.ty with
    | .directed => lagFill m vars (lagSet vars.length acc s.lag i j) rest
    | .undirected => lagFill m vars (lagSet vars.length (lagSet vars.length acc s.lag i j) s.lag j i) rest
    | _ => .error .typeError

/-- `adjacency_matrices` computed from the minimal graph `m` (dictionary in insertion order) -/
def adjacencyMatricesOf (m : Graph) : Except Err (List (Int × Mat)) :=
  lagFill m (variables m) [] m.edges.toList

/-- `to_numpy_by_lag()` computed from the minimal graph `m` -/
def toNumpyByLagOf (m : Graph) : Except Err (List (Int × Mat) × List String) :=
  (adjacencyMatricesOf m).map (fun d => (d, variables m))

end CG.Mx
