/-
Invalid `variable_type` arguments (`add_node`, `replace_node`): an unknown string makes the enum conversion of the
`Node.variable_type` setter raise `ValueError`, any other object makes it raise `TypeError`.  The functions below
say which check of the code fires first; every path returns the graph unchanged (the setter runs before any
write — this is what a seeded change that moved the metadata assignment in front of the setter broke).
-/
import CG.Model.OpsImpl

namespace CG

/-- the `variable_type` argument as the caller passed it -/
inductive VtArg
  | ok (v : Option VType)     -- a valid member (or `None`)
  | badStr                    -- a string that is not a member value
  | badObj                    -- neither a string nor a member
  deriving Repr

def VtArg.err : VtArg → Option Err
  | .ok _ => none
  | .badStr => some .valueError
  | .badObj => some .typeError

/-- the new identifier `replace_node` works with, after the time-series override looked at (time_lag, variable_name) -/
def resolveNew (g : Graph) (n : String) (new? : Option String) (lag? : Option Int) (var? : Option String) :
    Except Err (Option String) :=
  match g.cls with
  | .plain => .ok new?
  | .ts =>
    match new? with
    | some new => if lag?.isSome || var?.isSome then .error .assertionError else .ok (some new)
    | none =>
      if lag?.isSome || var?.isSome then
        match Name.parse n with
        | none => .error .valueError
        | some (dv, dl) =>
          match Name.format (var?.getD dv) (lag?.getD dl) with
          | none => .error .valueError
          | some new => .ok (some new)
      else .ok none

/-- `replace_node` with an invalid `variable_type`: the argument checks of the override, the two existence
    assertions and (time-series) the name check of the new node precede the setter -/
def replaceNodeBadVt (g : Graph) (n : String) (new? : Option String) (lag? : Option Int) (var? : Option String)
    (e : Err) : Graph × Option Err :=
  match resolveNew g n new? lag? var? with
  | .error e' => (g, some e')
  | .ok new' =>
    if !g.hasNode n then (g, some .assertionError) else
    match new' with
    | none => (g, some e)
    | some new =>
      if g.hasNode new then (g, some .assertionError) else
      match g.cls with
      | .ts => if (Name.parse new).isNone then (g, some .valueError) else (g, some e)
      | .plain => (g, some e)

def replaceNodeV (g : Graph) (n : String) (new? : Option String) (lag? : Option Int) (var? : Option String)
    (vt : VtArg) (m? : Option Meta) : Graph × Option Err :=
  match vt with
  | .ok v => replaceNodeImpl g n new? lag? var? v m?
  | .badStr => replaceNodeBadVt g n new? lag? var? .valueError
  | .badObj => replaceNodeBadVt g n new? lag? var? .typeError

/-- `add_node(identifier, variable_type=<invalid>)`: the base class checks for a duplicate before it builds the node;
    the time-series class builds the node first (name check, then the setter) -/
def addNodeV (g : Graph) (id : String) (vt : VtArg) (m : Meta) : Graph × Option Err :=
  match vt with
  | .ok v => lift g (addNode g id (v.getD .unspecified) m)
  | bad =>
    let e := (bad.err).getD .valueError
    match g.cls with
    | .plain => if g.hasNode id then (g, some .nodeDuplicated) else (g, some e)
    | .ts => if (Name.parse id).isNone then (g, some .valueError) else (g, some e)

theorem replaceNodeBadVt_unchanged (g : Graph) (n : String) (new? : Option String) (lag? : Option Int)
    (var? : Option String) (e : Err) : (replaceNodeBadVt g n new? lag? var? e).1 = g := by
  unfold replaceNodeBadVt
  repeat' split
  all_goals rfl

end CG
