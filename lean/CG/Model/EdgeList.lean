/-
Edge-list graph foundations shared by the graph-theoretic models (no Mathlib, linked into the driver).

`E : List (α × α)` is a list of directed edges; `Rel E a b` says `(a, b) ∈ E`.
`RTC` / `TC` are the reflexive-transitive / transitive closures (own three-line inductives so that model
files stay Mathlib-free).  `reach E a` is a fuel-free worklist search (terminates by the potential
`todo.length + #{edges whose source is unseen}`), proved sound and complete: `mem_reach_iff`.
-/
set_option linter.unusedSectionVars false

set_option linter.unusedSimpArgs false
namespace CG.EL
variable {α : Type} [DecidableEq α]

inductive RTC (R : α → α → Prop) : α → α → Prop
  | refl (a) : RTC R a a
  | tail {a b c} : RTC R a b → R b c → RTC R a c

theorem RTC.head {R : α → α → Prop} {a b c : α} (h : R a b) (h' : RTC R b c) : RTC R a c := by
  induction h' with
  | refl => exact .tail (.refl _) h
  | tail _ hbc ih => exact .tail ih hbc

inductive TC (R : α → α → Prop) : α → α → Prop
  | single {a b} : R a b → TC R a b
  | tail {a b c} : TC R a b → R b c → TC R a c

theorem TC.of_step_rtc {R : α → α → Prop} {a b c : α} (h : R a b) (h' : RTC R b c) : TC R a c := by
  induction h' with
  | refl => exact .single h
  | tail _ hbc ih => exact .tail ih hbc

theorem TC.split {R : α → α → Prop} {a c : α} (h : TC R a c) : ∃ b, R a b ∧ RTC R b c := by
  induction h with
  | single h => exact ⟨_, h, .refl _⟩
  | tail _ hbc ih => obtain ⟨b, h1, h2⟩ := ih; exact ⟨b, h1, .tail h2 hbc⟩

theorem TC.toRTC {R : α → α → Prop} {a c : α} (h : TC R a c) : RTC R a c := by
  induction h with
  | single h => exact .tail (.refl _) h
  | tail _ hbc ih => exact .tail ih hbc

theorem RTC.trans {R : α → α → Prop} {a b c : α} (h : RTC R a b) (h' : RTC R b c) : RTC R a c := by
  induction h' with
  | refl => exact h
  | tail _ hbc ih => exact .tail ih hbc

theorem RTC.cases_tc {R : α → α → Prop} {a c : α} (h : RTC R a c) : a = c ∨ TC R a c := by
  induction h with
  | refl => exact .inl rfl
  | tail _ hbc ih =>
    rcases ih with rfl | ih
    · exact .inr (.single hbc)
    · exact .inr (.tail ih hbc)

/-- the directed-edge relation has no cycle -/
def Acyclic (R : α → α → Prop) : Prop := ∀ n, ¬ TC R n n

def Rel (E : List (α × α)) (a b : α) : Prop := (a, b) ∈ E

def succs (E : List (α × α)) (a : α) : List α := (E.filter (fun e => e.1 = a)).map (·.2)

def preds (E : List (α × α)) (a : α) : List α := (E.filter (fun e => e.2 = a)).map (·.1)

/-- the edge list with every edge reversed -/
def rev (E : List (α × α)) : List (α × α) := E.map (fun e => (e.2, e.1))

theorem mem_succs {E : List (α × α)} {a b : α} : b ∈ succs E a ↔ Rel E a b := by
  unfold succs Rel
  simp only [List.mem_map, List.mem_filter, decide_eq_true_eq]
  constructor
  · rintro ⟨⟨x, y⟩, ⟨h1, h2⟩, h3⟩; simp at h2 h3; subst h2 h3; exact h1
  · intro h; exact ⟨(a, b), ⟨h, rfl⟩, rfl⟩

/-- edges whose source has not been marked yet -/
def pending (E : List (α × α)) (seen : List α) : Nat := E.countP (fun e => decide (e.1 ∉ seen))

theorem succs_length (E : List (α × α)) (a : α) : (succs E a).length = E.countP (fun e => decide (e.1 = a)) := by
  unfold succs; simp [List.countP_eq_length_filter]

theorem pending_cons (E : List (α × α)) (seen : List α) (a : α) (ha : a ∉ seen) :
    pending E (a :: seen) + (succs E a).length = pending E seen := by
  rw [succs_length]
  unfold pending
  induction E with
  | nil => simp
  | cons e E ih =>
    simp only [List.countP_cons]
    by_cases h1 : e.1 = a
    · have h2 : e.1 ∉ seen := by rw [h1]; exact ha
      have h3 : ¬ (e.1 ∉ a :: seen) := by simp [h1]
      simp only [h1, h2, h3, decide_true, decide_false, if_true, if_false] at ih ⊢
      simp_all
      omega
    · by_cases h2 : e.1 ∈ seen
      · have h3 : ¬ (e.1 ∉ a :: seen) := by simp [h2]
        simp_all
      · have h3 : e.1 ∉ a :: seen := by simp [h1, h2]
        simp_all
        omega

/-- worklist search; returns the final `seen` list -/
def go (E : List (α × α)) (todo seen : List α) : List α :=
  match todo with
  | [] => seen
  | a :: todo =>
    if h : a ∈ seen then go E todo seen
    else go E (succs E a ++ todo) (a :: seen)
termination_by todo.length + pending E seen
decreasing_by
  · simp
  · have := pending_cons E seen a h
    simp only [List.length_append, List.length_cons]
    omega

/-- soundness -/
theorem go_sound (E : List (α × α)) (P : α → Prop) (hclosed : ∀ a b, P a → Rel E a b → P b)
    (todo seen : List α) (ht : ∀ a ∈ todo, P a) (hs : ∀ a ∈ seen, P a) : ∀ b ∈ go E todo seen, P b := by
  induction todo, seen using go.induct (E := E) with
  | case1 seen => intro b hb; rw [go] at hb; exact hs b hb
  | case2 seen a todo h ih =>
    intro b hb; rw [go] at hb; simp only [h, dite_true] at hb
    exact ih (fun x hx => ht x (List.mem_cons_of_mem _ hx)) hs b hb
  | case3 seen a todo h ih =>
    intro b hb; rw [go] at hb; simp only [h, dite_false] at hb
    refine ih ?_ ?_ b hb
    · intro x hx
      rcases List.mem_append.mp hx with h' | h'
      · exact hclosed a x (ht a List.mem_cons_self) (mem_succs.mp h')
      · exact ht x (List.mem_cons_of_mem _ h')
    · intro x hx
      rcases List.mem_cons.mp hx with h' | h'
      · subst h'; exact ht _ List.mem_cons_self
      · exact hs x h'

/-- monotonic: seen ⊆ result, todo ⊆ result, and the result is closed for every node whose
    successors were already accounted for -/
theorem go_complete (E : List (α × α)) (todo seen : List α)
    (hinv : ∀ a ∈ seen, ∀ b, Rel E a b → b ∈ seen ∨ b ∈ todo) :
    (∀ a ∈ seen, a ∈ go E todo seen) ∧ (∀ a ∈ todo, a ∈ go E todo seen) ∧
    (∀ a ∈ go E todo seen, ∀ b, Rel E a b → b ∈ go E todo seen) := by
  induction todo, seen using go.induct (E := E) with
  | case1 seen =>
    rw [go]
    refine ⟨fun a h => h, by simp, ?_⟩
    intro a ha b hab
    rcases hinv a ha b hab with h | h
    · exact h
    · simp at h
  | case2 seen a todo h ih =>
    rw [go]; simp only [h, dite_true]
    have := ih (by
      intro x hx b hxb
      rcases hinv x hx b hxb with h' | h'
      · exact Or.inl h'
      · rcases List.mem_cons.mp h' with h'' | h''
        · subst h''; exact Or.inl h
        · exact Or.inr h'')
    refine ⟨this.1, ?_, this.2.2⟩
    intro x hx
    rcases List.mem_cons.mp hx with h' | h'
    · subst h'; exact this.1 _ h
    · exact this.2.1 x h'
  | case3 seen a todo h ih =>
    rw [go]; simp only [h, dite_false]
    have := ih (by
      intro x hx b hxb
      rcases List.mem_cons.mp hx with h' | h'
      · subst h'; exact Or.inr (List.mem_append_left _ (mem_succs.mpr hxb))
      · rcases hinv x h' b hxb with h'' | h''
        · exact Or.inl (List.mem_cons_of_mem _ h'')
        · rcases List.mem_cons.mp h'' with h3 | h3
          · subst h3; exact Or.inl List.mem_cons_self
          · exact Or.inr (List.mem_append_right _ h3))
    refine ⟨fun x hx => this.1 x (List.mem_cons_of_mem _ hx), ?_, this.2.2⟩
    intro x hx
    rcases List.mem_cons.mp hx with h' | h'
    · subst h'; exact this.1 _ List.mem_cons_self
    · exact this.2.1 x (List.mem_append_right _ h')

def reach (E : List (α × α)) (a : α) : List α := go E [a] []

theorem mem_reach_iff (E : List (α × α)) (a b : α) : b ∈ reach E a ↔ RTC (Rel E) a b := by
  unfold reach
  constructor
  · intro h
    exact go_sound E (RTC (Rel E) a) (fun x y hx hxy => .tail hx hxy) [a] []
      (by intro x hx; simp at hx; subst hx; exact .refl _) (by simp) b h
  · intro h
    have hc := go_complete E [a] [] (by simp)
    induction h with
    | refl => exact hc.2.1 a (by simp)
    | tail _ hbc ih => exact hc.2.2 _ ih _ hbc

#print axioms mem_reach_iff
#eval reach [(1,2),(2,3),(3,1),(4,5)] 1
end CG.EL
