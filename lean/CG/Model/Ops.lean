/-
The public mutators of `CausalGraph` / `TimeSeriesCausalGraph`, call for call, with the checks in the order the
code performs them and the exception class each one raises.  A failing single-element mutator returns the
graph unchanged (`Except Err Graph`): this is the behaviour of the code after the `fix:` commits for D1–D5
(see DESIGN.md section 7), and it is what property C03 states.  The bulk adders stop at the first failing element
and keep what was added before it (`Graph × Option Err`).

No Mathlib: this file is linked into the driver.
-/
import CG.Model.Basic

namespace CG
open Std

/-! ### node construction -/

/-- `TimeSeriesNode(identifier=id, meta=m, variable_type=vt)`: (variable, lag) come from the identifier and
    override whatever the metadata said -/
def mkTsNode (id : String) (vt : VType) (m : Meta) : Except Err NodeRec :=
  match Name.parse id with
  | none => .error .valueError
  | some (v, l) => .ok { vtype := vt, md := m.tsStrip, var := v, lag := l }

def mkNode (c : GraphClass) (id : String) (vt : VType) (m : Meta) : Except Err NodeRec :=
  match c with
  | .plain => .ok { vtype := vt, md := m }
  | .ts => mkTsNode id vt m

def Graph.insNode (g : Graph) (id : String) (r : NodeRec) : Graph := { g with nodes := g.nodes.insert id r }

/-- `add_node(identifier, variable_type=, meta=)`.
    plain: duplicate check, insert.  ts: the node object is constructed first (`ValueError` for a name the
    grammar rejects), then the duplicate check of the base class runs. -/
def addNode (g : Graph) (id : String) (vt : VType) (m : Meta) : Except Err Graph := do
  let r ← mkNode g.cls id vt m
  if g.hasNode id then .error .nodeDuplicated else
  pure (g.insNode id r)

/-- `add_node(node=N)`: the base class checks for a duplicate first, then builds the node of the graph's class -/
def addNodeObj (g : Graph) (id : String) (vt : VType) (m : Meta) : Except Err Graph := do
  if g.hasNode id then .error .nodeDuplicated else
  let r ← mkNode g.cls id vt m
  pure (g.insNode id r)

/-- time-series `add_node(identifier?, variable_name?, time_lag?, …)` in all argument forms -/
def tsAddNode (g : Graph) (id? : Option String) (var? : Option String) (lag? : Option Int) (vt : VType) (m : Meta) :
    Except Err Graph :=
  match var?, lag? with
  | some v, some l =>
    -- both given: the identifier is rebuilt from them; a supplied identifier must match it.  The base class
    -- then builds the stored node from that identifier alone (duplicate check first, then the constructor,
    -- which re-derives variable and lag from the identifier)
    match Name.format v l with
    | none => .error .valueError
    | some rec =>
      match id? with
      | some i => if i ≠ rec then .error .assertionError else addNodeObj g rec vt m
      | none => addNodeObj g rec vt m
  | _, _ =>
    match id? with
    | some i =>
      if var?.isSome || lag?.isSome then .error .assertionError else addNode g i vt m
    | none => .error .valueError

/-! ### edges -/

def Graph.insEdge (g : Graph) (s d : String) (r : EdgeRec) : Graph := { g with edges := g.edges.insert (s, d) r }
def Graph.delEdgeRaw (g : Graph) (s d : String) : Graph := { g with edges := g.edges.erase (s, d) }

/-- the edge constructor: `TimeSeriesEdge` stores a non-directed edge from the earlier to the later node and
    refuses a directed edge against time; `Edge` keeps the caller's orientation -/
def orient (g : Graph) (s d : String) (ty : EdgeType) : Except Err (String × String) :=
  match g.cls with
  | .plain => .ok (s, d)
  | .ts =>
    if g.lagOf s > g.lagOf d then
      if ty ≠ .directed then .ok (d, s) else .error .valueError
    else .ok (s, d)

/-- an endpoint of `add_edge`: an identifier, or a `Node` object carrying variable type and metadata -/
structure Endpoint where
  id  : String
  obj : Option (VType × Meta) := none
  deriving Repr

/-- implicit creation of a missing endpoint: `add_node(id, meta=…)` for a string / bare `HasMetadata`,
    `add_node(node=N)` for a `Node` object -/
def ensureNode (g : Graph) (e : Endpoint) : Except Err Graph :=
  if g.hasNode e.id then .ok g else
  match e.obj with
  | none => addNode g e.id .unspecified []
  | some (vt, m) => addNodeObj g e.id vt m

/-- `_set_edge` after the constructor: reverse-key check, same-key check (D1 repair), insertion, cycle check
    with rollback -/
def setEdge (g : Graph) (s d : String) (r : EdgeRec) (validate : Bool) : Except Err Graph :=
  if g.hasEdge d s then .error .reverseEdgeExists else
  if g.hasEdge s d then .error .edgeDuplicated else
  let g' := g.insEdge s d r
  if validate && selfDepR g'.dirEdges d then .error .cyclicConnection else .ok g'

/-- `add_edge(source, destination, edge_type=, meta=, validate=)`; `sameObj` says that the two endpoint
    arguments compare equal in Python (`source == destination`): two strings / two `Node`s with the same
    identifier do, a `Node` and a string never do. -/
def addEdgeE (g : Graph) (s d : Endpoint) (ty : EdgeType) (m : Meta) (validate : Bool) : Except Err Graph := do
  if s.id = d.id then .error .cyclicConnection else
  let g1 ← ensureNode g s
  let g2 ← ensureNode g1 d
  if g.hasEdge s.id d.id then .error .edgeDuplicated else
  let (s', d') ← orient g2 s.id d.id ty
  setEdge g2 s' d' { ty := ty, md := m } validate

def addEdge (g : Graph) (s d : String) (ty : EdgeType) (m : Meta) (validate : Bool) : Except Err Graph :=
  addEdgeE g { id := s } { id := d } ty m validate

/-- `delete_edge(source, destination, edge_type=)` (also `remove_edge`, `remove_edge_by_pair`) -/
def deleteEdge (g : Graph) (s d : String) (ty? : Option EdgeType) : Except Err Graph :=
  if !g.hasNode s then .error .nodeDoesNotExist else
  if !g.hasNode d then .error .nodeDoesNotExist else
  match g.edges[(s, d)]? with
  | none => .error .edgeDoesNotExist
  | some r =>
    match ty? with
    | some t => if t = r.ty then .ok (g.delEdgeRaw s d) else .error .edgeDoesNotExist
    | none => .ok (g.delEdgeRaw s d)

/-- keys of the edges incident to `n`, in sorted order (as `delete_node` collects them) -/
def Graph.incident (g : Graph) (n : String) : List EKey :=
  (g.edgeList.filter (fun kv => kv.1.1 = n || kv.1.2 = n)).map (·.1)

def Graph.eraseEdges (g : Graph) (ks : List EKey) : Graph :=
  { g with edges := ks.foldl (fun acc k => acc.erase k) g.edges }

/-- the cascade of `delete_node` without the existence check -/
def Graph.delNodeRaw (g : Graph) (n : String) : Graph :=
  let g1 := g.eraseEdges (g.incident n)
  { g1 with nodes := g1.nodes.erase n }

/-- `delete_node(identifier)` / `remove_node`: `KeyError` for a missing node, cascade otherwise -/
def deleteNode (g : Graph) (n : String) : Except Err Graph :=
  if !g.hasNode n then .error .keyError else .ok (g.delNodeRaw n)

/-- `change_edge_type(source, destination, new_edge_type)`: delete-then-add; a rejected add restores the
    original edge (D2 repair) -/
def changeEdgeType (g : Graph) (s d : String) (nt : EdgeType) : Except Err Graph :=
  match g.edges[(s, d)]? with
  | none => .error .edgeDoesNotExist
  | some r =>
    if r.ty = nt then .ok g else do
    let g1 ← deleteEdge g s d (some r.ty)
    addEdge g1 s d nt r.md true

/-- `replace_edge(source, destination, new_source, new_destination, edge_type=, meta=)` -/
def replaceEdge (g : Graph) (s d ns nd : String) (ty? : Option EdgeType) (m? : Option Meta) : Except Err Graph :=
  match g.edges[(s, d)]? with
  | none => .error .edgeDoesNotExist
  | some r =>
    if g.hasEdge ns nd then .error .edgeExists else do
    let g1 ← deleteEdge g s d none
    addEdge g1 ns nd (ty?.getD r.ty) (m?.getD r.md) true

/-- edges into `n` sorted by source, edges out of `n` sorted by destination -/
def Graph.edgesTo (g : Graph) (n : String) : List (EKey × EdgeRec) := g.edgeList.filter (fun kv => kv.1.2 = n)
def Graph.edgesFrom (g : Graph) (n : String) : List (EKey × EdgeRec) := g.edgeList.filter (fun kv => kv.1.1 = n)

/-- copy a list of edges onto the new node, stopping at the first rejected one -/
def copyEdges (new : String) (inbound : Bool) : Graph → List (EKey × EdgeRec) → Except Err Graph
  | g, [] => .ok g
  | g, (k, r) :: rest => do
    let g' ← if inbound then addEdge g k.1 new r.ty r.md true else addEdge g new k.2 r.ty r.md true
    copyEdges new inbound g' rest

/-- base-class `replace_node(node_id, new_node_id?, variable_type=, meta=)` -/
def replaceNodeBase (g : Graph) (n : String) (new? : Option String) (vt? : Option VType) (m? : Option Meta) :
    Except Err Graph :=
  match g.nodes[n]? with
  | none => .error .assertionError
  | some r =>
    match new? with
    | none =>
      -- in place: the variable type is overwritten by the argument (callers that omit it pass the default
      -- `unspecified`; only an explicit `None` keeps the old one), metadata only when given;
      -- a time-series node keeps its own lag / variable (D10 repair)
      .ok (g.insNode n { r with vtype := vt?.getD r.vtype, md := match m? with
                                                    | some m => (match g.cls with | .ts => m.tsStrip | .plain => m)
                                                    | none => r.md })
    | some new =>
      if g.hasNode new then .error .assertionError else do
      let g1 ← addNode g new (vt?.getD r.vtype) (m?.getD r.md)
      let g2 ← copyEdges new true g1 (g1.edgesTo n)
      let g3 ← copyEdges new false g2 (g2.edgesFrom n)
      pure (g3.delNodeRaw n)

/-- `replace_node` of either class; the time-series override first turns (time_lag, variable_name) into the new
    identifier -/
def replaceNode (g : Graph) (n : String) (new? : Option String) (lag? : Option Int) (var? : Option String)
    (vt? : Option VType) (m? : Option Meta) : Except Err Graph :=
  match g.cls with
  | .plain => replaceNodeBase g n new? vt? m?
  | .ts =>
    match new? with
    | some new => if lag?.isSome || var?.isSome then .error .assertionError else replaceNodeBase g n (some new) vt? m?
    | none =>
      if lag?.isSome || var?.isSome then
        match Name.parse n with
        | none => .error .valueError
        | some (dv, dl) =>
          match Name.format (var?.getD dv) (lag?.getD dl) with
          | none => .error .valueError
          | some new => replaceNodeBase g n (some new) vt? m?
      else replaceNodeBase g n none vt? m?

/-- `add_time_edge(source_variable, source_time, destination_variable, destination_time, meta=, validate=)` -/
def addTimeEdge (g : Graph) (sv : String) (st : Int) (dv : String) (dt : Int) (m : Meta) (validate : Bool) :
    Except Err Graph :=
  match Name.format sv st, Name.format dv dt with
  | some s, some d => addEdge g s d .directed m validate
  | _, _ => .error .valueError

/-! ### bulk adders: stop at the first failure, keep what was added -/

def bulk {α : Type} (f : Graph → α → Except Err Graph) : Graph → List α → Graph × Option Err
  | g, [] => (g, none)
  | g, x :: xs =>
    match f g x with
    | .ok g' => bulk f g' xs
    | .error e => (g, some e)

def addNodesFrom (g : Graph) (ids : List String) : Graph × Option Err :=
  bulk (fun g i => addNode g i .unspecified []) g ids

def addEdgesFrom (g : Graph) (pairs : List (String × String)) (validate : Bool) : Graph × Option Err :=
  bulk (fun g p => addEdge g p.1 p.2 .directed [] validate) g pairs

def pairwise {α : Type} : List α → List (α × α)
  | a :: b :: rest => (a, b) :: pairwise (b :: rest)
  | _ => []

/-- a single path: edges already present (same orientation) are skipped silently -/
def addPath (g : Graph) (path : List String) (validate : Bool) : Graph × Option Err :=
  bulk (fun g p => if g.hasEdge p.1 p.2 then .ok g else addEdge g p.1 p.2 .directed [] validate) g (pairwise path)

/-- `add_edges_from_paths(paths, validate)` with a flat path -/
def addEdgesFromPath (g : Graph) (path : List String) (validate : Bool) : Graph × Option Err :=
  if path.isEmpty then (g, some .assertionError) else addPath g path validate

/-- … with a list of paths: the recursive call does not forward `validate` (always validated); an empty inner
    path raises the assertion of the recursive call -/
def addEdgesFromPaths (g : Graph) (paths : List (List String)) : Graph × Option Err :=
  if paths.isEmpty then (g, some .assertionError) else
  let rec go : Graph → List (List String) → Graph × Option Err
    | g, [] => (g, none)
    | g, p :: ps =>
      match addEdgesFromPath g p true with
      | (g', none) => go g' ps
      | (g', some e) => (g', some e)
  go g paths

def addFullyConnected (g : Graph) (ins outs : List String) : Graph × Option Err :=
  bulk (fun g p => addEdge g p.1 p.2 .directed [] true) g (ins.flatMap fun i => outs.map fun o => (i, o))

end CG
