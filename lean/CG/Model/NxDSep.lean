/-
Transcription of the algorithm `networkx.d_separated(G, x, y, z)` actually runs in networkx 3.2.1
(`networkx/algorithms/d_separation.py`), over `nodes : List α` (= `G.nodes`), `E : List (α × α)` (= `G.edges`) and the
three node collections.  No Mathlib.

```
    if not nx.is_directed_acyclic_graph(G): raise nx.NetworkXError(...)
    union_xyz = x.union(y).union(z)
    if any(n not in G.nodes for n in union_xyz): raise nx.NodeNotFound(...)
    G_copy = G.copy()
    leaves = deque([n for n in G_copy.nodes if G_copy.out_degree[n] == 0])
    while len(leaves) > 0:
        leaf = leaves.popleft()
        if leaf not in union_xyz:
            for p in G_copy.predecessors(leaf):
                if G_copy.out_degree[p] == 1:        # evaluated BEFORE the leaf is removed
                    leaves.append(p)
            G_copy.remove_node(leaf)
    edges_to_remove = list(G_copy.out_edges(z))
    G_copy.remove_edges_from(edges_to_remove)
    disjoint_set = UnionFind(G_copy.nodes())
    for component in nx.weakly_connected_components(G_copy): disjoint_set.union(*component)
    disjoint_set.union(*x)
    disjoint_set.union(*y)
    if x and y and disjoint_set[next(iter(x))] == disjoint_set[next(iter(y))]: return False
    else: return True
```

What is modelled literally: the copy `(N, Ec)` (node list, edge list), the deque (a list: pop at the head, append at the
tail), the order of the test `out_degree[p] == 1` (on the graph that still holds the leaf), `remove_node` (node and every
incident edge), the deletion of the out-edges of `z`, the two error checks and their order.

What is abstracted: `out_degree` / `predecessors` of a `DiGraph` count *distinct* neighbours (adjacency is a dict), hence
`eraseDups` (irrelevant when `E` has no repeated edge, which is what `G.edges` gives).  The union-find over the weakly
connected components followed by `union(*x)`, `union(*y)` and the comparison of the two representatives is replaced by
its closed form: the classes of `next(iter(x))` and `next(iter(y))` coincide iff SOME `a ∈ x` and SOME `b ∈ y` lie in the
same weakly connected component (the merged class of `x` is the union of the components that meet `x`, likewise for `y`;
the two unions are the same class iff they share a component).  `connected` is reachability in the symmetrised edge
list.  (`nxDSeparatedUF` below transcribes the partition manipulation itself; `CG.C11.nxDSeparatedUF_eq` proves the two
agree.)

One branch of `pruneLoop` is unreachable from `pruneLeaves`: a popped leaf that is no longer in the copy.  Python would
raise `NetworkXError` from `G_copy.predecessors(leaf)`; the model skips the entry.  `CG.NxPrune.pruneReach_leaf_present`
proves that this never happens on a run (every node enters the deque at most once).  The test `leaf ∈ N` is also what makes the
loop terminate without fuel: the measure is `(N.length, Q.length)`, lexicographic.
-/
import CG.Model.DSep
set_option linter.unusedSectionVars false
set_option linter.unusedSimpArgs false

namespace CG.NxDSep
variable {α : Type} [DecidableEq α]

open CG.EL (succs preds reach)
open CG.DSepDec (sym acyclicB)

/-- `G_copy.out_degree[p]`: the number of distinct successors of `p` in the copy -/
def outDegree (Ec : List (α × α)) (p : α) : Nat := (succs Ec p).eraseDups.length

/-- `G_copy.predecessors(v)`: the distinct predecessors of `v` in the copy, in edge order -/
def predecessors (Ec : List (α × α)) (v : α) : List α := (preds Ec v).eraseDups

/-- `G_copy.remove_node(v)`, node part -/
def removeNodeN (N : List α) (v : α) : List α := N.filter (fun n => n ≠ v)

/-- `G_copy.remove_node(v)`, edge part: every edge incident to `v` goes -/
def removeNodeE (Ec : List (α × α)) (v : α) : List (α × α) := Ec.filter (fun e => e.1 ≠ v ∧ e.2 ≠ v)

theorem removeNodeN_length_lt {N : List α} {v : α} (h : v ∈ N) : (removeNodeN N v).length < N.length := by
  unfold removeNodeN
  exact List.length_filter_lt_length_iff_exists.mpr ⟨v, h, by simp⟩

set_option linter.unusedVariables false in
/-- the `while len(leaves) > 0` loop: `U` = `union_xyz`, `(N, Ec)` = `G_copy`, `Q` = the deque `leaves` -/
def pruneLoop (U : List α) (N : List α) (Ec : List (α × α)) (Q : List α) : List α × List (α × α) :=
  match Q with
  | [] => (N, Ec)
  | leaf :: Q =>
    if leaf ∈ U then pruneLoop U N Ec Q
    else if h : leaf ∈ N then
      pruneLoop U (removeNodeN N leaf) (removeNodeE Ec leaf)
        (Q ++ (predecessors Ec leaf).filter (fun p => outDegree Ec p == 1))
    else pruneLoop U N Ec Q
termination_by (N.length, Q.length)
decreasing_by
  · exact Prod.Lex.right _ (by simp)
  · exact Prod.Lex.left _ _ (removeNodeN_length_lt h)
  · exact Prod.Lex.right _ (by simp)

/-- the deque is seeded with every node of out-degree 0, in node order -/
def initialLeaves (nodes : List α) (E : List (α × α)) : List α := nodes.filter (fun n => outDegree E n == 0)

/-- steps (1)–(2): the copy after all leaves outside `U` have been removed repeatedly -/
def pruneLeaves (nodes : List α) (E : List (α × α)) (U : List α) : List α × List (α × α) :=
  pruneLoop U nodes E (initialLeaves nodes E)

/-- step (3): `G_copy.remove_edges_from(list(G_copy.out_edges(z)))` -/
def dropOutEdges (Z : List α) (Ec : List (α × α)) : List (α × α) := Ec.filter (fun e => e.1 ∉ Z)

/-- same weakly connected component: reachability in the symmetrised edge list -/
def connected (E' : List (α × α)) (a b : α) : Bool := decide (b ∈ reach (sym E') a)

/-- the graph on which connectivity is tested -/
def finalEdges (nodes : List α) (E : List (α × α)) (X Y Z : List α) : List (α × α) :=
  dropOutEdges Z (pruneLeaves nodes E (X ++ Y ++ Z)).2

/-- `networkx.d_separated(G, x, y, z)` after its two checks -/
def nxDSeparated (nodes : List α) (E : List (α × α)) (X Y Z : List α) : Bool :=
  let E' := finalEdges nodes E X Y Z
  if !X.isEmpty && !Y.isEmpty && X.any (fun a => Y.any (fun b => connected E' a b)) then false else true

/-! ### the union-find step, transcribed (a partition as a list of blocks) -/

/-- `nx.weakly_connected_components(G_copy)`: one block per not-yet-seen node, in node order -/
def components (E' : List (α × α)) : List α → List α → List (List α)
  | [], _ => []
  | n :: N, seen =>
    if n ∈ seen then components E' N seen
    else
      let c := reach (sym E') n
      c :: components E' N (c ++ seen)

/-- `disjoint_set.union(*objs)`: the blocks that hold one of the objects are merged into one; an object the structure
    has not seen yet joins the merged block; no object, no change -/
def ufUnion (P : List (List α)) (objs : List α) : List (List α) :=
  let hit := P.filter (fun B => objs.any (fun o => o ∈ B))
  let miss := P.filter (fun B => !objs.any (fun o => o ∈ B))
  let fresh := objs.filter (fun o => !P.any (fun B => decide (o ∈ B)))
  if objs.isEmpty then P else (hit.flatten ++ fresh) :: miss

/-- `disjoint_set[a] == disjoint_set[b]` (an unseen object is its own singleton class) -/
def ufSame (P : List (List α)) (a b : α) : Bool :=
  decide (a = b) || P.any (fun B => decide (a ∈ B) && decide (b ∈ B))

/-- the last six lines of `d_separated`, with `next(iter(x))` = the head of the list -/
def nxDSeparatedUF (nodes : List α) (E : List (α × α)) (X Y Z : List α) : Bool :=
  let G := pruneLeaves nodes E (X ++ Y ++ Z)
  let E' := dropOutEdges Z G.2
  let P0 : List (List α) := G.1.map (fun n => [n])
  let P1 := (components E' G.1 []).foldl ufUnion P0
  let P2 := ufUnion P1 X
  let P3 := ufUnion P2 Y
  match X, Y with
  | a :: _, b :: _ => if ufSame P3 a b then false else true
  | _, _ => true

/-! ### the two checks in front -/

inductive NxErr
  | NetworkXError | NodeNotFound
  deriving DecidableEq, Repr

def NxErr.name : NxErr → String
  | .NetworkXError => "NetworkXError"
  | .NodeNotFound => "NodeNotFound"

/-- `networkx.d_separated` with its checks, in the order the code makes them -/
def dSeparated (nodes : List α) (E : List (α × α)) (X Y Z : List α) : Except NxErr Bool :=
  if !acyclicB E then .error .NetworkXError
  else if (X ++ Y ++ Z).any (fun n => decide (n ∉ nodes)) then .error .NodeNotFound
  else .ok (nxDSeparated nodes E X Y Z)

-- collider with a conditioned descendant, chain, fork; pruning of an irrelevant sink
#eval (nxDSeparated [1,2,3,4] [(1,2),(3,2),(2,4)] [1] [3] [4], nxDSeparated [1,2,3,4] [(1,2),(3,2),(2,4)] [1] [3] [],
       nxDSeparated [1,2,3] [(1,2),(2,3)] [1] [3] [2], nxDSeparated [1,2,3] [(1,2),(2,3)] [1] [3] [],
       (pruneLeaves [1,2,3,4] [(1,2),(3,2),(2,4)] [1,3]).1)
#eval (nxDSeparatedUF [1,2,3,4] [(1,2),(3,2),(2,4)] [1] [3] [4], nxDSeparatedUF [1,2,3,4] [(1,2),(3,2),(2,4)] [1] [3] [],
       nxDSeparatedUF [1,2,3] [(1,2),(2,3)] [1] [3] [2], nxDSeparatedUF [1,2,3] [(1,2),(2,3)] [1] [3] [])

end CG.NxDSep
