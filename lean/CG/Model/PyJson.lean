/-
C05, third-party half: CPython 3.12 `json.dumps` / `json.loads` with default arguments on JSON-representable trees
(`str`, unbounded `int`, `True` / `False` / `None`, `list`, `dict` with `str` keys).  Floats are NOT modelled.

Transcribed sources (python3.12/json): `encoder.py` (`py_encode_basestring_ascii`, `_make_iterencode` with the default
separators `', '` and `': '`), `decoder.py` (`py_scanstring` with strict=True, `JSONObject`, `JSONArray`,
`JSONDecoder.decode`), `scanner.py` (`py_make_scanner`, `NUMBER_RE`).  One `Char` = one Python code point; a text is
read as `List Char` and an index `end` of the Python source is the remaining suffix here.

Conventions of the transcription

* Every failure of the decoder is a `JSONDecodeError`; only the exception CLASS is mirrored, so the error positions
  are not computed.  Consequently every "fast path" of the source that only avoids a call of `WHITESPACE.match`
  (`if s[end] in _ws: end += 1; if s[end] in _ws: end = _w(s, end + 1).end()` and friends) is the one function
  `skipWs` here: they compute the same index.
* `JErr.unsupported`: the text is ACCEPTED by Python but the value is outside `JVal`: a number with a fraction or an
  exponent, `NaN` / `Infinity` / `-Infinity` (floats), or a `\uXXXX` escape that yields an unpaired surrogate (a Lean
  `String` holds Unicode scalar values only).  An error further on in the text has priority (Python raises, whatever
  came before), so `loads` first runs the decoder in strict mode, and when that stops with `unsupported` runs it
  again in a permissive mode (`perm = true`: a float reads as `null`, an unpaired surrogate as U+FFFD; neither changes
  what is consumed) just to see whether Python would have raised.
* `JErr.fuel` is never answered for the fuel `loads` passes (`2 * length + 2`; every recursive call has consumed a
  character); it is a separate constructor so that a violation would show up as a disagreement.
* Where the C accelerator (which `json.loads` really runs) and the pure-Python source differ, the C behaviour is
  modelled: `\uXXXX` takes exactly four characters of `[0-9a-fA-F]` (`py_scanstring` uses `int(esc, 16)`, which also
  takes `+1f2`, ` 1f2`, `1_f2`), and a digit of a number is `[0-9]` (`\d` of the pure-Python `NUMBER_RE` takes every
  Unicode decimal digit).
* Python's guard on huge int/str conversions (`sys.set_int_max_str_digits`, 4300 digits by default, a `ValueError`)
  and the recursion limit (`RecursionError` on very deep nesting) are interpreter limits, not modelled.
* `dumps` with `sort_keys=True` sorts `dict.items()` at every level (keys are distinct in a `dict`, so the order is
  the code-point order of the keys = the order of Lean `String`); `dumpsSorted v = dumps (sortKeys v)`.

No Mathlib: this file is linked into the driver.
-/
namespace CG.PyJson

inductive JVal where
  | null
  | bool (b : Bool)
  | int (i : Int)
  | str (s : String)
  | arr (xs : List JVal)
  /-- ordered association list: the insertion order of the `dict` -/
  | obj (kvs : List (String × JVal))
  deriving Inhabited

inductive JErr where
  | decodeError
  | unsupported
  | fuel
  deriving DecidableEq, Repr, Inhabited

def JErr.name : JErr → String
  | .decodeError => "JSONDecodeError"
  | .unsupported => "unsupported"
  | .fuel => "fuel"

/-! ## encoder -/

/-- `'{0:x}'.format(d)` for one digit -/
def hexDigit (d : Nat) : Char := if d < 10 then Char.ofNat (48 + d) else Char.ofNat (87 + d)

/-- `'{0:04x}'.format(n)` for `n < 0x10000` -/
def hex4 (n : Nat) : List Char :=
  [hexDigit (n / 4096 % 16), hexDigit (n / 256 % 16), hexDigit (n / 16 % 16), hexDigit (n % 16)]

/-- `'\\u{0:04x}'.format(n)` -/
def uEsc (n : Nat) : List Char := '\\' :: 'u' :: hex4 n

/-- `replace(match)` of `py_encode_basestring_ascii` for one character; `ESCAPE_ASCII = ([\\"]|[^\ -~])` leaves exactly
the printable ASCII characters other than `"` and `\` alone.  For an astral character
`s1 = 0xd800 | ((n >> 10) & 0x3ff)`, `s2 = 0xdc00 | (n & 0x3ff)` with `n = ord(c) - 0x10000 < 0x100000`, which is
`0xd800 + n / 1024` and `0xdc00 + n % 1024`. -/
def encodeChar (c : Char) : List Char :=
  if c = '"' then ['\\', '"']
  else if c = '\\' then ['\\', '\\']
  else if c = '\n' then ['\\', 'n']
  else if c = '\r' then ['\\', 'r']
  else if c = '\t' then ['\\', 't']
  else if c = Char.ofNat 8 then ['\\', 'b']
  else if c = Char.ofNat 12 then ['\\', 'f']
  else if 32 ≤ c.toNat ∧ c.toNat ≤ 126 then [c]
  else if c.toNat < 65536 then uEsc c.toNat
  else uEsc (55296 + (c.toNat - 65536) / 1024) ++ uEsc (56320 + (c.toNat - 65536) % 1024)

def encodeBody : List Char → List Char
  | [] => []
  | c :: cs => encodeChar c ++ encodeBody cs

/-- `py_encode_basestring_ascii(s)` -/
def encodeStringL (s : List Char) : List Char := '"' :: (encodeBody s ++ ['"'])

/-- decimal digits of a natural number, least significant first -/
def natDigitsRev (n : Nat) : List Char :=
  if n < 10 then [Char.ofNat (48 + n)] else Char.ofNat (48 + n % 10) :: natDigitsRev (n / 10)
termination_by n
decreasing_by omega

def natDigits (n : Nat) : List Char := (natDigitsRev n).reverse

/-- `int.__repr__` -/
def intText : Int → List Char
  | .ofNat n => natDigits n
  | .negSucc n => '-' :: natDigits (n + 1)

mutual
/-- `json.dumps(v)` (default arguments) as a list of characters -/
def dumpsL : JVal → List Char
  | .null => ['n', 'u', 'l', 'l']
  | .bool true => ['t', 'r', 'u', 'e']
  | .bool false => ['f', 'a', 'l', 's', 'e']
  | .int i => intText i
  | .str s => encodeStringL s.toList
  | .arr [] => ['[', ']']
  | .arr (x :: xs) => '[' :: (dumpsL x ++ arrTail xs)
  | .obj [] => ['{', '}']
  | .obj ((k, v) :: kvs) => '{' :: (encodeStringL k.toList ++ ':' :: ' ' :: (dumpsL v ++ objTail kvs))
/-- the text after the first element of a list: `, x` for every further element, then `]` -/
def arrTail : List JVal → List Char
  | [] => [']']
  | x :: xs => ',' :: ' ' :: (dumpsL x ++ arrTail xs)
/-- the text after the first item of a dict: `, "k": v` for every further item, then `}` -/
def objTail : List (String × JVal) → List Char
  | [] => ['}']
  | (k, v) :: kvs => ',' :: ' ' :: (encodeStringL k.toList ++ ':' :: ' ' :: (dumpsL v ++ objTail kvs))
end

def dumps (v : JVal) : String := String.ofList (dumpsL v)

/-- `sorted(dct.items())` on items with distinct keys: by key, code-point order -/
def sortPairs (kvs : List (String × JVal)) : List (String × JVal) :=
  kvs.mergeSort fun a b => decide (a.1 ≤ b.1)

mutual
/-- the value whose `dumps` is `json.dumps(v, sort_keys=True)`: every dict re-ordered by key, at every level -/
def sortKeys : JVal → JVal
  | .arr xs => .arr (sortKeysList xs)
  | .obj kvs => .obj (sortPairs (sortKeysPairs kvs))
  | v => v
def sortKeysList : List JVal → List JVal
  | [] => []
  | x :: xs => sortKeys x :: sortKeysList xs
def sortKeysPairs : List (String × JVal) → List (String × JVal)
  | [] => []
  | (k, v) :: kvs => (k, sortKeys v) :: sortKeysPairs kvs
end

def dumpsSortedL (v : JVal) : List Char := dumpsL (sortKeys v)

/-- `json.dumps(v, sort_keys=True)` -/
def dumpsSorted (v : JVal) : String := String.ofList (dumpsSortedL v)

/-! ## other formats: `separators`, `ensure_ascii=False`

`harness/impl.py` writes metadata values as `json.dumps(v, sort_keys=True, separators=(',', ':'), ensure_ascii=False)`
(`cj`).  `dumpsF` is the encoder for a format `Fmt`: the item separator is `w1 ++ "," ++ w2`, the key separator
`w3 ++ ":" ++ w4` (Python takes arbitrary strings; the default is `w2 = w4 = " "`, the compact form has all four
empty), and `ascii = false` selects `py_encode_basestring`, whose `ESCAPE = [\x00-\x1f\\"\b\f\n\r\t]` escapes only the
control characters, the quote and the backslash. -/

structure Fmt where
  ascii : Bool
  w1 : List Char
  w2 : List Char
  w3 : List Char
  w4 : List Char

/-- `json.dumps(v)` -/
def Fmt.default : Fmt := ⟨true, [], [' '], [], [' ']⟩

/-- `json.dumps(v, separators=(',', ':'), ensure_ascii=False)` -/
def Fmt.compact : Fmt := ⟨false, [], [], [], []⟩

def Fmt.itemSep (fmt : Fmt) : List Char := fmt.w1 ++ ',' :: fmt.w2

def Fmt.keySep (fmt : Fmt) : List Char := fmt.w3 ++ ':' :: fmt.w4

/-- `replace(match)` of `py_encode_basestring` for one character -/
def encodeCharRaw (c : Char) : List Char :=
  if c = '"' then ['\\', '"']
  else if c = '\\' then ['\\', '\\']
  else if c = '\n' then ['\\', 'n']
  else if c = '\r' then ['\\', 'r']
  else if c = '\t' then ['\\', 't']
  else if c = Char.ofNat 8 then ['\\', 'b']
  else if c = Char.ofNat 12 then ['\\', 'f']
  else if c.toNat < 32 then uEsc c.toNat
  else [c]

def encodeBodyF (ascii : Bool) : List Char → List Char
  | [] => []
  | c :: cs => (if ascii then encodeChar c else encodeCharRaw c) ++ encodeBodyF ascii cs

def encodeStringF (fmt : Fmt) (s : List Char) : List Char := '"' :: (encodeBodyF fmt.ascii s ++ ['"'])

mutual
def dumpsF (fmt : Fmt) : JVal → List Char
  | .null => ['n', 'u', 'l', 'l']
  | .bool true => ['t', 'r', 'u', 'e']
  | .bool false => ['f', 'a', 'l', 's', 'e']
  | .int i => intText i
  | .str s => encodeStringF fmt s.toList
  | .arr [] => ['[', ']']
  | .arr (x :: xs) => '[' :: (dumpsF fmt x ++ arrTailF fmt xs)
  | .obj [] => ['{', '}']
  | .obj ((k, v) :: kvs) => '{' :: (encodeStringF fmt k.toList ++ (fmt.keySep ++ (dumpsF fmt v ++ objTailF fmt kvs)))
def arrTailF (fmt : Fmt) : List JVal → List Char
  | [] => [']']
  | x :: xs => fmt.itemSep ++ (dumpsF fmt x ++ arrTailF fmt xs)
def objTailF (fmt : Fmt) : List (String × JVal) → List Char
  | [] => ['}']
  | (k, v) :: kvs =>
    fmt.itemSep ++ (encodeStringF fmt k.toList ++ (fmt.keySep ++ (dumpsF fmt v ++ objTailF fmt kvs)))
end

/-- `cj(v)` of `harness/impl.py`: sorted keys, compact separators, non-ASCII characters written as they are -/
def cjL (v : JVal) : List Char := dumpsF Fmt.compact (sortKeys v)

def cj (v : JVal) : String := String.ofList (cjL v)

/-! ## decoder -/

/-- `WHITESPACE_STR = ' \t\n\r'` -/
def isWs (c : Char) : Bool := c = ' ' || c = '\t' || c = '\n' || c = '\r'

/-- `WHITESPACE.match(s, end).end()` -/
def skipWs : List Char → List Char
  | [] => []
  | c :: cs => if isWs c then skipWs cs else c :: cs

/-- one hexadecimal digit `[0-9a-fA-F]` -/
def hexVal? (c : Char) : Option Nat :=
  if 48 ≤ c.toNat ∧ c.toNat ≤ 57 then some (c.toNat - 48)
  else if 97 ≤ c.toNat ∧ c.toNat ≤ 102 then some (c.toNat - 87)
  else if 65 ≤ c.toNat ∧ c.toNat ≤ 70 then some (c.toNat - 55)
  else none

/-- `_decode_uXXXX`: the next four characters as a hexadecimal number, and what follows them -/
def hex4? : List Char → Option (Nat × List Char)
  | a :: b :: c :: d :: rest =>
    match hexVal? a, hexVal? b, hexVal? c, hexVal? d with
    | some x, some y, some z, some w => some (((x * 16 + y) * 16 + z) * 16 + w, rest)
    | _, _, _, _ => none
  | _ => none

/-- the `BACKSLASH` table -/
def backslash? (c : Char) : Option Char :=
  if c = '"' then some '"'
  else if c = '\\' then some '\\'
  else if c = '/' then some '/'
  else if c = 'b' then some (Char.ofNat 8)
  else if c = 'f' then some (Char.ofNat 12)
  else if c = 'n' then some '\n'
  else if c = 'r' then some '\r'
  else if c = 't' then some '\t'
  else none

/-- `s[end:end + 2] == '\\u'`: what follows the two characters -/
def stripU : List Char → Option (List Char)
  | a :: b :: rest => if a = '\\' ∧ b = 'u' then some rest else none
  | _ => none

/-- an unpaired surrogate: outside `JVal`; in permissive mode the scan goes on with U+FFFD -/
def lone (perm : Bool) (rest : List Char) : Except JErr (Char × List Char) :=
  if perm then .ok (Char.ofNat 65533, rest) else .error .unsupported

/-- The escape branch of `py_scanstring`: `cs` is the text after the backslash; the decoded character and the text
after the escape sequence.  A high surrogate directly followed by `\uXXXX` with a low surrogate is joined
(`0x10000 + (((uni - 0xd800) << 10) | (uni2 - 0xdc00))`); followed by `\u` and four characters that are not
hexadecimal it is an error (`_decode_uXXXX` raises); followed by anything else it stays unpaired. -/
def scanEscape (perm : Bool) : List Char → Except JErr (Char × List Char)
  | [] => .error .decodeError
  | e :: r1 =>
    if e = 'u' then
      match hex4? r1 with
      | none => .error .decodeError
      | some (n, r2) =>
        if 55296 ≤ n ∧ n ≤ 56319 then
          match stripU r2 with
          | none => lone perm r2
          | some r3 =>
            match hex4? r3 with
            | none => .error .decodeError
            | some (n2, r4) =>
              if 56320 ≤ n2 ∧ n2 ≤ 57343 then .ok (Char.ofNat (65536 + (n - 55296) * 1024 + (n2 - 56320)), r4)
              else lone perm r2
        else if 56320 ≤ n ∧ n ≤ 57343 then lone perm r2
        else .ok (Char.ofNat n, r2)
    else
      match backslash? e with
      | some ch => .ok (ch, r1)
      | none => .error .decodeError

/-- `py_scanstring(s, end, strict=True)`: `cs` is the text after the opening quote; `acc` holds the decoded characters
in reverse.  `STRINGCHUNK = (.*?)(["\\\x00-\x1f])`: plain characters up to the first quote, backslash or control
character; a control character is an error (strict).  Fuel: one unit per character or escape sequence. -/
def scanstr (perm : Bool) : Nat → List Char → List Char → Except JErr (List Char × List Char)
  | 0, _, _ => .error .fuel
  | _ + 1, [], _ => .error .decodeError
  | f + 1, c :: r, acc =>
    if c = '"' then .ok (acc.reverse, r)
    else if c = '\\' then
      match scanEscape perm r with
      | .error e => .error e
      | .ok (ch, r') => scanstr perm f r' (ch :: acc)
    else if c.toNat < 32 then .error .decodeError
    else scanstr perm f r (c :: acc)

/-- `scanstring(s, end)` on the text after the opening quote -/
def scanstring (perm : Bool) (cs : List Char) : Except JErr (List Char × List Char) :=
  scanstr perm (cs.length + 1) cs []

/-- a digit of a number, `[0-9]` -/
def isDig (c : Char) : Bool := 48 ≤ c.toNat && c.toNat ≤ 57

def digVal (c : Char) : Nat := c.toNat - 48

/-- `int(digits)` -/
def decVal (ds : List Char) : Nat := ds.foldl (fun acc c => 10 * acc + digVal c) 0

/-- the longest run of digits and what follows -/
def spanDigits : List Char → List Char × List Char
  | [] => ([], [])
  | c :: cs => if isDig c then ((spanDigits cs).1.cons c, (spanDigits cs).2) else ([], c :: cs)

/-- `(\.\d+)?`: whether a fraction is present, and the text after it -/
def fracPart (cs : List Char) : Bool × List Char :=
  match cs with
  | [] => (false, cs)
  | c :: r =>
    if c = '.' then
      match spanDigits r with
      | ([], _) => (false, cs)
      | (_ :: _, r') => (true, r')
    else (false, cs)

/-- `([eE][-+]?\d+)?`: whether an exponent is present, and the text after it -/
def expPart (cs : List Char) : Bool × List Char :=
  match cs with
  | [] => (false, cs)
  | c :: r =>
    if c = 'e' ∨ c = 'E' then
      let r1 := match r with
        | [] => r
        | s :: r' => if s = '-' ∨ s = '+' then r' else r
      match spanDigits r1 with
      | ([], _) => (false, cs)
      | (_ :: _, r') => (true, r')
    else (false, cs)

/-- `(-?(?:0|[1-9]\d*))`: the sign, the digits and the text after them -/
def intPart (cs : List Char) : Option (Bool × List Char × List Char) :=
  let neg := match cs with
    | [] => false
    | c :: _ => c = '-'
  let cs1 := if neg then cs.tail else cs
  match cs1 with
  | [] => none
  | d :: r =>
    if d = '0' then some (neg, [d], r)
    else if isDig d then some (neg, d :: (spanDigits r).1, (spanDigits r).2)
    else none

/-- `NUMBER_RE.match(string, idx)` and the conversion: an int, or (fraction / exponent present) a float -/
def scanNumber (perm : Bool) (cs : List Char) : Option (Except JErr (JVal × List Char)) :=
  match intPart cs with
  | none => none
  | some (neg, ds, r) =>
    let fr := fracPart r
    let ex := expPart fr.2
    if fr.1 || ex.1 then
      some (if perm then .ok (.null, ex.2) else .error .unsupported)
    else
      some (.ok (.int (if neg then - (Int.ofNat (decVal ds)) else Int.ofNat (decVal ds)), r))

/-- `string[idx:idx + len(lit)] == lit`: the text after the literal -/
def stripLit : List Char → List Char → Option (List Char)
  | [], cs => some cs
  | _ :: _, [] => none
  | l :: ls, c :: cs => if l = c then stripLit ls cs else none

/-- `pairs[key] = value` on an insertion-ordered dict: an existing key keeps its place and takes the new value -/
def dictSet (d : List (String × JVal)) (k : String) (v : JVal) : List (String × JVal) :=
  match d with
  | [] => [(k, v)]
  | (k', v') :: rest => if k' = k then (k', v) :: rest else (k', v') :: dictSet rest k v

/-- `dict(pairs)` -/
def mkDict (pairs : List (String × JVal)) : List (String × JVal) :=
  pairs.foldl (fun d kv => dictSet d kv.1 kv.2) []

/-- the constants and numbers of `_scan_once` (everything that is not a string, an object or an array) -/
def scanAtom (perm : Bool) (cs : List Char) : Except JErr (JVal × List Char) :=
  match stripLit ['n', 'u', 'l', 'l'] cs with
  | some r => .ok (.null, r)
  | none =>
  match stripLit ['t', 'r', 'u', 'e'] cs with
  | some r => .ok (.bool true, r)
  | none =>
  match stripLit ['f', 'a', 'l', 's', 'e'] cs with
  | some r => .ok (.bool false, r)
  | none =>
  match scanNumber perm cs with
  | some res => res
  | none =>
  match stripLit ['N', 'a', 'N'] cs with
  | some r => if perm then .ok (.null, r) else .error .unsupported
  | none =>
  match stripLit ['I', 'n', 'f', 'i', 'n', 'i', 't', 'y'] cs with
  | some r => if perm then .ok (.null, r) else .error .unsupported
  | none =>
  match stripLit ['-', 'I', 'n', 'f', 'i', 'n', 'i', 't', 'y'] cs with
  | some r => if perm then .ok (.null, r) else .error .unsupported
  | none => .error .decodeError

mutual
/-- `_scan_once(string, idx)`; `StopIteration` becomes `JSONDecodeError("Expecting value")` in every caller.
`JSONObject` up to the first key and `JSONArray` up to the first value are inlined (the fuel decreases on every
call). -/
def scanOnce (perm : Bool) : Nat → List Char → Except JErr (JVal × List Char)
  | 0, _ => .error .fuel
  | _ + 1, [] => .error .decodeError
  | f + 1, c :: r =>
    if c = '"' then
      match scanstring perm r with
      | .error e => .error e
      | .ok (s, r') => .ok (.str (String.ofList s), r')
    else if c = '{' then
      match skipWs r with
      | [] => .error .decodeError
      | c1 :: r1 =>
        if c1 = '}' then .ok (.obj [], r1)
        else if c1 = '"' then
          match objLoop perm f r1 with
          | .error e => .error e
          | .ok (pairs, r') => .ok (.obj (mkDict pairs), r')
        else .error .decodeError
    else if c = '[' then
      match skipWs r with
      | [] => .error .decodeError
      | c1 :: r1 =>
        if c1 = ']' then .ok (.arr [], r1)
        else
          match arrLoop perm f (c1 :: r1) with
          | .error e => .error e
          | .ok (vs, r') => .ok (.arr vs, r')
    else scanAtom perm (c :: r)
/-- the `while True` of `JSONArray`: `cs` starts at a value; the values and the text after the closing bracket -/
def arrLoop (perm : Bool) : Nat → List Char → Except JErr (List JVal × List Char)
  | 0, _ => .error .fuel
  | f + 1, cs =>
    match scanOnce perm f cs with
    | .error e => .error e
    | .ok (v, r1) =>
      match skipWs r1 with
      | [] => .error .decodeError
      | c :: r2 =>
        if c = ']' then .ok ([v], r2)
        else if c = ',' then
          match arrLoop perm f (skipWs r2) with
          | .error e => .error e
          | .ok (vs, r') => .ok (v :: vs, r')
        else .error .decodeError
/-- the `while True` of `JSONObject`: `cs` is the text after the opening quote of a key; the pairs in order of
appearance and the text after the closing brace -/
def objLoop (perm : Bool) : Nat → List Char → Except JErr (List (String × JVal) × List Char)
  | 0, _ => .error .fuel
  | f + 1, cs =>
    match scanstring perm cs with
    | .error e => .error e
    | .ok (k, r1) =>
      match skipWs r1 with
      | [] => .error .decodeError
      | c :: r2 =>
        if c = ':' then
          match scanOnce perm f (skipWs r2) with
          | .error e => .error e
          | .ok (v, r3) =>
            match skipWs r3 with
            | [] => .error .decodeError
            | c' :: r4 =>
              if c' = '}' then .ok ([(String.ofList k, v)], r4)
              else if c' = ',' then
                match skipWs r4 with
                | [] => .error .decodeError
                | q :: r5 =>
                  if q = '"' then
                    match objLoop perm f r5 with
                    | .error e => .error e
                    | .ok (ps, r') => .ok ((String.ofList k, v) :: ps, r')
                  else .error .decodeError
              else .error .decodeError
        else .error .decodeError
end

/-- `JSONDecoder.decode`: leading whitespace, one value, trailing whitespace, then the end ("Extra data" otherwise) -/
def decodeL (perm : Bool) (cs : List Char) : Except JErr JVal :=
  let cs0 := skipWs cs
  match scanOnce perm (2 * cs0.length + 2) cs0 with
  | .error e => .error e
  | .ok (v, r) => if (skipWs r).isEmpty then .ok v else .error .decodeError

def loadsL (cs : List Char) : Except JErr JVal :=
  match decodeL false cs with
  | .error .unsupported =>
    (match decodeL true cs with
     | .error e => .error e
     | .ok _ => .error .unsupported)
  | r => r

/-- `json.loads(s)` -/
def loads (s : String) : Except JErr JVal := loadsL s.toList

end CG.PyJson
