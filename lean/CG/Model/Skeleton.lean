/-
`Skeleton` (`cai_causal_graph/causal_graph.py`, class `Skeleton`).

A skeleton object holds a reference to its graph and re-derives everything on every access, so in the model it is
a *function of the current graph*: there is no skeleton state, and "the skeleton follows every later mutation"
is this definition (`CG.C09.sk_follows`).  Every reader is written the way the Python reader computes it (list
scans, assertion checks, the two writes per edge into the adjacency array).

No Mathlib: this file is linked into the driver.
-/
import CG.Model.Eq

namespace CG.Sk
open CG Std

/-! ### nodes and edges -/

/-- `self._graph._NodeCls(n.identifier, meta=n.meta, variable_type=n.variable_type)`: a fresh node object of the
    graph's node class.  The time-series constructor re-derives variable and lag from the identifier
    (`ValueError` for a name outside the grammar); the plain constructor keeps identifier, type, metadata. -/
def rebuildNode (c : GraphClass) (id : String) (r : NodeRec) : Except Err NodeRec :=
  match c with
  | .plain => .ok r
  | .ts => mkTsNode id r.vtype r.md

def rebuildAll (c : GraphClass) : List (String × NodeRec) → Except Err (List (String × NodeRec))
  | [] => .ok []
  | kv :: rest =>
    match rebuildNode c kv.1 kv.2 with
    | .error e => .error e
    | .ok r' =>
      match rebuildAll c rest with
      | .error e => .error e
      | .ok l => .ok ((kv.1, r') :: l)

/-- `Skeleton.nodes` -/
def skNodes (g : Graph) : Except Err (List (String × NodeRec)) := rebuildAll g.cls (getNodes g)

/-- `Skeleton.get_node_names()` : `[node.identifier for node in self._graph.nodes]` -/
def skNodeNames (g : Graph) : List String := (getNodes g).map (·.1)

/-- `Skeleton.node_exists` -/
def skNodeExists (g : Graph) (n : String) : Bool := (skNodeNames g).contains n

/-- `Skeleton.edges` : `Edge(e.source, e.destination, edge_type=UNDIRECTED_EDGE, meta=e.meta) for e in graph.edges`
    — the stored pair, the type forced to `--`, the same metadata -/
def skEdges (g : Graph) : List (EKey × EdgeRec) :=
  (getEdges g none none none).map fun kv => (kv.1, { ty := .undirected, md := kv.2.md })

/-- the edge objects: they reference the node objects of the GRAPH (not the rebuilt skeleton nodes) -/
def skEdgeVs (g : Graph) : List EdgeV := (skEdges g).map (edgeV g)

/-- `Skeleton.get_edge_pairs()` -/
def skEdgePairs (g : Graph) : List EKey := (skEdges g).map (·.1)

/-- `Skeleton.get_node(identifier)` : scan of `self.nodes`, `AssertionError` unless exactly one matches -/
def skGetNode (g : Graph) (n : String) : Except Err NodeV :=
  match skNodes g with
  | .error e => .error e
  | .ok l =>
    match l.filter (fun kv => kv.1 == n) with
    | [] => .error .assertionError
    | [kv] => .ok ⟨g.cls, kv.1, kv.2⟩
    | _ :: _ :: _ => .error .assertionError

/-- `Skeleton.get_edge(source, destination)` : scan of `self.edges` for either orientation, `AssertionError`
    unless exactly one matches -/
def skGetEdge (g : Graph) (s d : String) : Except Err (EKey × EdgeRec) :=
  match (skEdges g).filter (fun kv => kv.1 == (s, d) || kv.1 == (d, s)) with
  | [] => .error .assertionError
  | [kv] => .ok kv
  | _ :: _ :: _ => .error .assertionError

def skGetEdgeV (g : Graph) (s d : String) : Except Err EdgeV :=
  match skGetEdge g s d with
  | .ok kv => .ok (edgeV g kv)
  | .error e => .error e

/-- `Skeleton.edge_exists(source, destination)` -/
def skEdgeExists (g : Graph) (s d : String) : Bool :=
  (skEdgePairs g).contains (s, d) || (skEdgePairs g).contains (d, s)

/-- `Skeleton.get_neighbors(node)` : the skeleton's own assertion, then the graph's reader -/
def skNeighbors (g : Graph) (n : String) : Except Err (List String) :=
  if !(skNodeNames g).contains n then .error .assertionError else getNeighbors g n

/-! ### adjacency matrix -/

abbrev Matrix := List (List Nat)

def Matrix.zeros (n : Nat) : Matrix := List.replicate n (List.replicate n 0)

/-- `adjacency[i, j] = 1` -/
def Matrix.set1 (M : Matrix) (i j : Nat) : Matrix := M.modify i (fun row => row.set j 1)

def Matrix.get (M : Matrix) (i j : Nat) : Nat := ((M[i]?).getD [])[j]?.getD 0

/-- one iteration of the loop of `adjacency_matrix`; `node_names.index(x)` raises `ValueError` for a missing name -/
def adjStep (names : List String) (M : Matrix) (k : EKey) : Except Err Matrix :=
  match names.idxOf? k.1, names.idxOf? k.2 with
  | some i, some j => .ok ((M.set1 i j).set1 j i)
  | _, _ => .error .valueError

def adjLoop (names : List String) : Matrix → List EKey → Except Err Matrix
  | M, [] => .ok M
  | M, k :: rest =>
    match adjStep names M k with
    | .error e => .error e
    | .ok M' => adjLoop names M' rest

/-- `Skeleton.adjacency_matrix` : rows / columns in `get_node_names()` order -/
def skAdjacency (g : Graph) : Except Err Matrix :=
  adjLoop (getNodeNames g) (Matrix.zeros (getNodeNames g).length) (skEdgePairs g)

/-- `Skeleton.to_numpy()` -/
def skToNumpy (g : Graph) : Except Err (Matrix × List String) :=
  match skAdjacency g with
  | .ok M => .ok (M, getNodeNames g)
  | .error e => .error e

/-! ### equality -/

/-- `Skeleton.__eq__(self = skeleton of g, other = skeleton of h, deep)`; `isinstance(other, Skeleton)` holds;
    there is no test of the graph class -/
def skEq (deep : Bool) (g h : Graph) : Except Err Bool :=
  match skNodes g with
  | .error e => .error e
  | .ok ns =>
    match skNodes h with
    | .error e => .error e
    | .ok ms =>
      if ns.length != ms.length || (skEdges g).length != (skEdges h).length then .ok false
      else if !setEqBy (· == ·) (getNodeNames g) (getNodeNames h) then .ok false
      else if !setEqBy upEq (skEdgePairs g) (skEdgePairs h) then .ok false
      else
        match nodesLoop deep (skGetNode h) (ns.map fun kv => ⟨g.cls, kv.1, kv.2⟩) with
        | .error e => .error e
        | .ok false => .ok false
        | .ok true => edgesLoop deep (skGetEdgeV h) (· == .assertionError) (skEdgeVs g)

/-- `Skeleton.__ne__` -/
def skNe (g h : Graph) : Except Err Bool :=
  match skEq false g h with
  | .ok b => .ok (!b)
  | .error e => .error e

/-! ### converters, at the level of (nodes, undirected edges) -/

/-- `to_dict()` : the nodes and the edges (the nested source → destination → edge dictionary lists the same edges) -/
def skToDict (g : Graph) : Except Err (List (String × NodeRec) × List (EKey × EdgeRec)) :=
  match skNodes g with
  | .ok ns => .ok (ns, skEdges g)
  | .error e => .error e

/-- the graph holding exactly these nodes and edges (what `from_dict` builds, element by element) -/
def ofLists (c : GraphClass) (ns : List (String × NodeRec)) (es : List (EKey × EdgeRec)) : Graph :=
  { cls := c,
    nodes := ns.foldl (fun acc kv => acc.insert kv.1 kv.2) ∅,
    edges := es.foldl (fun acc kv => acc.insert kv.1 kv.2) ∅,
    gmeta := [] }

/-- `to_networkx()` : an undirected networkx graph = (nodes in `get_node_names()` order, edges as stored) -/
def skToNetworkx (g : Graph) : List String × List EKey := (getNodeNames g, skEdgePairs g)

/-- `networkx.to_numpy_array` of an undirected graph (assumed behaviour): symmetric 0/1 matrix in node order -/
def nxAdj (nx : List String × List EKey) : Matrix :=
  nx.1.map fun a => nx.1.map fun b => if nx.2.any (fun k => k == (a, b) || k == (b, a)) then 1 else 0

/-- all `(i, j)` with `i < j < n` in the order of `itertools.combinations(range(n), 2)` -/
def combos2 (n : Nat) : List (Nat × Nat) :=
  (List.range n).flatMap fun i => ((List.range n).filter (fun j => i < j)).map fun j => (i, j)

/-- the edge scan of `from_adjacency_matrix` over the upper triangle: `->`, `<-` (stored reversed), `--` -/
def edgesOfAdj (names : List String) (M : Matrix) : List (EKey × EdgeType) :=
  (combos2 names.length).filterMap fun ij =>
    let a := (names[ij.1]?).getD ""
    let b := (names[ij.2]?).getD ""
    let x := M.get ij.1 ij.2
    let y := M.get ij.2 ij.1
    if x != 0 && y == 0 then some ((a, b), .directed)
    else if x == 0 && y != 0 then some ((b, a), .directed)
    else if x != 0 && y != 0 then some ((a, b), .undirected)
    else none

end CG.Sk
