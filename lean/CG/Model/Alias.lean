/-
C06 model: who shares a mutable container with whom.

Python's mutable containers (`dict`, `list`, `numpy.ndarray`, a networkx graph) carry a *location label*
(`Obj.box ℓ kids`); everything immutable (`str`, `int`, enum members, and the live `Node` / `Edge` handles that
node / edge lists contain by design) is an `Obj.atom`.  Python hands a container over in exactly three ways, which
are three functions in an allocator monad whose only state is a monotone counter of the next free label:

* `ref o`      the object itself                (`x = y`, `edge.meta = meta`)
* `shallow o`  fresh top label, same children   (`meta.copy()`, `copy(meta)`, `list(l)`, `l.copy()`)
* `deep o`     every label fresh                (`deepcopy(o)`)

The heap side of a graph (`Heap`) holds the metadata containers of the graph, its nodes and its edges (labelled
trees), and the locations of the three cached exports (`_networkx`, `_adjacency`, `_variables`) and of the lag /
variable index lists (containers that hold no container: one label each).  Every exporting or
deriving API of `causal_graph.py` / `time_series_causal_graph.py` is a *recipe*: which of `ref / shallow / deep`
the code applies, in which order, to which cell, transcribed call for call from the source (the chains below name
the Python expression each step comes from).  Which nodes / edges a derived graph has is *not* the business of this
model (C14–C17 own that): it is a parameter (`Plan`: for every derived cell, the index of the cell of the previous
graph it is computed from and which code path built it), and the theorems of `CG.Proofs.C06` hold for every plan.

The recipes are those of the tree with the repairs D6 (`to_networkx` / `adjacency_matrix` copy on the filling call
too), D7 (`extend_graph` deep-copies the edge metadata it replicates) and D8 (`get_nodes_at_lag` /
`get_nodes_for_variable_name` return `list(...)`); `Tree.legacy` selects the three unrepaired forms (used only for
the counter-examples and by the driver on request).  `to_dict` is modelled as it is: a shallow copy (D9).

Not modelled (trusted / out of scope, see DESIGN.md §6): a networkx graph and a numpy array are one opaque cell;
metadata whose sub-objects are already shared between containers; the order in which Python allocates (the model
allocates graph metadata, then nodes, then edges: sharing does not depend on the numbering); the empty bucket a
`defaultdict` creates for an absent lag / variable (unobservable through the public API once D8 is repaired); the
cache fields of a derived graph (they start empty here; in Python `get_minimal_graph` may leave `_variables`
filled – a private fresh list).  No Mathlib.
-/
namespace CG.Alias

/-! ## Objects and labels -/

inductive Obj where
  | atom : Obj
  | box : Nat → List Obj → Obj

mutual
/-- every location reachable from an object -/
def labels : Obj → List Nat
  | .atom => []
  | .box l kids => l :: labelsL kids
def labelsL : List Obj → List Nat
  | [] => []
  | o :: os => labels o ++ labelsL os
end

def Obj.isAtom : Obj → Bool
  | .atom => true
  | .box _ _ => false

/-- a container that holds no container -/
def Obj.flat : Obj → Bool
  | .atom => true
  | .box _ kids => kids.all Obj.isAtom

/-! ## The allocator monad -/

/-- state = the next free label -/
def Alloc (α : Type) : Type := Nat → α × Nat

instance : Monad Alloc where
  pure a := fun n => (a, n)
  bind m f := fun n => f (m n).1 (m n).2

theorem pure_run {α : Type} (a : α) (n : Nat) : (pure a : Alloc α) n = (a, n) := rfl
theorem bind_run {α β : Type} (m : Alloc α) (f : α → Alloc β) (n : Nat) :
    (m >>= f) n = f (m n).1 (m n).2 := rfl

/-- the counter never goes back -/
def Alloc.Mono {α : Type} (m : Alloc α) : Prop := ∀ n, n ≤ (m n).2

/-- a new container with the given children -/
def fresh (kids : List Obj) : Alloc Obj := fun n => (.box n kids, n + 1)

/-- hand over the object itself -/
def ref (o : Obj) : Alloc Obj := pure o

/-- `o.copy()` / `copy(o)` / `list(o)`: fresh top label, same children -/
def shallow : Obj → Alloc Obj
  | .atom => pure .atom
  | .box _ kids => fresh kids

mutual
/-- `deepcopy(o)`: every box gets a fresh label -/
def deep : Obj → Alloc Obj
  | .atom => fun n => (.atom, n)
  | .box _ kids => fun n =>
    let r := deepL kids (n + 1)
    (.box n r.1, r.2)
def deepL : List Obj → Alloc (List Obj)
  | [] => fun n => ([], n)
  | o :: os => fun n =>
    let a := deep o n
    let b := deepL os a.2
    (a.1 :: b.1, b.2)
end

inductive Mode where
  | ref | shallow | deep
  deriving DecidableEq, Repr

def Mode.apply : Mode → Obj → Alloc Obj
  | .ref => CG.Alias.ref
  | .shallow => CG.Alias.shallow
  | .deep => CG.Alias.deep

/-- a value travelling through several hand-overs, first to last -/
def chain : List Mode → Obj → Alloc Obj
  | [], o => pure o
  | m :: ms, o => fun n => chain ms (m.apply o n).1 (m.apply o n).2

/-- sequential traversal -/
def mapA {α β : Type} (f : α → Alloc β) : List α → Alloc (List β)
  | [] => fun n => ([], n)
  | x :: xs => fun n =>
    let a := f x n
    let b := mapA f xs a.2
    (a.1 :: b.1, b.2)

/-! ## The heap side of a graph -/

structure Heap where
  /-- `graph.meta` -/
  gmeta : Obj
  /-- `node.meta`, nodes in sorted-identifier order -/
  nodeMeta : List Obj
  /-- `(source index, destination index, edge.meta)`, edges in `get_edges()` order -/
  edgeMeta : List (Nat × Nat × Obj)
  /-- `_networkx`: the location of the cached networkx graph (one opaque cell) -/
  nxCache : Option Nat := none
  /-- `_adjacency`: the location of the cached array -/
  adjCache : Option Nat := none
  /-- `_variables`: the location of the cached list of strings -/
  varsCache : Option Nat := none
  /-- the locations of the lists stored in `_lag_to_nodes` (their elements are node handles: atoms) -/
  lagLists : List Nat := []
  /-- the locations of the lists stored in `_variable_name_to_nodes` -/
  varLists : List Nat := []

/-- a container that holds no container (an opaque cell, a list of strings / handles) -/
def cellOf (l : Nat) : Obj := .box l []

def optL : Option Nat → List Obj
  | none => []
  | some l => [cellOf l]

def Heap.edgeCells (h : Heap) : List Obj := h.edgeMeta.map (·.2.2)

/-- the metadata containers: of the graph, of each node, of each edge -/
def Heap.metaCells (h : Heap) : List Obj := h.gmeta :: (h.nodeMeta ++ h.edgeCells)

def Heap.cacheCells (h : Heap) : List Obj := optL h.nxCache ++ (optL h.adjCache ++ optL h.varsCache)

/-- every container the graph object owns -/
def Heap.objs (h : Heap) : List Obj :=
  h.metaCells ++ (h.cacheCells ++ (h.lagLists.map cellOf ++ h.varLists.map cellOf))

def Heap.labels (h : Heap) : List Nat := labelsL h.objs

/-- what every mutator does last (`_reset_cached_attributes`) -/
def Heap.cold (h : Heap) : Heap := { h with nxCache := none, adjCache := none, varsCache := none }

/-- no metadata container of the graph holds a container -/
def FlatMeta (h : Heap) : Prop := ∀ o ∈ h.metaCells, o.flat = true

instance (h : Heap) : Decidable (FlatMeta h) := by unfold FlatMeta; infer_instance

/-! ## Cells: one container of a result, and where it comes from -/

inductive Src where
  | gmeta
  | node (i : Nat)
  | edge (i : Nat)
  /-- no source: the code creates `dict()` -/
  | empty
  deriving DecidableEq, Repr

structure Cell where
  src : Src
  via : List Mode

def Heap.get? (h : Heap) : Src → Option Obj
  | .gmeta => some h.gmeta
  | .node i => h.nodeMeta[i]?
  | .edge i => h.edgeCells[i]?
  | .empty => none

/-- build one result container; an absent source is a new empty `dict()` -/
def buildCell (h : Heap) (c : Cell) : Alloc Obj := fun n =>
  match h.get? c.src with
  | some o => chain c.via o n
  | none => chain c.via (.box n []) (n + 1)

def Src.isEmpty : Src → Bool
  | .empty => true
  | _ => false

/-- the cell gets a `deepcopy` of its own (or is created from nothing) -/
def Cell.isDeep (c : Cell) : Bool := c.src.isEmpty || c.via.contains .deep

/-! ## Templates: results that are trees of new containers around copied cells (`to_dict`) -/

inductive Tpl where
  | atom : Tpl
  /-- a container the call creates -/
  | fresh : List Tpl → Tpl
  | cell : Cell → Tpl

mutual
/-- returns the object and, in order, the containers built for the `cell` leaves -/
def build (h : Heap) : Tpl → Alloc (Obj × List Obj)
  | .atom => fun n => ((.atom, []), n)
  | .cell c => fun n => (((buildCell h c n).1, [(buildCell h c n).1]), (buildCell h c n).2)
  | .fresh kids => fun n =>
    let r := buildL h kids n
    ((.box r.2 r.1.1, r.1.2), r.2 + 1)
def buildL (h : Heap) : List Tpl → Alloc (List Obj × List Obj)
  | [] => fun n => (([], []), n)
  | t :: ts => fun n =>
    let a := build h t n
    let b := buildL h ts a.2
    ((a.1.1 :: b.1.1, a.1.2 ++ b.1.2), b.2)
end

/-! ## What a call hands out -/

structure Out where
  /-- every container handed out -/
  all : List Obj
  /-- the metadata containers inside it that belong to distinct things (graph, each node, each edge) -/
  cells : List Obj
  /-- the heap of a derived graph -/
  graph : Option Heap := none

def Out.labels (o : Out) : List Nat := labelsL o.all

def Out.ofObj (o : Obj) : Out := { all := [o], cells := [] }

def Out.ofHeap (h : Heap) : Out := { all := h.objs, cells := h.metaCells, graph := some h }

/-! ## Constructors and adders, as chains (each step is the Python expression named on the right) -/

inductive Cls where
  | plain | ts
  deriving DecidableEq, Repr

inductive Tree where
  /-- D6, D7, D8 repaired -/
  | repaired
  /-- the tree before those three repairs -/
  | legacy
  deriving DecidableEq, Repr

/-- `Node(id, meta=m)`: `HasMetadata.__init__` does `meta.copy()`.
    `TimeSeriesNode(id, meta=m)`: `_process_meta` does `copy(meta)` first, then the same. -/
def nodeCtor : Cls → List Mode
  | .plain => [.shallow]
  | .ts => [.shallow, .shallow]

/-- `Edge(s, d, meta=m)` / `TimeSeriesEdge(…)`: `meta.copy()` -/
def edgeCtor : List Mode := [.shallow]

/-- `cls(meta=m)`: `meta.copy()` -/
def graphCtor : List Mode := [.shallow]

/-- `add_node(node=N)`: `deepcopy(node.meta)`, then the node constructor of the receiving class -/
def addNodeFromNode (cls : Cls) : List Mode := .deep :: nodeCtor cls

/-- `add_edge(edge=E)`: `deepcopy(edge.meta)`, then `edge.meta = meta` -/
def addEdgeFromEdge : List Mode := [.deep, .ref]

/-- `graph.to_dict()`: `self.meta.copy()`, `node.to_dict()`: `self.meta.copy()`, `edge.to_dict()`: `self.meta.copy()` -/
def toDictCopy : List Mode := [.shallow]

/-- `from_dict(d)`: `cls(meta=deepcopy(d.get('meta')))` -/
def fromDictGraph : List Mode := .deep :: graphCtor

/-- `from_dict(d)`: `_NodeCls.from_dict(node_dict)` (constructor) then `add_node(node=…)` -/
def fromDictNode (cls : Cls) : List Mode := nodeCtor cls ++ addNodeFromNode cls

/-- `from_dict(d)`: `_EdgeCls.from_dict(edge_dict)` (constructor) then `add_edge(edge=…)` -/
def fromDictEdge : List Mode := edgeCtor ++ addEdgeFromEdge

/-! ## Derived graphs -/

/-- one graph-building pass of the code -/
inductive StageKind where
  /-- `to_dict(include_meta)` then `from_dict` -/
  | copy (includeMeta : Bool)
  /-- `from_dict(d)`; the "source heap" is the dictionary's metadata -/
  | fromDict
  /-- `_get_subgraph` -/
  | subgraph
  /-- `get_minimal_graph` -/
  | minimal
  /-- `extend_graph` after its `get_minimal_graph()`: `minimal_graph.copy()` plus the lagged nodes / edges -/
  | extend
  /-- `get_summary_graph` -/
  | summary
  /-- `TimeSeriesCausalGraph.from_causal_graph(cg)` for a `CausalGraph` that is not a time-series graph -/
  | fromCausalGraph
  deriving DecidableEq, Repr

/-- one derived node: which code path built it (`kind`, meaning depends on the stage) from which node of the
    previous graph -/
structure Pick where
  kind : Nat
  src : Nat
  deriving Repr

/-- one derived edge; `s`, `d` are the positions of its endpoints among the derived nodes -/
structure EPick where
  kind : Nat
  src : Nat
  s : Nat
  d : Nat
  deriving Repr

structure Plan where
  nodes : List Pick := []
  edges : List EPick := []
  /-- number of lag / variable index lists of the derived graph -/
  lagBuckets : Nat := 0
  varBuckets : Nat := 0
  deriving Repr

def StageKind.gmetaCell : StageKind → Cell
  -- `self.meta.copy()` ; `deepcopy(d['meta'])` ; `cls(meta=…)`
  | .copy true => ⟨.gmeta, toDictCopy ++ fromDictGraph⟩
  -- no `'meta'` key: `deepcopy(None)`, the constructor makes `dict()`
  | .copy false => ⟨.empty, []⟩
  | .fromDict => ⟨.gmeta, fromDictGraph⟩
  -- `self.__class__(meta=deepcopy(self.meta))`
  | .subgraph => ⟨.gmeta, .deep :: graphCtor⟩
  | .minimal => ⟨.gmeta, .deep :: graphCtor⟩
  -- `minimal_graph.copy()`
  | .extend => ⟨.gmeta, toDictCopy ++ fromDictGraph⟩
  -- `self._SummaryGraphCls(meta=deepcopy(self.meta))`
  | .summary => ⟨.gmeta, .deep :: graphCtor⟩
  | .fromCausalGraph => ⟨.gmeta, toDictCopy ++ fromDictGraph⟩

def StageKind.nodeCell (cls : Cls) : StageKind → Pick → Cell
  | .copy true, p => ⟨.node p.src, toDictCopy ++ fromDictNode cls⟩
  -- `Node.from_dict` without `'meta'`: the constructor makes `dict()` (time-series: from the identifier)
  | .copy false, _ => ⟨.empty, addNodeFromNode cls⟩
  | .fromDict, p => ⟨.node p.src, fromDictNode cls⟩
  -- `add_edge(edge=…)` → `_prepare_nodes(Node, Node)` → `add_node(node=…)`, or `add_node(node=self.get_node(n))`
  | .subgraph, p => ⟨.node p.src, addNodeFromNode cls⟩
  | .minimal, p =>
    match p.kind with
    -- endpoint of an edge: `edge.to_dict()` (`source.to_dict()`: copy), `TimeSeriesNode.from_dict`,
    -- `self._NodeCls(identifier=…, meta=source.meta)`, then `add_edge(edge=…)` → `add_node(node=…)`
    | 0 => ⟨.node p.src, toDictCopy ++ nodeCtor .ts ++ nodeCtor .ts ++ addNodeFromNode .ts⟩
    -- floating variable: `self._NodeCls(identifier=variable, meta=original_floating_node.meta)`, `add_node(node=…)`
    | _ => ⟨.node p.src, nodeCtor .ts ++ addNodeFromNode .ts⟩
  | .extend, p =>
    match p.kind with
    -- carried over by `minimal_graph.copy()`
    | 0 => ⟨.node p.src, toDictCopy ++ fromDictNode .ts⟩
    -- `_get_lagged_node` (constructor), then `add_node(node=lagged_node)` – explicitly or through `_prepare_nodes`
    | _ => ⟨.node p.src, nodeCtor .ts ++ addNodeFromNode .ts⟩
  | .summary, p =>
    match p.kind with
    -- `self._NodeCls(identifier=variable, meta=source_node.meta)`, `summary_graph.add_edge(edge=…)` →
    -- `add_node(node=…)` of the plain class
    | 0 => ⟨.node p.src, nodeCtor .ts ++ addNodeFromNode .plain⟩
    -- floating variable: `summary_graph.add_node(var_name)`
    | _ => ⟨.empty, []⟩
  -- `to_dict`, `TimeSeriesNode.from_dict`, `add_node(node=…)` of the time-series class
  | .fromCausalGraph, p => ⟨.node p.src, toDictCopy ++ fromDictNode .ts⟩

def StageKind.edgeCell (tree : Tree) : StageKind → EPick → Cell
  | .copy true, p => ⟨.edge p.src, toDictCopy ++ fromDictEdge⟩
  | .copy false, _ => ⟨.empty, addEdgeFromEdge⟩
  | .fromDict, p => ⟨.edge p.src, fromDictEdge⟩
  -- `filtered_graph.add_edge(edge=edge, validate=False)`
  | .subgraph, p => ⟨.edge p.src, addEdgeFromEdge⟩
  -- `_EdgeCls.from_dict(edge.to_dict())`, `self._EdgeCls(…, meta=edge.meta)`, `minimal_cg.add_edge(edge=…)`
  | .minimal, p => ⟨.edge p.src, toDictCopy ++ edgeCtor ++ edgeCtor ++ addEdgeFromEdge⟩
  | .extend, p =>
    match p.kind with
    -- carried over by `minimal_graph.copy()`
    | 0 => ⟨.edge p.src, toDictCopy ++ fromDictEdge⟩
    -- lagged copy: `extended_graph.add_edge(…, meta=deepcopy(edge.meta))` (D7 repaired) / `meta=edge.meta`
    | _ =>
      match tree with
      | .repaired => ⟨.edge p.src, [.deep, .ref]⟩
      | .legacy => ⟨.edge p.src, [.ref]⟩
  | .summary, p =>
    match p.kind with
    -- `self._EdgeCls(…, meta=edge.meta)`, `summary_graph.add_edge(edge=…)`
    | 0 => ⟨.edge p.src, edgeCtor ++ addEdgeFromEdge⟩
    -- … and later turned bidirected by `change_edge_type` (D11 repair): `meta = edge.meta`, `add_edge(meta=meta)`
    | _ => ⟨.edge p.src, edgeCtor ++ addEdgeFromEdge ++ [.ref, .ref]⟩
  | .fromCausalGraph, p => ⟨.edge p.src, toDictCopy ++ fromDictEdge⟩

/-- build the derived graph of one stage from the previous graph `h` -/
def runStage (cls : Cls) (tree : Tree) (k : StageKind) (p : Plan) (h : Heap) : Alloc Heap := fun n =>
  let g := buildCell h k.gmetaCell n
  let ns := mapA (fun pk => buildCell h (k.nodeCell cls pk)) p.nodes g.2
  let es := mapA (fun pk => buildCell h (k.edgeCell tree pk)) p.edges ns.2
  ({ gmeta := g.1, nodeMeta := ns.1,
     edgeMeta := (p.edges.zip es.1).map (fun x => (x.1.s, x.1.d, x.2)),
     lagLists := List.range' es.2 p.lagBuckets,
     varLists := List.range' (es.2 + p.lagBuckets) p.varBuckets }, es.2 + p.lagBuckets + p.varBuckets)

inductive Derived where
  | copy (includeMeta : Bool)
  | fromDict
  | ancestral | descendant
  | parents | children
  | minimal | extend | stationary | summary
  | fromCausalGraph
  deriving DecidableEq, Repr

def Plan.empty : Plan := {}

def Heap.isEmptyGraph (h : Heap) : Bool := h.nodeMeta.isEmpty && h.edgeMeta.isEmpty

/-- `extend_graph` on the graph `h`: `get_minimal_graph()`; an empty minimal graph is returned as it is;
    otherwise `minimal_graph.copy()` and the lagged additions -/
def runExtend (tree : Tree) (pMin pExt : Plan) (h : Heap) : Alloc Heap := fun n =>
  let m := runStage .ts tree .minimal pMin h n
  if m.1.isEmptyGraph then m else runStage .ts tree .extend pExt m.1 m.2

/-- plans are consumed in the order the stages run; missing plans are empty -/
def runDerived (cls : Cls) (tree : Tree) (d : Derived) (plans : List Plan) (h : Heap) : Alloc Heap :=
  let p (i : Nat) : Plan := plans.getD i Plan.empty
  match d with
  | .copy b => runStage cls tree (.copy b) (p 0) h
  | .fromDict => runStage cls tree .fromDict (p 0) h
  | .ancestral => runStage cls tree .subgraph (p 0) h
  | .descendant => runStage cls tree .subgraph (p 0) h
  -- `self.copy()` followed by deletions (the plan says what is left)
  | .parents => runStage cls tree (.copy true) (p 0) h
  | .children => runStage cls tree (.copy true) (p 0) h
  | .minimal => runStage .ts tree .minimal (p 0) h
  | .extend => runExtend tree (p 0) (p 1) h
  -- `self.get_minimal_graph()` then `minimal_graph.extend_graph(…)`, which takes the minimal graph again
  | .stationary => fun n =>
    let m := runStage .ts tree .minimal (p 0) h n
    runExtend tree (p 1) (p 2) m.1 m.2
  | .summary => runStage .ts tree .summary (p 0) h
  | .fromCausalGraph => runStage .plain tree .fromCausalGraph (p 0) h

/-- the readers a deriving API calls on the source and that fill a cache: `get_ancestors` / `get_descendants`
    and `is_dag()` call `to_networkx()`; `get_minimal_graph` reads `self.variables` -/
def Derived.fillsNx : Derived → Bool
  | .ancestral | .descendant | .summary => true
  | _ => false

def Derived.fillsVars : Derived → Bool
  | .minimal | .extend | .stationary => true
  | _ => false

/-! ## Recipes -/

inductive Recipe where
  | toNetworkx
  | adjacencyMatrix
  | toNumpy
  | toDict (includeMeta : Bool)
  | nodeToDict (i : Nat)
  | edgeToDict (i : Nat)
  /-- `get_nodes`, `get_node_names`, `get_edges`, `get_edge_pairs`, `get_all_variable_names`, `get_inputs`, …:
      a new list of strings / handles -/
  | listing
  | variables
  | nodesAtLag (k : Nat)
  | nodesForVariable (k : Nat)
  /-- `adjacency_matrices`, `to_numpy_by_lag`: new arrays in a new dictionary (built from `get_minimal_graph()`) -/
  | adjacencyMatrices
  | derived (d : Derived) (plans : List Plan)

/-- the three forms of `to_dict` (shallow by documentation: D9) -/
def Recipe.dictLike : Recipe → Bool
  | .toDict _ | .nodeToDict _ | .edgeToDict _ => true
  | _ => false

structure Res where
  out : Out
  heap : Heap
  next : Nat

/-- fill `_networkx` if it is empty (one new opaque cell) -/
def fillNx (h : Heap) : Alloc Heap := fun n =>
  match h.nxCache with
  | some _ => (h, n)
  | none => ({ h with nxCache := some n }, n + 1)

/-- fill `_variables` if it is empty (a new list of strings) -/
def fillVars (h : Heap) : Alloc Heap := fun n =>
  match h.varsCache with
  | some _ => (h, n)
  | none => ({ h with varsCache := some n }, n + 1)

/-- `to_networkx()` -/
def runNx (tree : Tree) (h : Heap) (n : Nat) : Res :=
  match h.nxCache with
  -- `return deepcopy(self._networkx)`
  | some c => ⟨.ofObj (deep (cellOf c) n).1, h, (deep (cellOf c) n).2⟩
  | none =>
    let h' : Heap := { h with nxCache := some n }
    match tree with
    -- D6 repaired: `self._networkx = networkx_graph; return deepcopy(self._networkx)`
    | .repaired => ⟨.ofObj (deep (cellOf n) (n + 1)).1, h', (deep (cellOf n) (n + 1)).2⟩
    -- `return networkx_graph`
    | .legacy => ⟨.ofObj (cellOf n), h', n + 1⟩

/-- `adjacency_matrix`; returns the array so that `to_numpy` can reuse it -/
def runAdj (tree : Tree) (h : Heap) (n : Nat) : Obj × Heap × Nat :=
  match h.adjCache with
  | some c => ((deep (cellOf c) n).1, h, (deep (cellOf c) n).2)
  | none =>
    let h' : Heap := { h with adjCache := some n }
    match tree with
    | .repaired => ((deep (cellOf n) (n + 1)).1, h', (deep (cellOf n) (n + 1)).2)
    | .legacy => (cellOf n, h', n + 1)

/-- `node.to_dict(include_meta)` -/
def nodeDictTpl (includeMeta : Bool) (i : Nat) : Tpl :=
  .fresh (if includeMeta then [.cell ⟨.node i, toDictCopy⟩] else [])

/-- `edge.to_dict(include_meta)`: the endpoints are serialised with `to_dict()` – *with* their metadata,
    whatever `include_meta` says -/
def edgeDictTpl (includeMeta : Bool) (i s d : Nat) : Tpl :=
  .fresh ([nodeDictTpl true s, nodeDictTpl true d] ++
    (if includeMeta then [.cell ⟨.edge i, toDictCopy⟩] else []))

/-- the edges of the graph with their positions -/
def idxEdges (es : List (Nat × Nat × Obj)) : List (Nat × Nat × Nat) :=
  (List.range es.length).zip es |>.map fun x => (x.1, x.2.1, x.2.2.1)

/-- the distinct sources, in order of first appearance -/
def distinctSrcs : List (Nat × Nat × Nat) → List Nat → List Nat
  | [], _ => []
  | e :: es, seen => if seen.contains e.2.1 then distinctSrcs es seen else e.2.1 :: distinctSrcs es (e.2.1 :: seen)

/-- `CausalGraph.to_dict(include_meta)`: `{'nodes': {id: node.to_dict()}, 'edges': {src: {dst: edge.to_dict()}},
    'version': …, 'meta': self.meta.copy()}` -/
def toDictTpl (h : Heap) (includeMeta : Bool) : Tpl :=
  let es := idxEdges h.edgeMeta
  let nodes : Tpl := .fresh ((List.range h.nodeMeta.length).map (nodeDictTpl includeMeta))
  let edges : Tpl := .fresh ((distinctSrcs es []).map fun s =>
    .fresh ((es.filter (fun e => e.2.1 == s)).map fun e => edgeDictTpl includeMeta e.1 e.2.1 e.2.2))
  .fresh ([nodes, edges, .atom] ++ (if includeMeta then [.cell ⟨.gmeta, toDictCopy⟩] else []))

def runTpl (h : Heap) (t : Tpl) (n : Nat) : Res :=
  ⟨{ all := [(build h t n).1.1], cells := (build h t n).1.2 }, h, (build h t n).2⟩

/-- a list export of an index list: `list(self._lag_to_nodes[k])` (D8 repaired) / the list itself -/
def runIndex (tree : Tree) (ls : List Nat) (k : Nat) (h : Heap) (n : Nat) : Res :=
  match ls[k]? with
  | some l =>
    match tree with
    | .repaired => ⟨.ofObj (shallow (cellOf l) n).1, h, (shallow (cellOf l) n).2⟩
    | .legacy => ⟨.ofObj (cellOf l), h, n⟩
  -- absent key: an empty list (the bucket the `defaultdict` creates is not modelled)
  | none => ⟨.ofObj (.box n []), h, n + 1⟩

def run (cls : Cls) (tree : Tree) : Recipe → Heap → Nat → Res
  | .toNetworkx, h, n => runNx tree h n
  | .adjacencyMatrix, h, n =>
    let r := runAdj tree h n
    ⟨.ofObj r.1, r.2.1, r.2.2⟩
  -- `return self.adjacency_matrix, self.get_node_names()`
  | .toNumpy, h, n =>
    let r := runAdj tree h n
    ⟨{ all := [r.1, .box r.2.2 []], cells := [] }, r.2.1, r.2.2 + 1⟩
  | .toDict b, h, n => runTpl h (toDictTpl h b) n
  | .nodeToDict i, h, n => runTpl h (nodeDictTpl true i) n
  | .edgeToDict i, h, n =>
    match h.edgeMeta[i]? with
    | some e => runTpl h (edgeDictTpl true i e.1 e.2.1) n
    | none => runTpl h (.fresh []) n
  | .listing, h, n => ⟨.ofObj (.box n []), h, n + 1⟩
  -- `if self._variables is None: self._variables = sorted(…)`; `return self._variables.copy()`
  | .variables, h, n =>
    let f := fillVars h n
    match f.1.varsCache with
    | some c => ⟨.ofObj (shallow (cellOf c) f.2).1, f.1, (shallow (cellOf c) f.2).2⟩
    | none => ⟨.ofObj (.box f.2 []), f.1, f.2 + 1⟩
  | .nodesAtLag k, h, n => runIndex tree h.lagLists k h n
  | .nodesForVariable k, h, n => runIndex tree h.varLists k h n
  | .adjacencyMatrices, h, n =>
    let f := fillVars h n
    ⟨.ofObj (.box (f.2 + 1) [.box f.2 []]), f.1, f.2 + 2⟩
  | .derived d plans, h, n =>
    let f1 := if d.fillsNx then fillNx h n else (h, n)
    let f2 := if d.fillsVars then fillVars f1.1 f1.2 else f1
    let r := runDerived cls tree d plans f2.1 f2.2
    ⟨.ofHeap r.1, f2.1, r.2⟩

/-! ## The sharing matrix -/

/-- do two label lists meet? -/
def inter (a b : List Nat) : Bool := a.any fun x => b.contains x

/-- do two of the listed containers share a location? -/
def pairShare : List Obj → Bool
  | [] => false
  | o :: os => os.any (fun p => inter (labels o) (labels p)) || pairShare os

/-- the graph after both calls, and the two exports -/
structure Run where
  heap : Heap
  e1 : Out
  e2 : Out

structure Matrix where
  /-- graph ~ first export, graph ~ second export, first ~ second -/
  ge1 : Bool
  ge2 : Bool
  e1e2 : Bool
  /-- two distinct metadata cells inside the first / the second export share a location -/
  e1 : Bool
  e2 : Bool
  deriving DecidableEq, Repr

def sharing (r : Run) : Matrix :=
  { ge1 := inter r.heap.labels r.e1.labels
    ge2 := inter r.heap.labels r.e2.labels
    e1e2 := inter r.e1.labels r.e2.labels
    e1 := pairShare r.e1.cells
    e2 := pairShare r.e2.cells }

def bit (b : Bool) : String := if b then "1" else "0"

def Matrix.text (m : Matrix) : String :=
  s!"ge1={bit m.ge1} ge2={bit m.ge2} e1e2={bit m.e1e2} e1={bit m.e1} e2={bit m.e2}"

inductive Order where
  /-- the first export is the cache-filling call -/
  | first
  /-- one call of the same API came before -/
  | later
  deriving DecidableEq, Repr

/-- call the API (after a warm-up call if `later`), call it again; `h` starts with cold caches -/
def runTwice (cls : Cls) (tree : Tree) (r : Recipe) (ord : Order) (h : Heap) (n : Nat) : Run :=
  let w : Heap × Nat :=
    match ord with
    | .first => (h.cold, n)
    | .later => ((run cls tree r h.cold n).heap, (run cls tree r h.cold n).next)
  let r1 := run cls tree r w.1 w.2
  let r2 := run cls tree r r1.heap r1.next
  ⟨r2.heap, r1.out, r2.out⟩

/-! ## Mutators that take or move a metadata container

These are not exports; they are here because they decide whether the graphs the theorems start from keep their
metadata cells apart, and because two of them hand a container from an object that is about to be deleted to its
replacement.  Positions are slots: a renamed node keeps its slot. -/

/-- `add_node(id, meta=m)`: `Node(id, meta=m)`; time series: `TimeSeriesNode(…, meta=m)` and then
    `super().add_node(identifier, meta=node.meta)`, i.e. the constructor twice -/
def addNodeWithMeta : Cls → List Mode
  | .plain => nodeCtor .plain
  | .ts => nodeCtor .ts ++ nodeCtor .ts

/-- `replace_node(id, meta=m)` in place: `node.meta = meta`; the time-series override first runs
    `_process_meta` (`copy(meta)`, D10 repair) -/
def replaceInPlace : Cls → List Mode
  | .plain => [.ref]
  | .ts => [.shallow, .ref]

inductive Mutator where
  /-- `add_edge(s, d, meta=m)`: `edge.meta = meta` – the caller's dictionary itself -/
  | addEdgeMeta (s d : Nat)
  /-- `add_node(id, meta=m)` -/
  | addNodeMeta
  /-- `replace_node(i, new_id)` / `replace_node(i, new_id, meta=m)` -/
  | replaceNodeRename (i : Nat) (withMeta : Bool)
  /-- `replace_node(i, meta=m)`: the node is edited in place -/
  | replaceNodeInPlace (i : Nat)
  /-- `change_edge_type(i, t)` with a different type -/
  | changeEdgeType (i : Nat)

structure MutRes where
  heap : Heap
  /-- metadata of the node / edge objects the mutator removed from the graph (handles a caller still holds) -/
  removed : List Obj
  next : Nat

def mutate (cls : Cls) (m : Obj) : Mutator → Heap → Nat → MutRes
  | .addEdgeMeta s d, h, n => ⟨{ h.cold with edgeMeta := h.edgeMeta ++ [(s, d, m)] }, [], n⟩
  | .addNodeMeta, h, n =>
    ⟨{ h.cold with nodeMeta := h.nodeMeta ++ [(chain (addNodeWithMeta cls) m n).1] }, [],
      (chain (addNodeWithMeta cls) m n).2⟩
  | .replaceNodeRename i withMeta, h, n =>
    match h.nodeMeta[i]? with
    | none => ⟨h, [], n⟩      -- AssertionError: no such node
    | some old =>
      -- `self.add_node(new_node_id, meta=meta if meta is not None else original_node.meta)`; every incident edge is
      -- re-added with `meta=edge.meta` (the same dictionary), then `delete_node(original)` drops the old objects
      let src := if withMeta then m else old
      ⟨{ h.cold with nodeMeta := h.nodeMeta.set i (chain (addNodeWithMeta cls) src n).1 },
        old :: ((h.edgeMeta.filter (fun e => e.1 == i || e.2.1 == i)).map (·.2.2)),
        (chain (addNodeWithMeta cls) src n).2⟩
  | .replaceNodeInPlace i, h, n =>
    match h.nodeMeta[i]? with
    | none => ⟨h, [], n⟩
    | some old =>
      ⟨{ h.cold with nodeMeta := h.nodeMeta.set i (chain (replaceInPlace cls) m n).1 }, [old],
        (chain (replaceInPlace cls) m n).2⟩
  | .changeEdgeType i, h, n =>
    -- `meta = edge.meta; remove_edge(…); add_edge(…, meta=meta)`: the new edge object holds the old dictionary
    match h.edgeCells[i]? with
    | none => ⟨h, [], n⟩
    | some old => ⟨h.cold, [old], n⟩

structure MutMatrix where
  /-- two distinct metadata cells of the graph share a location after the mutator -/
  int : Bool
  /-- the graph shares a location with the caller's argument -/
  arg : Bool
  /-- the graph shares a location with the metadata of an object the mutator removed -/
  old : Bool
  deriving DecidableEq, Repr

def mutSharing (m : Obj) (r : MutRes) : MutMatrix :=
  { int := pairShare r.heap.metaCells
    arg := inter (labels m) r.heap.labels
    old := inter (labelsL r.removed) r.heap.labels }

def MutMatrix.text (x : MutMatrix) : String := s!"int={bit x.int} arg={bit x.arg} old={bit x.old}"

/-! ## Sample heaps from a shape description (used by the driver) -/

/-- a metadata dictionary: `{'k': 1}` or `{'k': 1, 'l': [{'m': [2]}]}` -/
def mkMeta (nested : Bool) : Alloc Obj := fun n =>
  if nested then (.box n [.atom, .box (n + 1) [.box (n + 2) [.atom, .box (n + 3) [.atom]]]], n + 4)
  else (.box n [.atom], n + 1)

/-- `g`: is the graph metadata nested; `nodes`: one flag per node; `edges`: `(source, destination, nested)`;
    two lag lists and two variable lists -/
def mkHeap (g : Bool) (nodes : List Bool) (edges : List (Nat × Nat × Bool)) : Alloc Heap := fun n =>
  let gm := mkMeta g n
  let ns := mapA mkMeta nodes gm.2
  let es := mapA (fun e => mkMeta e.2.2) edges ns.2
  ({ gmeta := gm.1, nodeMeta := ns.1,
     edgeMeta := (edges.zip es.1).map (fun x => (x.1.1, x.1.2.1, x.2)),
     lagLists := [es.2, es.2 + 1], varLists := [es.2 + 2, es.2 + 3] }, es.2 + 4)

/-- the plan the driver uses: every code path (`kind` 0, 1, 2) from every cell of the previous graph, so that a
    recipe that hands a cell over by reference or shallowly to two derived cells shows up in the matrix -/
def advPlan (nNodes nEdges : Nat) : Plan :=
  { nodes := (List.range nNodes).flatMap fun i => [⟨0, i⟩, ⟨1, i⟩, ⟨2, i⟩]
    edges := (List.range nEdges).flatMap fun i => [⟨0, i, 0, 1⟩, ⟨1, i, 0, 1⟩, ⟨2, i, 0, 1⟩]
    lagBuckets := 2, varBuckets := 2 }

/-- three consecutive adversarial plans (enough for the longest pipeline) -/
def advPlans (nNodes nEdges : Nat) : List Plan :=
  [advPlan nNodes nEdges, advPlan (3 * nNodes) (3 * nEdges), advPlan (9 * nNodes) (9 * nEdges)]

end CG.Alias
