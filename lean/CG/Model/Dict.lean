/-
C05: the dictionary form of a graph and the two directions `to_dict` / `from_dict`, for `CausalGraph`,
`TimeSeriesCausalGraph` and `Skeleton`, plus `copy` and `TimeSeriesCausalGraph.from_causal_graph`.

The dictionary modelled here is the dictionary AFTER it has been through JSON text: the two `str`-valued enums
are their string values (`EdgeType.text`, `VType.text`; pinned to the generated table in `CG/Proofs/C05.lean`),
metadata is the model's `Meta` (top-level keys sorted, values canonical JSON text).  It is a small structure, not
a JSON tree; the keys the code writes are the fields.

Python transcribed (cai_causal_graph 0.5.x):

* `Node.to_dict(include_meta)`            identifier, variable_type, node_class = class name, meta (optional)
* `TimeSeriesNode.to_dict(include_meta)`  the same plus the top-level keys `time_lag`, `variable_name`; its `meta`
                                          CONTAINS the two reserved keys as well (they live in the metadata)
* `Edge.to_dict(include_meta)`            source / destination = FULL node dictionaries (`self._source.to_dict()`
                                          ignores `include_meta`: always with metadata), edge_type, meta (optional)
* `CausalGraph.to_dict(include_meta)`     nodes keyed by identifier (sorted), edges nested `edges[src][dst]` in the
                                          order of `get_edges()` (sorted by source then destination), version, meta
* `Skeleton.to_dict(include_meta)`        the same with every edge type `--` and without the graph's `meta` key
* `Node.from_dict` / `TimeSeriesNode.from_dict`   `cls(identifier, variable_type, meta)`; the time-series constructor
                                          re-derives (variable, lag) from the identifier and writes them OVER whatever
                                          the metadata said (`_process_meta`: explicit arguments win); the top-level
                                          keys `time_lag` / `variable_name` of the dictionary are never read
* `Edge.from_dict`                        node class dispatch on `node_class` (anything unknown: `Node`)
* `TimeSeriesEdge.__init__`               converts plain endpoints (`TimeSeriesNode.from_dict(n.to_dict())`), swaps a
                                          non-directed edge that runs against time, refuses a directed one (ValueError)
* `CausalGraph.from_dict(d, validate)`    `cls(meta=…)`, nodes through `add_node(node=)`, edges through
                                          `add_edge(edge=, validate=)` — endpoints are Node OBJECTS carrying their own
                                          variable type / metadata, but nodes that exist already win (`_prepare_nodes`
                                          only creates the missing ones)

Deviation forced by the state type (reported, never exercised by the lane): after JSON the code stores the edge type
as the raw `str` it found (`edge_dict['edge_type']` is not coerced to `EdgeType`; `'->' == EdgeType.DIRECTED_EDGE` is
true for a `str` enum, so every reader behaves the same) and therefore ACCEPTS a text that is no edge type at all.
`EdgeRec.ty` is the enum, so `fromDict` answers `ValueError` for such a text (what `EdgeType(text)` would raise) and
the driver refuses to answer (`unmodelled`) instead of comparing.

No Mathlib: this file is linked into the driver.
-/
import CG.Model.Views
import CG.Generated.Enums

namespace CG.Dict
open CG Std

/-! ### canonical JSON text of the two reserved values -/

def hexDigitLower (n : Nat) : Char := if n < 10 then Char.ofNat (48 + n) else Char.ofNat (87 + n)

/-- `'\\u{0:04x}'.format(n)` for `n < 0x10000` -/
def uEscape (n : Nat) : String :=
  String.ofList ['\\', 'u', hexDigitLower (n / 4096 % 16), hexDigitLower (n / 256 % 16), hexDigitLower (n / 16 % 16),
    hexDigitLower (n % 16)]

/-- one character of `json.dumps(s, ensure_ascii=False)`: `"` `\` and the C0 controls are escaped, nothing else -/
def jsonEscChar (c : Char) : String :=
  if c = '"' then "\\\"" else if c = '\\' then "\\\\" else if c = '\n' then "\\n" else if c = '\r' then "\\r"
  else if c = '\t' then "\\t" else if c.toNat = 8 then "\\b" else if c.toNat = 12 then "\\f"
  else if c.toNat < 32 then uEscape c.toNat else String.singleton c

/-- canonical JSON text of a Python `str` (the harness's `cj`) -/
def jsonStr (s : String) : String := "\"" ++ String.join (s.toList.map jsonEscChar) ++ "\""

/-- canonical JSON text of a Python `int` -/
def jsonInt (i : Int) : String := toString i

/-! ### metadata with the reserved keys -/

/-- `meta[k] = v` on the sorted association list -/
def metaPut (k v : String) : Meta → Meta
  | [] => [(k, v)]
  | (k', v') :: rest =>
    if k < k' then (k, v) :: (k', v') :: rest
    else if k = k' then (k, v) :: rest
    else (k', v') :: metaPut k v rest

/-- the metadata dictionary a `TimeSeriesNode` OBJECT carries: whatever was supplied, with `time_lag` and
    `variable_name` written over it (`_process_meta` + `_update_metadata`) -/
def tsFull (m : Meta) (var : String) (lag : Int) : Meta :=
  metaPut "variable_name" (jsonStr var) (metaPut "time_lag" (jsonInt lag) m.tsStrip)

/-! ### the dictionary  (the key `meta` is the field `md`: `meta` is a reserved word of Lean) -/

structure DNode where
  identifier    : String
  variable_type : String
  node_class    : String
  md            : Option Meta
  time_lag      : Option Int := none
  variable_name : Option String := none
  deriving DecidableEq, Repr, Inhabited

structure DEdge where
  source      : DNode
  destination : DNode
  edge_type   : String
  md          : Option Meta
  deriving DecidableEq, Repr, Inhabited

structure DGraph where
  nodes   : List (String × DNode)
  edges   : List (String × List (String × DEdge))
  version : String
  md      : Option Meta
  deriving DecidableEq, Repr, Inhabited

/-- the nested loops `for source, destinations in d['edges'].items(): for destination, edge_dict in …` -/
def DGraph.flatEdges (d : DGraph) : List (String × String × DEdge) :=
  d.edges.flatMap (fun sd => sd.2.map (fun de => (sd.1, de.1, de.2)))

/-! ### to_dict -/

def nodeClassName : GraphClass → String
  | .plain => "Node"
  | .ts => "TimeSeriesNode"

/-- `node.to_dict(include_meta)` for a node of a graph of class `c` -/
def nodeDict (c : GraphClass) (inc : Bool) (n : String) (r : NodeRec) : DNode :=
  match c with
  | .plain =>
    { identifier := n, variable_type := r.vtype.text, node_class := nodeClassName .plain,
      md := if inc then some r.md else none }
  | .ts =>
    { identifier := n, variable_type := r.vtype.text, node_class := nodeClassName .ts,
      md := if inc then some (tsFull r.md r.var r.lag) else none,
      time_lag := some r.lag, variable_name := some r.var }

/-- the node object an edge holds is the graph's node with that identifier -/
def endNode (g : Graph) (n : String) : NodeRec := (g.nodes[n]?).getD default

/-- `edge.to_dict(include_meta)`: the endpoint dictionaries are always written WITH metadata -/
def edgeDict (g : Graph) (inc : Bool) (k : EKey) (ty : EdgeType) (md : Meta) : DEdge :=
  { source := nodeDict g.cls true k.1 (endNode g k.1),
    destination := nodeDict g.cls true k.2 (endNode g k.2),
    edge_type := ty.text,
    md := if inc then some md else none }

/-- `if source not in edges: edges[source] = dict(); edges[source][destination] = …` over a list in which equal
    sources are adjacent (`get_edges()` is sorted by source): consecutive grouping -/
def groupBySource : List (String × String × DEdge) → List (String × List (String × DEdge))
  | [] => []
  | (s, d, e) :: rest =>
    match groupBySource rest with
    | (s', items) :: gs => if s = s' then (s, (d, e) :: items) :: gs else (s, [(d, e)]) :: (s', items) :: gs
    | [] => [(s, [(d, e)])]

/-- `CausalGraph.to_dict(include_meta)` / `TimeSeriesCausalGraph.to_dict(include_meta)` -/
def toDict (inc : Bool) (g : Graph) : DGraph :=
  { nodes := g.nodes.toList.map (fun kv => (kv.1, nodeDict g.cls inc kv.1 kv.2)),
    edges := groupBySource (g.edges.toList.map (fun kv => (kv.1.1, kv.1.2, edgeDict g inc kv.1 kv.2.ty kv.2.md))),
    version := Generated.causalGraphVersion,
    md := if inc then some g.gmeta else none }

/-- `Skeleton.to_dict(include_meta)`: every edge re-typed `--` (metadata kept), no graph metadata key -/
def skeletonToDict (inc : Bool) (g : Graph) : DGraph :=
  { nodes := g.nodes.toList.map (fun kv => (kv.1, nodeDict g.cls inc kv.1 kv.2)),
    edges := groupBySource (g.edges.toList.map (fun kv => (kv.1.1, kv.1.2, edgeDict g inc kv.1 .undirected kv.2.md))),
    version := Generated.causalGraphVersion,
    md := none }

/-! ### from_dict -/

/-- a `Node` / `TimeSeriesNode` object outside any graph -/
structure NodeObj where
  id   : String
  vt   : VType
  md   : Meta
  isTs : Bool
  deriving Repr

/-- `Node.from_dict(d)` (`asTs = false`) / `TimeSeriesNode.from_dict(d)` (`asTs = true`) -/
def nodeFromDict (asTs : Bool) (d : DNode) : Except Err NodeObj :=
  if asTs then
    match Name.parse d.identifier with
    | none => .error .valueError
    | some (v, l) =>
      match VType.ofText? d.variable_type with
      | none => .error .valueError
      | some vt => .ok { id := d.identifier, vt := vt, md := tsFull (d.md.getD []) v l, isTs := true }
  else
    match VType.ofText? d.variable_type with
    | none => .error .valueError
    | some vt => .ok { id := d.identifier, vt := vt, md := d.md.getD [], isTs := false }

/-- `TimeSeriesNode.from_dict(node.to_dict(include_meta=True))` for an endpoint that is not a time-series node -/
def toTsObj (o : NodeObj) : Except Err NodeObj :=
  if o.isTs then .ok o else
  match Name.parse o.id with
  | none => .error .valueError
  | some (v, l) => .ok { o with md := tsFull o.md v l, isTs := true }

/-- time lag of a time-series node object (its identifier parses, by construction) -/
def objLag (o : NodeObj) : Int := ((Name.parse o.id).map (·.2)).getD 0

/-- an `Edge` / `TimeSeriesEdge` object outside any graph -/
structure EdgeObj where
  src : NodeObj
  dst : NodeObj
  ty  : EdgeType
  md  : Meta
  deriving Repr

/-- `TimeSeriesEdge.__init__`: convert, then swap / refuse -/
def tsEdgeInit (src dst : NodeObj) (ty : EdgeType) (md : Meta) : Except Err EdgeObj := do
  let s ← toTsObj src
  let d ← toTsObj dst
  if objLag s > objLag d then
    if ty ≠ .directed then .ok { src := d, dst := s, ty := ty, md := md } else .error .valueError
  else .ok { src := s, dst := d, ty := ty, md := md }

/-- `cls._EdgeCls.from_dict(edge_dict)` -/
def edgeFromDict (c : GraphClass) (e : DEdge) : Except Err EdgeObj := do
  let s ← nodeFromDict (e.source.node_class = nodeClassName .ts) e.source
  let d ← nodeFromDict (e.destination.node_class = nodeClassName .ts) e.destination
  match EdgeType.ofText? e.edge_type with
  | none => .error .valueError       -- see the header: the code stores the unknown text; not representable
  | some ty =>
    match c with
    | .plain => .ok { src := s, dst := d, ty := ty, md := e.md.getD [] }
    | .ts => tsEdgeInit s d ty (e.md.getD [])

def NodeObj.endpoint (o : NodeObj) : Endpoint := { id := o.id, obj := some (o.vt, o.md) }

/-- one iteration of the node loop: `node = cls._NodeCls.from_dict(node_dict); graph.add_node(node=node)` -/
def addDNode (c : GraphClass) (g : Graph) (d : DNode) : Except Err Graph := do
  let o ← nodeFromDict (c = .ts) d
  addNodeObj g o.id o.vt o.md

/-- one iteration of the edge loop: `edge = cls._EdgeCls.from_dict(edge_dict); graph.add_edge(edge=edge, validate=…)` -/
def addDEdge (c : GraphClass) (validate : Bool) (g : Graph) (e : DEdge) : Except Err Graph := do
  let o ← edgeFromDict c e
  addEdgeE g o.src.endpoint o.dst.endpoint o.ty o.md validate

/-- `cls.from_dict(d, validate)`; on an error the graph built so far is returned (the code raises: no graph) -/
def fromDict (c : GraphClass) (d : DGraph) (validate : Bool) : Graph × Option Err :=
  match bulk (addDNode c) (Graph.empty c (d.md.getD [])) (d.nodes.map (·.2)) with
  | (g1, some e) => (g1, some e)
  | (g1, none) => bulk (addDEdge c validate) g1 (d.flatEdges.map (·.2.2))

/-- every edge-type text of the dictionary is an `EdgeType` value (the region where the model speaks) -/
def DGraph.edgeTypesKnown (d : DGraph) : Bool := d.flatEdges.all (fun e => (EdgeType.ofText? e.2.2.edge_type).isSome)

/-- `graph.copy(include_meta)` = `self.__class__.from_dict(self.to_dict(include_meta), validate=False)` -/
def copyGraph (inc : Bool) (g : Graph) : Graph × Option Err := fromDict g.cls (toDict inc g) false

/-- `TimeSeriesCausalGraph.from_causal_graph(g)`: a time-series graph is returned as is, anything else goes through
    the dictionary without validation (the `sepsets` are copied separately and not modelled) -/
def fromCausalGraph (g : Graph) : Graph × Option Err :=
  match g.cls with
  | .ts => (g, none)
  | .plain => fromDict .ts (toDict true g) false

/-- `Skeleton.from_dict(d, graph_class)` = `Skeleton(graph_class.from_dict(d))` (validated; the result's graph) -/
def skeletonFromDict (c : GraphClass) (d : DGraph) : Graph × Option Err := fromDict c d true

/-- `g` with all user metadata removed (what survives `to_dict(include_meta=False)`) -/
def eraseMeta (g : Graph) : Graph :=
  { cls := g.cls, nodes := g.nodes.map (fun _ r => { r with md := [] }),
    edges := g.edges.map (fun _ r => { r with md := [] }), gmeta := [] }

end CG.Dict
