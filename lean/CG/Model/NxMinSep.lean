/-
Transcription of `networkx.minimal_d_separator(G, u, v)` and `networkx.is_minimal_d_separator(G, u, v, z)` as they are
in networkx 3.2.1 (`networkx/algorithms/d_separation.py`), together with everything they call: `nx.ancestors`,
`G.subgraph`, `nx.moral_graph` (`networkx/algorithms/moral.py`) and the private `_bfs_with_marks`.  Over
`nodes : List α` (= `G.nodes`) and `E : List (α × α)` (= `G.edges`).  No Mathlib.

```
def minimal_d_separator(G, u, v):
    if not nx.is_directed_acyclic_graph(G): raise nx.NetworkXError(...)
    union_uv = {u, v}
    if any(n not in G.nodes for n in union_uv): raise nx.NodeNotFound(...)
    x_anc = nx.ancestors(G, u)
    y_anc = nx.ancestors(G, v)
    D_anc_xy = x_anc.union(y_anc)
    D_anc_xy.update((u, v))
    moral_G = nx.moral_graph(G.subgraph(D_anc_xy))
    Z_prime = set(G.predecessors(u)).union(set(G.predecessors(v)))
    Z_dprime = _bfs_with_marks(moral_G, u, Z_prime)
    Z = _bfs_with_marks(moral_G, v, Z_dprime)
    return Z

def is_minimal_d_separator(G, u, v, z):
    if not nx.d_separated(G, {u}, {v}, z): return False          # both exceptions come out of this call
    x_anc = nx.ancestors(G, u)
    y_anc = nx.ancestors(G, v)
    xy_anc = x_anc.union(y_anc)
    if any(node not in xy_anc for node in z): return False
    D_anc_xy = x_anc.union(y_anc)
    D_anc_xy.update((u, v))
    moral_G = nx.moral_graph(G.subgraph(D_anc_xy))
    marks = _bfs_with_marks(moral_G, u, z)
    if any(node not in marks for node in z): return False
    marks = _bfs_with_marks(moral_G, v, z)
    if any(node not in marks for node in z): return False
    return True

def _bfs_with_marks(G, start_node, check_set):
    visited = {}; marked = set(); queue = []
    visited[start_node] = None
    queue.append(start_node)
    while queue:
        m = queue.pop(0)
        for nbr in G.neighbors(m):
            if nbr not in visited:
                visited[nbr] = None
                if nbr in check_set: marked.add(nbr)
                else: queue.append(nbr)
    return marked

def moral_graph(G):
    H = G.to_undirected()
    for preds in G.pred.values():
        H.add_edges_from(itertools.combinations(preds, r=2))
    return H

def ancestors(G, source): return {child for parent, child in nx.bfs_edges(G, source, reverse=True)}
```

What is literal: the order of the statements and of the checks (DAG test, then presence of `u`, `v`; for
`is_minimal_d_separator` both errors are those of `d_separated`, reused from `CG.NxDSep.dSeparated`); `ancestors` leaves
out the source itself; `D_anc_xy` is the union of the two ancestor sets with `u`, `v` added while `xy_anc` is the union
WITHOUT `u`, `v`; the sub-graph keeps the nodes of `D_anc_xy` and the edges with both ends in it; the moral graph is the
skeleton plus one edge for every 2-combination of the distinct predecessors of every node; `_bfs_with_marks` is the
queue / visited / marked loop exactly as written: the start node is visited but never marked (also when it is in the
check set) and IS expanded, a marked node is visited but not queued, pop at the head, append at the tail.  The loop is
fuel free: it terminates by the measure `queue length + number of not yet visited edge targets`
(with multiplicity).

What is abstracted: a Python `set` / `dict` is a list (insertion at the tail, membership test by `∈`); the undirected
graph `H` is its node list plus an edge list holding BOTH orientations of every edge (`G.neighbors(m)` = the distinct
second components of the pairs that start at `m`); the iteration order of `G.neighbors` / of a `set` is not reproduced.
The returned set is compared *as a set* (the driver sorts it); `CG.MinSepBfs.mem_bfsLoop_any_order` proves that
membership in the result is the same for EVERY enumeration of the neighbour lists (the loop `bfsLoop` is written for an
arbitrary enumeration `nb`; `bfsWithMarks` instantiates it with edge-list order), and `CG.MinSepBfs.bfsWithMarks_nodup`
that the result has no repeated member.  `G.neighbors(m)` raises `NetworkXError` when `m` is not a node
of `H`: inside the loop this can only happen to the start node (every other queued node is a neighbour), so the check is
made once in front of the loop (`bfsWithMarksE`); in the two public functions the start nodes `u`, `v` are in `H` by
construction, so they call `bfsWithMarks` directly.
-/
import CG.Model.NxDSep
set_option linter.unusedSectionVars false
set_option linter.unusedSimpArgs false

namespace CG.NxMinSep
variable {α : Type} [DecidableEq α]

open CG.EL (succs preds reach rev)
open CG.DSepDec (sym acyclicB)
open CG.NxDSep (NxErr dSeparated predecessors)

/-! ### sets as lists -/

/-- `a.union(b)` -/
def unionL (a b : List α) : List α := a ++ b.filter (fun x => x ∉ a)

/-- `s.add(x)` -/
def addL (s : List α) (x : α) : List α := if x ∈ s then s else s ++ [x]

/-! ### `nx.ancestors`, `G.subgraph`, `nx.moral_graph` -/

/-- `nx.ancestors(G, s)`: what a breadth-first search along reversed edges reaches, the source itself left out -/
def ancestors (E : List (α × α)) (s : α) : List α := (reach (rev E) s).filter (fun a => a ≠ s)

/-- `D_anc_xy`: `x_anc.union(y_anc)` followed by `update((u, v))` -/
def ancSet (E : List (α × α)) (u v : α) : List α := addL (addL (unionL (ancestors E u) (ancestors E v)) u) v

/-- `G.subgraph(D)`, nodes (in `G.nodes` order) -/
def subNodes (nodes : List α) (D : List α) : List α := nodes.filter (fun n => n ∈ D)

/-- `G.subgraph(D)`, edges (in `G.edges` order) -/
def subEdges (E : List (α × α)) (D : List α) : List (α × α) := E.filter (fun e => e.1 ∈ D ∧ e.2 ∈ D)

/-- `itertools.combinations(l, 2)` -/
def pairs : List α → List (α × α)
  | [] => []
  | a :: l => l.map (fun b => (a, b)) ++ pairs l

/-- `nx.moral_graph(G)` for `G = (N, Es)`: the edge list of `H`, both orientations of every undirected edge:
    `G.to_undirected()` followed by `add_edges_from(combinations(preds, 2))` for the predecessor dict of every node -/
def moralEdges (N : List α) (Es : List (α × α)) : List (α × α) :=
  sym (Es ++ N.flatMap (fun c => pairs (predecessors Es c)))

/-- `H.neighbors(m)` -/
def neighbors (Em : List (α × α)) (m : α) : List α := (succs Em m).eraseDups

/-! ### `_bfs_with_marks` -/

structure BfsState (α : Type) where
  visited : List α
  marked : List α
  queue : List α

/-- the body of `for nbr in G.neighbors(m)` -/
def visit (C : List α) (st : BfsState α) (nbr : α) : BfsState α :=
  if nbr ∈ st.visited then st
  else if nbr ∈ C then { visited := st.visited ++ [nbr], marked := st.marked ++ [nbr], queue := st.queue }
  else { visited := st.visited ++ [nbr], marked := st.marked, queue := st.queue ++ [nbr] }

/-- the whole `for` loop over a neighbour list -/
def visitAll (C : List α) (st : BfsState α) (nbrs : List α) : BfsState α := nbrs.foldl (visit C) st

/-- members of the universe `V` that have not been visited yet (the potential that makes the loop terminate) -/
def unvisited (V : List α) (visited : List α) : Nat := (V.filter (fun x => x ∉ visited)).length

theorem unvisited_append_le (V : List α) (vis : List α) (x : α) :
    unvisited V (vis ++ [x]) ≤ unvisited V vis := by
  unfold unvisited
  induction V with
  | nil => simp
  | cons e V ih =>
    simp only [List.filter_cons]
    by_cases h1 : e ∈ vis
    · have h2 : e ∈ vis ++ [x] := List.mem_append_left _ h1
      simp only [h1, h2, not_true_eq_false, decide_false, Bool.false_eq_true, if_false]
      exact ih
    · by_cases h2 : e ∈ vis ++ [x]
      · simp only [h1, h2, not_true_eq_false, not_false_eq_true, decide_false, decide_true, Bool.false_eq_true,
          if_false, if_true, List.length_cons]
        omega
      · simp only [h1, h2, not_false_eq_true, decide_true, if_true, List.length_cons]
        omega

theorem unvisited_append_lt (V : List α) (vis : List α) (x : α) (hx : x ∉ vis)
    (hV : x ∈ V) : unvisited V (vis ++ [x]) < unvisited V vis := by
  unfold unvisited
  induction V with
  | nil => simp at hV
  | cons e V ih =>
    simp only [List.filter_cons]
    rcases List.mem_cons.mp hV with h | h
    · have h1 : e ∉ vis := by rw [← h]; exact hx
      have h2 : e ∈ vis ++ [x] := by rw [← h]; simp
      have := unvisited_append_le V vis x
      unfold unvisited at this
      simp only [h1, h2, not_true_eq_false, not_false_eq_true, decide_false, decide_true, Bool.false_eq_true,
        if_false, if_true, List.length_cons]
      omega
    · have := ih h
      by_cases h1 : e ∈ vis
      · have h2 : e ∈ vis ++ [x] := List.mem_append_left _ h1
        simp only [h1, h2, not_true_eq_false, decide_false, Bool.false_eq_true, if_false]
        exact this
      · by_cases h2 : e ∈ vis ++ [x]
        · simp only [h1, h2, not_true_eq_false, not_false_eq_true, decide_false, decide_true, Bool.false_eq_true,
            if_false, if_true, List.length_cons]
          omega
        · simp only [h1, h2, not_false_eq_true, decide_true, if_true, List.length_cons]
          omega

theorem visit_measure (V : List α) (C : List α) (st : BfsState α) (nbr : α) (h : nbr ∈ V) :
    (visit C st nbr).queue.length + unvisited V (visit C st nbr).visited ≤
      st.queue.length + unvisited V st.visited := by
  unfold visit
  by_cases h1 : nbr ∈ st.visited
  · simp only [h1, if_true]; omega
  · have := unvisited_append_lt V st.visited nbr h1 h
    by_cases h2 : nbr ∈ C
    · simp only [h1, h2, if_true, if_false]; omega
    · simp only [h1, h2, if_false, List.length_append, List.length_cons, List.length_nil]; omega

theorem visitAll_measure (V : List α) (C : List α) (nbrs : List α) :
    ∀ (st : BfsState α), (∀ n, n ∈ nbrs → n ∈ V) →
      (visitAll C st nbrs).queue.length + unvisited V (visitAll C st nbrs).visited ≤
        st.queue.length + unvisited V st.visited := by
  induction nbrs with
  | nil => intro st _; exact Nat.le_refl _
  | cons n nbrs ih =>
    intro st h
    have h1 := visit_measure V C st n (h n List.mem_cons_self)
    have h2 := ih (visit C st n) (fun x hx => h x (List.mem_cons_of_mem _ hx))
    show (visitAll C (visit C st n) nbrs).queue.length + unvisited V (visitAll C (visit C st n) nbrs).visited ≤ _
    omega

/-- the `while queue:` loop, for ANY enumeration `nb` of neighbour lists that stays inside a finite universe `V` (the
    universe and the proof `hnb` only serve termination; they are erased from the compiled code) -/
def bfsLoop (V : List α) (nb : α → List α) (hnb : ∀ m n, n ∈ nb m → n ∈ V) (C : List α)
    (visited marked : List α) (queue : List α) : List α :=
  match queue with
  | [] => marked
  | m :: q =>
    let st := visitAll C ⟨visited, marked, q⟩ (nb m)
    bfsLoop V nb hnb C st.visited st.marked st.queue
termination_by queue.length + unvisited V visited
decreasing_by
  have := visitAll_measure V C (nb m) ⟨visited, marked, q⟩ (hnb m)
  simp only [List.length_cons] at this ⊢
  omega

/-- every node that is the target of an edge of `H` -/
def targets (Em : List (α × α)) : List α := Em.map (fun e => e.2)

theorem neighbors_target {Em : List (α × α)} (m n : α) (h : n ∈ neighbors Em m) : n ∈ targets Em := by
  unfold neighbors at h
  rw [List.mem_eraseDups] at h
  exact List.mem_map.mpr ⟨(m, n), CG.EL.mem_succs.mp h, rfl⟩

/-- `_bfs_with_marks(H, start, check_set)` for a start node that is in `H` -/
def bfsWithMarks (Em : List (α × α)) (start : α) (C : List α) : List α :=
  bfsLoop (targets Em) (neighbors Em) neighbors_target C [start] [] [start]

/-! ### the two public functions -/

/-- `moral_G = nx.moral_graph(G.subgraph(D_anc_xy))`: its node list -/
def moralNodesOf (nodes : List α) (E : List (α × α)) (u v : α) : List α := subNodes nodes (ancSet E u v)

/-- `moral_G = nx.moral_graph(G.subgraph(D_anc_xy))`: its edge list (both orientations) -/
def moralOf (nodes : List α) (E : List (α × α)) (u v : α) : List (α × α) :=
  moralEdges (subNodes nodes (ancSet E u v)) (subEdges E (ancSet E u v))

/-- `Z_prime` -/
def zPrime (E : List (α × α)) (u v : α) : List α := unionL (predecessors E u) (predecessors E v)

/-- `networkx.minimal_d_separator(G, u, v)` -/
def nxMinimalDSeparator (nodes : List α) (E : List (α × α)) (u v : α) : Except NxErr (List α) :=
  if !acyclicB E then .error .NetworkXError
  else if [u, v].any (fun n => decide (n ∉ nodes)) then .error .NodeNotFound
  else
    let Em := moralOf nodes E u v
    let zDprime := bfsWithMarks Em u (zPrime E u v)
    .ok (bfsWithMarks Em v zDprime)

/-- `networkx.is_minimal_d_separator(G, u, v, z)` -/
def nxIsMinimalDSeparator (nodes : List α) (E : List (α × α)) (u v : α) (Z : List α) : Except NxErr Bool :=
  match dSeparated nodes E [u] [v] Z with
  | .error e => .error e
  | .ok false => .ok false
  | .ok true =>
    let xyAnc := unionL (ancestors E u) (ancestors E v)
    if Z.any (fun n => decide (n ∉ xyAnc)) then .ok false
    else
      let Em := moralOf nodes E u v
      if Z.any (fun n => decide (n ∉ bfsWithMarks Em u Z)) then .ok false
      else if Z.any (fun n => decide (n ∉ bfsWithMarks Em v Z)) then .ok false
      else .ok true

/-- `_bfs_with_marks(moral_G, start, check)` called from outside on the moral graph of `An(u, v)`: `nx.ancestors` raises
    `NetworkXError` for a node that is not in `G`, and so does `H.neighbors(start)` for a start node that is not in `H` -/
def bfsWithMarksE (nodes : List α) (E : List (α × α)) (u v start : α) (C : List α) : Except NxErr (List α) :=
  if [u, v].any (fun n => decide (n ∉ nodes)) then .error .NetworkXError
  else if start ∉ moralNodesOf nodes E u v then .error .NetworkXError
  else .ok (bfsWithMarks (moralOf nodes E u v) start C)

-- 1 → 3 ← 2, 3 → 4, 3 → 5, 1 → 4: separating 4 from 5 needs {3}; {1, 3} is not minimal, {1} does not separate
#eval (nxMinimalDSeparator [1,2,3,4,5] [(1,3),(2,3),(3,4),(3,5),(1,4)] 4 5,
       nxIsMinimalDSeparator [1,2,3,4,5] [(1,3),(2,3),(3,4),(3,5),(1,4)] 4 5 [3],
       nxIsMinimalDSeparator [1,2,3,4,5] [(1,3),(2,3),(3,4),(3,5),(1,4)] 4 5 [1,3],
       nxIsMinimalDSeparator [1,2,3,4,5] [(1,3),(2,3),(3,4),(3,5),(1,4)] 4 5 [1],
       moralOf [1,2,3,4,5] [(1,3),(2,3),(3,4),(3,5),(1,4)] 4 5)

end CG.NxMinSep
