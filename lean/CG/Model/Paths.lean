/-
Enumeration of all simple directed paths over an edge list, sound and complete (`paths_sound`,
`paths_complete`).  Used for `get_all_causal_paths` (C10) and, over the symmetrised edge list, for the
definitional d-separation model (C11).  No Mathlib.
-/
import CG.Model.EdgeList
set_option linter.unusedSectionVars false
set_option linter.unusedSimpArgs false

namespace CG.Paths
variable {α : Type} [DecidableEq α]

open CG.EL (Rel succs mem_succs)

/-- `Walk E a b p`: `p` is the vertex list of a walk from `a` to `b` along edges of `E` -/
inductive Walk (E : List (α × α)) : α → α → List α → Prop
  | single (a) : Walk E a a [a]
  | cons {a s b p} : Rel E a s → Walk E s b p → Walk E a b (a :: p)

def paths (E : List (α × α)) (b : α) : Nat → α → List α → List (List α)
  | 0, _, _ => []
  | f + 1, a, vis =>
    if a = b then [[a]]
    else ((succs E a).filter (fun s => s ∉ a :: vis)).flatMap
      (fun s => (paths E b f s (a :: vis)).map (a :: ·))

/-- specification: simple path avoiding `vis`, of length at most `f` -/
def Good (E : List (α × α)) (a b : α) (vis : List α) (f : Nat) (p : List α) : Prop :=
  Walk E a b p ∧ p.Nodup ∧ (∀ x ∈ p, x ∉ vis) ∧ p.length ≤ f

theorem walk_head_mem {E : List (α × α)} {a b : α} {p : List α} (h : Walk E a b p) : a ∈ p := by
  cases h <;> simp

theorem paths_sound (E : List (α × α)) (b : α) :
    ∀ (f : Nat) (a : α) (vis : List α), a ∉ vis → ∀ p ∈ paths E b f a vis, Good E a b vis f p := by
  intro f
  induction f with
  | zero => intro a vis _ p hp; simp [paths] at hp
  | succ f ih =>
    intro a vis hav p hp
    simp only [paths] at hp
    split at hp
    · rename_i hab; subst hab
      simp at hp; subst hp
      exact ⟨.single _, by simp, by simpa using hav, by simp⟩
    · rename_i hab
      simp only [List.mem_flatMap, List.mem_filter, List.mem_map, decide_eq_true_eq] at hp
      obtain ⟨s, ⟨hs, hsv⟩, q, hq, rfl⟩ := hp
      have hsv' : s ∉ a :: vis := hsv
      obtain ⟨hw, hnd, hvis, hlen⟩ := ih s (a :: vis) hsv' q hq
      refine ⟨.cons (mem_succs.mp hs) hw, ?_, ?_, by simp; omega⟩
      · refine List.nodup_cons.mpr ⟨?_, hnd⟩
        intro haq; exact (hvis a haq) (List.mem_cons_self)
      · intro x hx
        rcases List.mem_cons.mp hx with h | h
        · subst h; exact hav
        · exact fun hxv => hvis x h (List.mem_cons_of_mem _ hxv)

theorem paths_complete (E : List (α × α)) (b : α) :
    ∀ (f : Nat) (a : α) (vis : List α) (p : List α), Good E a b vis f p → p ∈ paths E b f a vis := by
  intro f
  induction f with
  | zero =>
    intro a vis p ⟨hw, _, _, hlen⟩
    cases hw <;> simp at hlen
  | succ f ih =>
    intro a vis p ⟨hw, hnd, hvis, hlen⟩
    simp only [paths]
    cases hw with
    | single => simp
    | cons hr hw' =>
      rename_i s q
      have hab : a ≠ b := by
        intro h; subst h
        -- then a is the last element of q too, contradicting Nodup
        have : a ∈ q := by
          clear ih hlen hvis hr
          induction hw' with
          | single => simp
          | cons _ _ ih' => exact List.mem_cons_of_mem _ (ih' (by simp_all) )
        exact (List.nodup_cons.mp hnd).1 this
      simp only [hab, if_false, List.mem_flatMap, List.mem_filter, List.mem_map, decide_eq_true_eq]
      have hsq : s ∈ q := walk_head_mem hw'
      have hnd' := List.nodup_cons.mp hnd
      refine ⟨s, ⟨mem_succs.mpr hr, ?_⟩, q, ?_, rfl⟩
      · intro h
        rcases List.mem_cons.mp h with h | h
        · subst h; exact hnd'.1 hsq
        · exact hvis s (List.mem_cons_of_mem _ hsq) h
      · apply ih
        refine ⟨hw', hnd'.2, ?_, by simp at hlen; omega⟩
        intro x hx hxv
        rcases List.mem_cons.mp hxv with h | h
        · subst h; exact hnd'.1 hx
        · exact hvis x (List.mem_cons_of_mem _ hx) h

end CG.Paths
