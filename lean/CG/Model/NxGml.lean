/-
Transcription of the GML text layer of networkx 3.2.1 (`networkx/readwrite/gml.py`) for the graphs the library writes and
reads: `CausalGraph.to_gml_string()` is `'\n'.join(networkx.generate_gml(self.to_networkx()))`, `from_gml_string(gml)` calls
`networkx.parse_gml(gml)` on a `str` (default `label='label'`, no destringizer).  Everything here works on `List Char`
(a Python `str` without lone surrogates); `generateGml` / `parseGml` at the end are the `String` wrappers.  No Mathlib.

WRITING (`escape`, `generate_gml` for a `DiGraph` / `Graph` with `str` nodes and no node / edge / graph attributes)

```
def escape(text):
    def fixup(m): return "&#" + str(ord(m.group(0))) + ";"
    return re.sub('[^ -~]|[&"]', fixup, text)

def generate_gml(G):
    yield "graph ["
    if G.is_directed(): yield "  directed 1"
    node_id = dict(zip(G, range(len(G))))
    for node in G.nodes:  yield "  node ["; yield "    id " + str(node_id[node]); yield '    label "' + escape(node) + '"'; yield "  ]"
    for u, v in G.edges:  yield "  edge ["; yield "    source " + str(node_id[u]); yield "    target " + str(node_id[v]); yield "  ]"
    yield "]"
```

`genLines directed labels edges` takes `labels = list(G)` and `edges = list(G.edges)` (label pairs, networkx's iteration
order).  `node_id[u]` of a label that is not in `labels` cannot happen in Python; the model writes `len(labels)` there.

READING (`parse_gml(text)`): `text.splitlines()` (`splitLines`: the ten Python line boundaries, `\r\n` as one), the tokenizer
(`tokLines`: the multi-line-string bookkeeping, then `nextTok` = the seven regex alternatives in `Pattern` order with Python's
backtracking priorities), the recursive descent `parse_kv` / `parse_dict` (`parseKv`, with the one-token look-ahead and the
LAZY token generator: a tokenizer exception is a pseudo token `Token.err` that is raised when the parser pulls it, so a
parser error that comes earlier in the text wins, exactly as with the Python generator), `unescape`, and the graph building
part of `parse_gml_lines` (`build` = `graphParts`, then `buildGraph`: the node loop `buildNodes`, the edge loop `buildEdges`)
followed by `relabel_nodes(G, mapping)` (copy mode).

Things that are mirrored although they look odd (all measured by `harness/lanes/c08_nxgml.py`):
* a quoted value that reads `()` becomes the empty tuple, `[]` the empty list; as a node label the first gives a node that
  is not a string, the second `TypeError` (unhashable);  `graph "[]"` is "more than one graph", `node "[]"` is no node;
* `int()` refuses more than 4300 digits (`ValueError`) -- in an INTS token and in `&#<digits>;`;  `+INFe5` is a REALS
  token on which `float()` raises `ValueError`;  an empty line inside a multi-line string is `IndexError`;
* for the keys `id`, `label`, `source`, `target` any token is accepted as a value (`label ]` is the label `"]"`), and every
  exception while doing so is turned into `NetworkXError`;  `foo NAN` / `foo INF` are floats for any other key;
* attribute keys `self`, `node_for_adding` (node) / `self`, `u_of_edge`, `v_of_edge` (edge) clash with the parameters of
  `add_node` / `add_edge`: `TypeError`;  a `node` / `edge` / `graph` value that is not a dict: `AttributeError`, but
  `TypeError` when it is a list (one of several `edge` values reads `"[]"`: `[].pop("source")`).

`Err.unsupported` (never an answer about networkx, always "this model does not say"), exactly in these cases:
* a REALS value (or `NAN` / `INF`) is needed as a truth value (`directed`, `multigraph`) or as `id` / `label` / `source` /
  `target` (Python's float parsing and `1 == 1.0` are not modelled);  a true `multigraph` flag;
* a character reference to a surrogate code point (`&#55296;`), which is a Python `str` but not a Lean `String`;
* `parseKv` out of fuel, which cannot happen (the fuel is the number of tokens + 1 and every call consumes a token).
Named entities are complete (the 252 names of `html.entities.name2codepoint`), and so is `\b` after a key (`wordRanges`: the
744 ranges of `str.isalnum()` above ASCII, generated from CPython 3.12.1 / Unicode 15.0.0).

The graph object: `G` is (nodes in insertion order, edges in insertion order); the gml code only calls `add_edge` after
`has_edge` said no, so the adjacency dicts are `adjOf` (the neighbours in insertion order) and `list(G.edges)` is `edgesView`.
-/

namespace CG.NxGml

inductive Err where
  | NetworkXError | ValueError | IndexError | TypeError | AttributeError | unsupported
  deriving DecidableEq, Repr, Inhabited

def Err.name : Err → String
  | .NetworkXError => "NetworkXError"
  | .ValueError => "ValueError"
  | .IndexError => "IndexError"
  | .TypeError => "TypeError"
  | .AttributeError => "AttributeError"
  | .unsupported => "unsupported"

abbrev R := Except Err

/-! ## characters -/

/-- `[0-9A-Za-z_]` -/
def isKeyChar (c : Char) : Bool := c.isAlphanum || c == '_'

/-- `[0-9A-Fa-f]` -/
def isHexChar (c : Char) : Bool := c.isDigit || ('a' ≤ c && c ≤ 'f') || ('A' ≤ c && c ≤ 'F')

/-- `str.isspace()` of one character = `\s` of a `str` pattern -/
def isSpace (c : Char) : Bool :=
  let n := c.toNat
  (9 ≤ n && n ≤ 13) || (28 ≤ n && n ≤ 32) || n == 0x85 || n == 0xa0 || n == 0x1680 || (0x2000 ≤ n && n ≤ 0x200a) ||
  n == 0x2028 || n == 0x2029 || n == 0x202f || n == 0x205f || n == 0x3000

/-- the line boundaries of `str.splitlines()` -/
def isBreak (c : Char) : Bool :=
  let n := c.toNat
  (10 ≤ n && n ≤ 13) || (0x1c ≤ n && n ≤ 0x1e) || n == 0x85 || n == 0x2028 || n == 0x2029

/-- Python's limit on `int(<decimal string>)` -/
def maxDigits : Nat := 4300

/-- the longest prefix whose characters satisfy `p`, and the rest (a greedy character-class repetition) -/
def spanP (p : Char → Bool) : List Char → List Char × List Char
  | [] => ([], [])
  | c :: cs => if p c then ((c :: (spanP p cs).1), (spanP p cs).2) else ([], c :: cs)

/-! ## escape / generate_gml -/

/-- `[^ -~]|[&"]` -/
def needsEsc (c : Char) : Bool := !(' ' ≤ c && c ≤ '~') || c == '&' || c == '"'

def escChar (c : Char) : List Char :=
  if needsEsc c then '&' :: '#' :: (Nat.toDigits 10 c.toNat ++ [';']) else [c]

def escape (s : List Char) : List Char := s.flatMap escChar

/-- `node_id[x]` as text (`len(labels)` for a label that is not there, which Python never sees) -/
def idText (labels : List (List Char)) (x : List Char) : List Char := Nat.toDigits 10 (labels.idxOf x)

def lGraph : List Char := ['g','r','a','p','h',' ','[']
def lDirected : List Char := [' ',' ','d','i','r','e','c','t','e','d',' ','1']
def lNode : List Char := [' ',' ','n','o','d','e',' ','[']
def lEdge : List Char := [' ',' ','e','d','g','e',' ','[']
def lClose2 : List Char := [' ',' ',']']
def lClose : List Char := [']']
def pId : List Char := [' ',' ',' ',' ','i','d',' ']
def pLabel : List Char := [' ',' ',' ',' ','l','a','b','e','l',' ','"']
def pSource : List Char := [' ',' ',' ',' ','s','o','u','r','c','e',' ']
def pTarget : List Char := [' ',' ',' ',' ','t','a','r','g','e','t',' ']

def nodeLines (i : Nat) (label : List Char) : List (List Char) :=
  [lNode, pId ++ Nat.toDigits 10 i, pLabel ++ escape label ++ ['"'], lClose2]

def edgeLines (labels : List (List Char)) (e : List Char × List Char) : List (List Char) :=
  [lEdge, pSource ++ idText labels e.1, pTarget ++ idText labels e.2, lClose2]

/-- the node blocks of `ls`, numbered from `i` -/
def nodeBlocks : Nat → List (List Char) → List (List Char)
  | _, [] => []
  | i, l :: ls => nodeLines i l ++ nodeBlocks (i + 1) ls

/-- `list(generate_gml(G))` -/
def genLines (directed : Bool) (labels : List (List Char)) (edges : List (List Char × List Char)) : List (List Char) :=
  [lGraph] ++ (if directed then [lDirected] else []) ++ nodeBlocks 0 labels ++ edges.flatMap (edgeLines labels) ++ [lClose]

/-- `'\n'.join(lines)` -/
def joinLines : List (List Char) → List Char
  | [] => []
  | [l] => l
  | l :: ls => l ++ '\n' :: joinLines ls

def genText (directed : Bool) (labels : List (List Char)) (edges : List (List Char × List Char)) : List Char :=
  joinLines (genLines directed labels edges)

/-! ## unescape -/

def entityTable : List (String × Nat) := [
  ("AElig", 198), ("Aacute", 193), ("Acirc", 194), ("Agrave", 192), ("Alpha", 913), ("Aring", 197), ("Atilde", 195), ("Auml", 196),
  ("Beta", 914), ("Ccedil", 199), ("Chi", 935), ("Dagger", 8225), ("Delta", 916), ("ETH", 208), ("Eacute", 201), ("Ecirc", 202),
  ("Egrave", 200), ("Epsilon", 917), ("Eta", 919), ("Euml", 203), ("Gamma", 915), ("Iacute", 205), ("Icirc", 206), ("Igrave", 204),
  ("Iota", 921), ("Iuml", 207), ("Kappa", 922), ("Lambda", 923), ("Mu", 924), ("Ntilde", 209), ("Nu", 925), ("OElig", 338),
  ("Oacute", 211), ("Ocirc", 212), ("Ograve", 210), ("Omega", 937), ("Omicron", 927), ("Oslash", 216), ("Otilde", 213), ("Ouml", 214),
  ("Phi", 934), ("Pi", 928), ("Prime", 8243), ("Psi", 936), ("Rho", 929), ("Scaron", 352), ("Sigma", 931), ("THORN", 222),
  ("Tau", 932), ("Theta", 920), ("Uacute", 218), ("Ucirc", 219), ("Ugrave", 217), ("Upsilon", 933), ("Uuml", 220), ("Xi", 926),
  ("Yacute", 221), ("Yuml", 376), ("Zeta", 918), ("aacute", 225), ("acirc", 226), ("acute", 180), ("aelig", 230), ("agrave", 224),
  ("alefsym", 8501), ("alpha", 945), ("amp", 38), ("and", 8743), ("ang", 8736), ("aring", 229), ("asymp", 8776), ("atilde", 227),
  ("auml", 228), ("bdquo", 8222), ("beta", 946), ("brvbar", 166), ("bull", 8226), ("cap", 8745), ("ccedil", 231), ("cedil", 184),
  ("cent", 162), ("chi", 967), ("circ", 710), ("clubs", 9827), ("cong", 8773), ("copy", 169), ("crarr", 8629), ("cup", 8746),
  ("curren", 164), ("dArr", 8659), ("dagger", 8224), ("darr", 8595), ("deg", 176), ("delta", 948), ("diams", 9830), ("divide", 247),
  ("eacute", 233), ("ecirc", 234), ("egrave", 232), ("empty", 8709), ("emsp", 8195), ("ensp", 8194), ("epsilon", 949), ("equiv", 8801),
  ("eta", 951), ("eth", 240), ("euml", 235), ("euro", 8364), ("exist", 8707), ("fnof", 402), ("forall", 8704), ("frac12", 189),
  ("frac14", 188), ("frac34", 190), ("frasl", 8260), ("gamma", 947), ("ge", 8805), ("gt", 62), ("hArr", 8660), ("harr", 8596),
  ("hearts", 9829), ("hellip", 8230), ("iacute", 237), ("icirc", 238), ("iexcl", 161), ("igrave", 236), ("image", 8465), ("infin", 8734),
  ("int", 8747), ("iota", 953), ("iquest", 191), ("isin", 8712), ("iuml", 239), ("kappa", 954), ("lArr", 8656), ("lambda", 955),
  ("lang", 9001), ("laquo", 171), ("larr", 8592), ("lceil", 8968), ("ldquo", 8220), ("le", 8804), ("lfloor", 8970), ("lowast", 8727),
  ("loz", 9674), ("lrm", 8206), ("lsaquo", 8249), ("lsquo", 8216), ("lt", 60), ("macr", 175), ("mdash", 8212), ("micro", 181),
  ("middot", 183), ("minus", 8722), ("mu", 956), ("nabla", 8711), ("nbsp", 160), ("ndash", 8211), ("ne", 8800), ("ni", 8715),
  ("not", 172), ("notin", 8713), ("nsub", 8836), ("ntilde", 241), ("nu", 957), ("oacute", 243), ("ocirc", 244), ("oelig", 339),
  ("ograve", 242), ("oline", 8254), ("omega", 969), ("omicron", 959), ("oplus", 8853), ("or", 8744), ("ordf", 170), ("ordm", 186),
  ("oslash", 248), ("otilde", 245), ("otimes", 8855), ("ouml", 246), ("para", 182), ("part", 8706), ("permil", 8240), ("perp", 8869),
  ("phi", 966), ("pi", 960), ("piv", 982), ("plusmn", 177), ("pound", 163), ("prime", 8242), ("prod", 8719), ("prop", 8733),
  ("psi", 968), ("quot", 34), ("rArr", 8658), ("radic", 8730), ("rang", 9002), ("raquo", 187), ("rarr", 8594), ("rceil", 8969),
  ("rdquo", 8221), ("real", 8476), ("reg", 174), ("rfloor", 8971), ("rho", 961), ("rlm", 8207), ("rsaquo", 8250), ("rsquo", 8217),
  ("sbquo", 8218), ("scaron", 353), ("sdot", 8901), ("sect", 167), ("shy", 173), ("sigma", 963), ("sigmaf", 962), ("sim", 8764),
  ("spades", 9824), ("sub", 8834), ("sube", 8838), ("sum", 8721), ("sup", 8835), ("sup1", 185), ("sup2", 178), ("sup3", 179),
  ("supe", 8839), ("szlig", 223), ("tau", 964), ("there4", 8756), ("theta", 952), ("thetasym", 977), ("thinsp", 8201), ("thorn", 254),
  ("tilde", 732), ("times", 215), ("trade", 8482), ("uArr", 8657), ("uacute", 250), ("uarr", 8593), ("ucirc", 251), ("ugrave", 249),
  ("uml", 168), ("upsih", 978), ("upsilon", 965), ("uuml", 252), ("weierp", 8472), ("xi", 958), ("yacute", 253), ("yen", 165),
  ("yuml", 255), ("zeta", 950), ("zwj", 8205), ("zwnj", 8204)
]

inductive Ent where
  | named (name : List Char)
  | dec (digits : List Char)
  | hex (digits : List Char)

/-- the text the match object covers (without the leading `&`), for "leave unchanged" -/
def Ent.text : Ent → List Char
  | .named n => n ++ [';']
  | .dec d => '#' :: d ++ [';']
  | .hex d => '#' :: 'x' :: d ++ [';']

/-- `(?:[0-9A-Za-z]+|#(?:[0-9]+|x[0-9A-Fa-f]+));` at the character after an `&`; the rest after the `;` -/
def matchEntity (cs : List Char) : Option (Ent × List Char) :=
  let (al, r) := spanP Char.isAlphanum cs
  if !al.isEmpty then
    match r with
    | ';' :: r' => some (.named al, r')
    | _ => none
  else match cs with
    | '#' :: r1 =>
      let (ds, r2) := spanP Char.isDigit r1
      match ds.isEmpty, r2 with
      | false, ';' :: r3 => some (.dec ds, r3)
      | _, _ =>
        match r1 with
        | 'x' :: r3 =>
          let (hs, r4) := spanP isHexChar r3
          match hs.isEmpty, r4 with
          | false, ';' :: r5 => some (.hex hs, r5)
          | _, _ => none
        | _ => none
    | _ => none

def hexVal (c : Char) : Nat :=
  if c.isDigit then c.toNat - 48 else if 'a' ≤ c && c ≤ 'f' then c.toNat - 87 else c.toNat - 55

def ofHexChars (l : List Char) : Nat := l.foldl (fun a c => 16 * a + hexVal c) 0

/-- `chr(code)` inside `try … except (ValueError, OverflowError): return text` -/
def chrOr (code : Nat) (text : List Char) : R (List Char) :=
  if 0x110000 ≤ code then pure text
  else if 0xD800 ≤ code && code ≤ 0xDFFF then throw .unsupported
  else pure [Char.ofNat code]

def fixup (e : Ent) : R (List Char) :=
  match e with
  | .dec ds => if maxDigits < ds.length then throw .ValueError else chrOr (Nat.ofDigitChars 10 ds 0) ('&' :: e.text)
  | .hex hs => chrOr (ofHexChars hs) ('&' :: e.text)
  | .named n =>
    match entityTable.lookup (String.ofList n) with
    | some code => chrOr code ('&' :: e.text)
    | none => pure ('&' :: e.text)

/-- `re.sub(…, fixup, text)`, left to right; the fuel is the length of the text -/
def unescapeAux : Nat → List Char → R (List Char)
  | 0, _ => pure []
  | _, [] => pure []
  | f + 1, c :: cs =>
    if c = '&' then
      match matchEntity cs with
      | some (e, rest) => do
        let rep ← fixup e
        let tl ← unescapeAux f rest
        pure (rep ++ tl)
      | none => do
        let tl ← unescapeAux f cs
        pure (c :: tl)
    else do
      let tl ← unescapeAux f cs
      pure (c :: tl)

def unescape (s : List Char) : R (List Char) := unescapeAux s.length s

/-! ## splitlines -/

/-- `str.splitlines()`: `cur` is the line being collected -/
def splitAux : List Char → List Char → List (List Char)
  | [], cur => if cur.isEmpty then [] else [cur]
  | '\r' :: '\n' :: cs, cur => cur :: splitAux cs []
  | c :: cs, cur =>
    if isBreak c then cur :: splitAux cs []
    else splitAux cs (cur ++ [c])

def splitLines (s : List Char) : List (List Char) := splitAux s []

/-! ## tokenizer -/

inductive Token where
  | key (k : List Char)
  | real
  | int (v : Int)
  | str (body : List Char)      -- the text between the quotes
  | lb
  | rb
  | eof
  | err (e : Err)               -- the exception the generator raises when this position is pulled
  deriving DecidableEq, Repr

inductive Step where
  | tok (t : Token) (rest : List Char)
  | skip (rest : List Char)
  | fail (e : Err)

/-- the code points above 127 with `chr(c).isalnum()` (CPython 3.12.1, Unicode 15.0.0), as closed ranges -/
def wordRanges : List (Nat × Nat) := [
  (170, 170), (178, 179), (181, 181), (185, 186), (188, 190), (192, 214), (216, 246), (248, 705), (710, 721), (736, 740),
  (748, 748), (750, 750), (880, 884), (886, 887), (890, 893), (895, 895), (902, 902), (904, 906), (908, 908), (910, 929),
  (931, 1013), (1015, 1153), (1162, 1327), (1329, 1366), (1369, 1369), (1376, 1416), (1488, 1514), (1519, 1522), (1568, 1610), (1632, 1641),
  (1646, 1647), (1649, 1747), (1749, 1749), (1765, 1766), (1774, 1788), (1791, 1791), (1808, 1808), (1810, 1839), (1869, 1957), (1969, 1969),
  (1984, 2026), (2036, 2037), (2042, 2042), (2048, 2069), (2074, 2074), (2084, 2084), (2088, 2088), (2112, 2136), (2144, 2154), (2160, 2183),
  (2185, 2190), (2208, 2249), (2308, 2361), (2365, 2365), (2384, 2384), (2392, 2401), (2406, 2415), (2417, 2432), (2437, 2444), (2447, 2448),
  (2451, 2472), (2474, 2480), (2482, 2482), (2486, 2489), (2493, 2493), (2510, 2510), (2524, 2525), (2527, 2529), (2534, 2545), (2548, 2553),
  (2556, 2556), (2565, 2570), (2575, 2576), (2579, 2600), (2602, 2608), (2610, 2611), (2613, 2614), (2616, 2617), (2649, 2652), (2654, 2654),
  (2662, 2671), (2674, 2676), (2693, 2701), (2703, 2705), (2707, 2728), (2730, 2736), (2738, 2739), (2741, 2745), (2749, 2749), (2768, 2768),
  (2784, 2785), (2790, 2799), (2809, 2809), (2821, 2828), (2831, 2832), (2835, 2856), (2858, 2864), (2866, 2867), (2869, 2873), (2877, 2877),
  (2908, 2909), (2911, 2913), (2918, 2927), (2929, 2935), (2947, 2947), (2949, 2954), (2958, 2960), (2962, 2965), (2969, 2970), (2972, 2972),
  (2974, 2975), (2979, 2980), (2984, 2986), (2990, 3001), (3024, 3024), (3046, 3058), (3077, 3084), (3086, 3088), (3090, 3112), (3114, 3129),
  (3133, 3133), (3160, 3162), (3165, 3165), (3168, 3169), (3174, 3183), (3192, 3198), (3200, 3200), (3205, 3212), (3214, 3216), (3218, 3240),
  (3242, 3251), (3253, 3257), (3261, 3261), (3293, 3294), (3296, 3297), (3302, 3311), (3313, 3314), (3332, 3340), (3342, 3344), (3346, 3386),
  (3389, 3389), (3406, 3406), (3412, 3414), (3416, 3425), (3430, 3448), (3450, 3455), (3461, 3478), (3482, 3505), (3507, 3515), (3517, 3517),
  (3520, 3526), (3558, 3567), (3585, 3632), (3634, 3635), (3648, 3654), (3664, 3673), (3713, 3714), (3716, 3716), (3718, 3722), (3724, 3747),
  (3749, 3749), (3751, 3760), (3762, 3763), (3773, 3773), (3776, 3780), (3782, 3782), (3792, 3801), (3804, 3807), (3840, 3840), (3872, 3891),
  (3904, 3911), (3913, 3948), (3976, 3980), (4096, 4138), (4159, 4169), (4176, 4181), (4186, 4189), (4193, 4193), (4197, 4198), (4206, 4208),
  (4213, 4225), (4238, 4238), (4240, 4249), (4256, 4293), (4295, 4295), (4301, 4301), (4304, 4346), (4348, 4680), (4682, 4685), (4688, 4694),
  (4696, 4696), (4698, 4701), (4704, 4744), (4746, 4749), (4752, 4784), (4786, 4789), (4792, 4798), (4800, 4800), (4802, 4805), (4808, 4822),
  (4824, 4880), (4882, 4885), (4888, 4954), (4969, 4988), (4992, 5007), (5024, 5109), (5112, 5117), (5121, 5740), (5743, 5759), (5761, 5786),
  (5792, 5866), (5870, 5880), (5888, 5905), (5919, 5937), (5952, 5969), (5984, 5996), (5998, 6000), (6016, 6067), (6103, 6103), (6108, 6108),
  (6112, 6121), (6128, 6137), (6160, 6169), (6176, 6264), (6272, 6276), (6279, 6312), (6314, 6314), (6320, 6389), (6400, 6430), (6470, 6509),
  (6512, 6516), (6528, 6571), (6576, 6601), (6608, 6618), (6656, 6678), (6688, 6740), (6784, 6793), (6800, 6809), (6823, 6823), (6917, 6963),
  (6981, 6988), (6992, 7001), (7043, 7072), (7086, 7141), (7168, 7203), (7232, 7241), (7245, 7293), (7296, 7304), (7312, 7354), (7357, 7359),
  (7401, 7404), (7406, 7411), (7413, 7414), (7418, 7418), (7424, 7615), (7680, 7957), (7960, 7965), (7968, 8005), (8008, 8013), (8016, 8023),
  (8025, 8025), (8027, 8027), (8029, 8029), (8031, 8061), (8064, 8116), (8118, 8124), (8126, 8126), (8130, 8132), (8134, 8140), (8144, 8147),
  (8150, 8155), (8160, 8172), (8178, 8180), (8182, 8188), (8304, 8305), (8308, 8313), (8319, 8329), (8336, 8348), (8450, 8450), (8455, 8455),
  (8458, 8467), (8469, 8469), (8473, 8477), (8484, 8484), (8486, 8486), (8488, 8488), (8490, 8493), (8495, 8505), (8508, 8511), (8517, 8521),
  (8526, 8526), (8528, 8585), (9312, 9371), (9450, 9471), (10102, 10131), (11264, 11492), (11499, 11502), (11506, 11507), (11517, 11517), (11520, 11557),
  (11559, 11559), (11565, 11565), (11568, 11623), (11631, 11631), (11648, 11670), (11680, 11686), (11688, 11694), (11696, 11702), (11704, 11710), (11712, 11718),
  (11720, 11726), (11728, 11734), (11736, 11742), (11823, 11823), (12293, 12295), (12321, 12329), (12337, 12341), (12344, 12348), (12353, 12438), (12445, 12447),
  (12449, 12538), (12540, 12543), (12549, 12591), (12593, 12686), (12690, 12693), (12704, 12735), (12784, 12799), (12832, 12841), (12872, 12879), (12881, 12895),
  (12928, 12937), (12977, 12991), (13312, 19903), (19968, 42124), (42192, 42237), (42240, 42508), (42512, 42539), (42560, 42606), (42623, 42653), (42656, 42735),
  (42775, 42783), (42786, 42888), (42891, 42954), (42960, 42961), (42963, 42963), (42965, 42969), (42994, 43009), (43011, 43013), (43015, 43018), (43020, 43042),
  (43056, 43061), (43072, 43123), (43138, 43187), (43216, 43225), (43250, 43255), (43259, 43259), (43261, 43262), (43264, 43301), (43312, 43334), (43360, 43388),
  (43396, 43442), (43471, 43481), (43488, 43492), (43494, 43518), (43520, 43560), (43584, 43586), (43588, 43595), (43600, 43609), (43616, 43638), (43642, 43642),
  (43646, 43695), (43697, 43697), (43701, 43702), (43705, 43709), (43712, 43712), (43714, 43714), (43739, 43741), (43744, 43754), (43762, 43764), (43777, 43782),
  (43785, 43790), (43793, 43798), (43808, 43814), (43816, 43822), (43824, 43866), (43868, 43881), (43888, 44002), (44016, 44025), (44032, 55203), (55216, 55238),
  (55243, 55291), (63744, 64109), (64112, 64217), (64256, 64262), (64275, 64279), (64285, 64285), (64287, 64296), (64298, 64310), (64312, 64316), (64318, 64318),
  (64320, 64321), (64323, 64324), (64326, 64433), (64467, 64829), (64848, 64911), (64914, 64967), (65008, 65019), (65136, 65140), (65142, 65276), (65296, 65305),
  (65313, 65338), (65345, 65370), (65382, 65470), (65474, 65479), (65482, 65487), (65490, 65495), (65498, 65500), (65536, 65547), (65549, 65574), (65576, 65594),
  (65596, 65597), (65599, 65613), (65616, 65629), (65664, 65786), (65799, 65843), (65856, 65912), (65930, 65931), (66176, 66204), (66208, 66256), (66273, 66299),
  (66304, 66339), (66349, 66378), (66384, 66421), (66432, 66461), (66464, 66499), (66504, 66511), (66513, 66517), (66560, 66717), (66720, 66729), (66736, 66771),
  (66776, 66811), (66816, 66855), (66864, 66915), (66928, 66938), (66940, 66954), (66956, 66962), (66964, 66965), (66967, 66977), (66979, 66993), (66995, 67001),
  (67003, 67004), (67072, 67382), (67392, 67413), (67424, 67431), (67456, 67461), (67463, 67504), (67506, 67514), (67584, 67589), (67592, 67592), (67594, 67637),
  (67639, 67640), (67644, 67644), (67647, 67669), (67672, 67702), (67705, 67742), (67751, 67759), (67808, 67826), (67828, 67829), (67835, 67867), (67872, 67897),
  (67968, 68023), (68028, 68047), (68050, 68096), (68112, 68115), (68117, 68119), (68121, 68149), (68160, 68168), (68192, 68222), (68224, 68255), (68288, 68295),
  (68297, 68324), (68331, 68335), (68352, 68405), (68416, 68437), (68440, 68466), (68472, 68497), (68521, 68527), (68608, 68680), (68736, 68786), (68800, 68850),
  (68858, 68899), (68912, 68921), (69216, 69246), (69248, 69289), (69296, 69297), (69376, 69415), (69424, 69445), (69457, 69460), (69488, 69505), (69552, 69579),
  (69600, 69622), (69635, 69687), (69714, 69743), (69745, 69746), (69749, 69749), (69763, 69807), (69840, 69864), (69872, 69881), (69891, 69926), (69942, 69951),
  (69956, 69956), (69959, 69959), (69968, 70002), (70006, 70006), (70019, 70066), (70081, 70084), (70096, 70106), (70108, 70108), (70113, 70132), (70144, 70161),
  (70163, 70187), (70207, 70208), (70272, 70278), (70280, 70280), (70282, 70285), (70287, 70301), (70303, 70312), (70320, 70366), (70384, 70393), (70405, 70412),
  (70415, 70416), (70419, 70440), (70442, 70448), (70450, 70451), (70453, 70457), (70461, 70461), (70480, 70480), (70493, 70497), (70656, 70708), (70727, 70730),
  (70736, 70745), (70751, 70753), (70784, 70831), (70852, 70853), (70855, 70855), (70864, 70873), (71040, 71086), (71128, 71131), (71168, 71215), (71236, 71236),
  (71248, 71257), (71296, 71338), (71352, 71352), (71360, 71369), (71424, 71450), (71472, 71483), (71488, 71494), (71680, 71723), (71840, 71922), (71935, 71942),
  (71945, 71945), (71948, 71955), (71957, 71958), (71960, 71983), (71999, 71999), (72001, 72001), (72016, 72025), (72096, 72103), (72106, 72144), (72161, 72161),
  (72163, 72163), (72192, 72192), (72203, 72242), (72250, 72250), (72272, 72272), (72284, 72329), (72349, 72349), (72368, 72440), (72704, 72712), (72714, 72750),
  (72768, 72768), (72784, 72812), (72818, 72847), (72960, 72966), (72968, 72969), (72971, 73008), (73030, 73030), (73040, 73049), (73056, 73061), (73063, 73064),
  (73066, 73097), (73112, 73112), (73120, 73129), (73440, 73458), (73474, 73474), (73476, 73488), (73490, 73523), (73552, 73561), (73648, 73648), (73664, 73684),
  (73728, 74649), (74752, 74862), (74880, 75075), (77712, 77808), (77824, 78895), (78913, 78918), (82944, 83526), (92160, 92728), (92736, 92766), (92768, 92777),
  (92784, 92862), (92864, 92873), (92880, 92909), (92928, 92975), (92992, 92995), (93008, 93017), (93019, 93025), (93027, 93047), (93053, 93071), (93760, 93846),
  (93952, 94026), (94032, 94032), (94099, 94111), (94176, 94177), (94179, 94179), (94208, 100343), (100352, 101589), (101632, 101640), (110576, 110579), (110581, 110587),
  (110589, 110590), (110592, 110882), (110898, 110898), (110928, 110930), (110933, 110933), (110948, 110951), (110960, 111355), (113664, 113770), (113776, 113788), (113792, 113800),
  (113808, 113817), (119488, 119507), (119520, 119539), (119648, 119672), (119808, 119892), (119894, 119964), (119966, 119967), (119970, 119970), (119973, 119974), (119977, 119980),
  (119982, 119993), (119995, 119995), (119997, 120003), (120005, 120069), (120071, 120074), (120077, 120084), (120086, 120092), (120094, 120121), (120123, 120126), (120128, 120132),
  (120134, 120134), (120138, 120144), (120146, 120485), (120488, 120512), (120514, 120538), (120540, 120570), (120572, 120596), (120598, 120628), (120630, 120654), (120656, 120686),
  (120688, 120712), (120714, 120744), (120746, 120770), (120772, 120779), (120782, 120831), (122624, 122654), (122661, 122666), (122928, 122989), (123136, 123180), (123191, 123197),
  (123200, 123209), (123214, 123214), (123536, 123565), (123584, 123627), (123632, 123641), (124112, 124139), (124144, 124153), (124896, 124902), (124904, 124907), (124909, 124910),
  (124912, 124926), (124928, 125124), (125127, 125135), (125184, 125251), (125259, 125259), (125264, 125273), (126065, 126123), (126125, 126127), (126129, 126132), (126209, 126253),
  (126255, 126269), (126464, 126467), (126469, 126495), (126497, 126498), (126500, 126500), (126503, 126503), (126505, 126514), (126516, 126519), (126521, 126521), (126523, 126523),
  (126530, 126530), (126535, 126535), (126537, 126537), (126539, 126539), (126541, 126543), (126545, 126546), (126548, 126548), (126551, 126551), (126553, 126553), (126555, 126555),
  (126557, 126557), (126559, 126559), (126561, 126562), (126564, 126564), (126567, 126570), (126572, 126578), (126580, 126583), (126585, 126588), (126590, 126590), (126592, 126601),
  (126603, 126619), (126625, 126627), (126629, 126633), (126635, 126651), (127232, 127244), (130032, 130041), (131072, 173791), (173824, 177977), (177984, 178205), (178208, 183969),
  (183984, 191456), (194560, 195101), (196608, 201546), (201552, 205743)
]

/-- `\w` of a `str` pattern: `ch.isalnum() or ch == '_'` -/
def isWordChar (c : Char) : Bool :=
  if c.toNat < 128 then isKeyChar c else wordRanges.any fun r => r.1 ≤ c.toNat && c.toNat ≤ r.2

/-- `[A-Za-z][0-9A-Za-z_]*\b`: the longest run of key characters, and the `\b` after it holds iff the next character is not
a (Unicode) word character; a shorter run never ends at a word boundary -/
def mKey (cs : List Char) : Option (List Char × List Char) :=
  match cs with
  | c :: _ =>
    if c.isAlpha then
      let (run, rest) := spanP isKeyChar cs
      match rest with
      | [] => some (run, rest)
      | d :: _ => if isWordChar d then none else some (run, rest)
    else none
  | [] => none

def dropSign (cs : List Char) : List Char :=
  match cs with
  | '+' :: r => r
  | '-' :: r => r
  | _ => cs

/-- `(?:[Ee][+-]?[0-9]+)?` : (present, rest) -/
def mExp (cs : List Char) : Bool × List Char :=
  match cs with
  | e :: r =>
    if e = 'E' || e = 'e' then
      let (ds, r') := spanP Char.isDigit (dropSign r)
      if ds.isEmpty then (false, cs) else (true, r')
    else (false, cs)
  | [] => (false, cs)

/-- `[+-]?(?:[0-9]*\.[0-9]+|[0-9]+\.[0-9]*|INF)(?:[Ee][+-]?[0-9]+)?` : (`float()` raises, rest) -/
def mReal (cs : List Char) : Option (Bool × List Char) :=
  let r0 := dropSign cs
  let (d1, r1) := spanP Char.isDigit r0
  let mant : Option (Bool × List Char) :=
    match r1 with
    | '.' :: r2 =>
      let (d2, r3) := spanP Char.isDigit r2
      if !d2.isEmpty then some (false, r3)
      else if !d1.isEmpty then some (false, r2)
      else none
    | _ => none
  let mant := match mant with
    | some m => some m
    | none =>
      match r0 with
      | 'I' :: 'N' :: 'F' :: r => some (true, r)
      | _ => none
  match mant with
  | some (inf, r) => let (ex, r') := mExp r; some (inf && ex, r')
  | none => none

/-- `[+-]?[0-9]+` : (negative, digits, rest) -/
def mInt (cs : List Char) : Option (Bool × List Char × List Char) :=
  let (ds, r) := spanP Char.isDigit (dropSign cs)
  if ds.isEmpty then none else some (cs.head? == some '-', ds, r)

/-- `".*?"` : (body, rest) -/
def mStr (cs : List Char) : Option (List Char × List Char) :=
  match cs with
  | '"' :: r =>
    let (body, r') := spanP (fun c => c != '"' && c != '\n') r
    match r' with
    | '"' :: r'' => some (body, r'')
    | _ => none
  | _ => none

/-- `#.*$|\s+` -/
def mSkip (cs : List Char) : Option (List Char) :=
  match cs with
  | '#' :: r =>
    let (_, r') := spanP (fun c => c != '\n') r
    match r' with
    | [] => some []
    | ['\n'] => some ['\n']
    | _ => none
  | _ =>
    let (ws, r) := spanP isSpace cs
    if ws.isEmpty then none else some r

/-- one `tokens.match(line, pos)` and the dispatch on the group that matched -/
def nextTok (cs : List Char) : Step :=
  match mKey cs with
  | some (k, rest) => .tok (.key k) rest
  | none =>
  match mReal cs with
  | some (bad, rest) => if bad then .fail .ValueError else .tok .real rest
  | none =>
  match mInt cs with
  | some (neg, ds, rest) =>
    if maxDigits < ds.length then .fail .ValueError
    else .tok (.int (if neg then - (Nat.ofDigitChars 10 ds 0 : Int) else (Nat.ofDigitChars 10 ds 0 : Int))) rest
  | none =>
  match mStr cs with
  | some (body, rest) => .tok (.str body) rest
  | none =>
  match cs with
  | '[' :: rest => .tok .lb rest
  | ']' :: rest => .tok .rb rest
  | _ =>
  match mSkip cs with
  | some rest => .skip rest
  | none => .fail .NetworkXError

/-- the `while pos < length` loop on one (joined) line: the tokens and the exception that ends them, if any -/
def tokLoop : Nat → List Char → List Token × Option Err
  | 0, _ => ([], none)
  | _, [] => ([], none)
  | f + 1, c :: cs =>
    match nextTok (c :: cs) with
    | .fail e => ([], some e)
    | .skip rest => tokLoop f rest
    | .tok t rest => let (ts, e) := tokLoop f rest; (t :: ts, e)

def tokLine (line : List Char) : List Token × Option Err := tokLoop line.length line

def lstrip (s : List Char) : List Char := s.dropWhile isSpace
def rstrip (s : List Char) : List Char := (s.reverse.dropWhile isSpace).reverse
def strip (s : List Char) : List Char := rstrip (lstrip s)

/-- `" ".join(parts)` -/
def joinSp : List (List Char) → List Char
  | [] => []
  | [l] => l
  | l :: ls => l ++ ' ' :: joinSp ls

/-- the `for line in lines` loop of `tokenize()`; `ml` = `multilines` when it is not empty -/
def tokLines : List (List Char) → Option (List (List Char)) → List Token
  | [], _ => [.eof]
  | line :: ls, some parts =>
    let parts' := parts ++ [strip line]
    match line.getLast? with
    | none => [.err .IndexError]
    | some c =>
      if c = '"' then
        match tokLine (joinSp parts') with
        | (ts, some e) => ts ++ [.err e]
        | (ts, none) => ts ++ tokLines ls none
      else tokLines ls (some parts')
  | line :: ls, none =>
    if line.count '"' = 1 && (strip line).head? != some '"' && (strip line).getLast? != some '"' then
      tokLines ls (some [rstrip line])
    else
      match tokLine line with
      | (ts, some e) => ts ++ [.err e]
      | (ts, none) => ts ++ tokLines ls none

/-! ## parse_kv / parse_dict -/

inductive Value where
  | str (s : List Char)
  | int (i : Int)
  | real
  | tuple0
  | list (l : List Value)
  | dict (d : List (List Char × Value))

abbrev Dct := List (List Char × List Value)

/-- `dct[key].append(value)` on a `defaultdict(list)` -/
def dAppend : Dct → List Char → Value → Dct
  | [], k, v => [(k, [v])]
  | (k', vs) :: d, k, v => if k' = k then (k', vs ++ [v]) :: d else (k', vs) :: dAppend d k v

def listStart : List Char := "_networkx_list_start".toList

def isListStart : Value → Bool
  | .str s => s == listStart
  | _ => false

/-- `clean_dict_value` (the argument is always a non-empty list) -/
def cleanValue (vs : List Value) : Value :=
  match vs with
  | [v] => v
  | v :: rest => if isListStart v then .list rest else .list vs
  | [] => .list []

def cleanDct (d : Dct) : Value := .dict (d.map fun (k, vs) => (k, cleanValue vs))

/-- `next(tokens)`: drop the current token; the generator raises if an exception is next -/
def adv : List Token → R (List Token)
  | _ :: .err e :: _ => throw e
  | _ :: rest => pure rest
  | [] => pure []

def kId : List Char := ['i','d']
def kLabel : List Char := ['l','a','b','e','l']
def kSource : List Char := ['s','o','u','r','c','e']
def kTarget : List Char := ['t','a','r','g','e','t']

def isIdKey (k : List Char) : Bool := k == kId || k == kLabel || k == kSource || k == kTarget

/-- the quoted-string value: `unescape`, then `"()"` ↦ `()` and `"[]"` ↦ `[]` -/
def strValue (body : List Char) : R Value := do
  let s ← unescape body
  if s = ['(', ')'] then pure .tuple0
  else if s = ['[', ']'] then pure (.list [])
  else pure (.str s)

/-- everything inside `try … except Exception: unexpected(…)` becomes `NetworkXError` (`unsupported` stays) -/
def tryNx {α : Type} (x : R α) : R α :=
  match x with
  | .ok a => .ok a
  | .error .unsupported => .error .unsupported
  | .error _ => .error .NetworkXError

/-- `parse_kv(curr_token)` with `parse_dict` inlined; the head of `ts` is `curr_token`; the fuel bounds the nesting plus
the number of entries (the length of the token list is enough) -/
def parseKv : Nat → List Token → Dct → R (List Token × Value)
  | 0, _, _ => throw .unsupported
  | f + 1, ts, acc =>
    match ts with
    | .key k :: _ => do
      let ts1 ← adv ts
      match ts1 with
      | .real :: _ => do
        let ts2 ← adv ts1
        parseKv f ts2 (dAppend acc k .real)
      | .int i :: _ => do
        let ts2 ← adv ts1
        parseKv f ts2 (dAppend acc k (.int i))
      | .str body :: _ => do
        let v ← strValue body
        let ts2 ← adv ts1
        parseKv f ts2 (dAppend acc k v)
      | .lb :: _ => do
        let ts2 ← adv ts1
        let (ts3, v) ← parseKv f ts2 []
        match ts3 with
        | .rb :: _ => do
          let ts4 ← adv ts3
          parseKv f ts4 (dAppend acc k v)
        | _ => throw .NetworkXError
      | t :: _ =>
        if isIdKey k then do
          let (ts2, v) ← tryNx (do
            let txt : List Char := match t with
              | .key k' => k'
              | .rb => [']']
              | _ => ['N','o','n','e']
            let s ← unescape txt
            if t = .eof then throw .NetworkXError      -- `next(tokens)` is StopIteration
            let ts2 ← adv ts1
            pure (ts2, Value.str s))
          parseKv f ts2 (dAppend acc k v)
        else if t = .key ['N','A','N'] || t = .key ['I','N','F'] then do
          let ts2 ← adv ts1
          parseKv f ts2 (dAppend acc k .real)
        else throw .NetworkXError
      | [] => throw .NetworkXError
    | _ => pure (ts, cleanDct acc)

/-- `parse_graph()`: the value of the top-level key `graph` -/
def parseGraph (toks : List Token) : R Value := do
  match toks with
  | .err e :: _ => throw e
  | _ => pure ()
  let (ts, top) ← parseKv (toks.length + 1) toks []
  match ts with
  | .eof :: _ => pure ()
  | _ => throw .NetworkXError
  match top with
  | .dict d =>
    match d.lookup ['g','r','a','p','h'] with
    | none => throw .NetworkXError
    | some (.list _) => throw .NetworkXError
    | some g => pure g
  | _ => throw .NetworkXError

/-! ## building the graph -/

/-- hashable values that are modelled as nodes -/
inductive Atom where
  | str (s : List Char)
  | int (i : Int)
  | tuple0
  deriving DecidableEq, Repr

structure Parsed where
  directed : Bool
  nodes : List Atom
  edges : List (Atom × Atom)
  deriving DecidableEq, Repr

def truthy : Value → R Bool
  | .str s => pure (!s.isEmpty)
  | .int i => pure (i != 0)
  | .real => throw .unsupported
  | .tuple0 => pure false
  | .list l => pure (!l.isEmpty)
  | .dict d => pure (!d.isEmpty)

def hashable : Value → Bool
  | .list _ => false
  | .dict _ => false
  | _ => true

/-- a hashable value as a node (`real`: not modelled) -/
def toAtom : Value → R Atom
  | .str s => pure (.str s)
  | .int i => pure (.int i)
  | .tuple0 => pure .tuple0
  | .real => throw .unsupported
  | _ => throw .TypeError

/-- `dct.pop(attr)` of `pop_attr`: `NetworkXError` when the key is missing; when the thing is not a dict: `TypeError` for
a list (`list.pop("id")`: a `str` is not an index; this is how `edge "[]"` next to other edges ends), `AttributeError` for
everything else (no `pop`) -/
def popAttr (v : Value) (k : List Char) : R (Value × Value) :=
  match v with
  | .dict d =>
    match d.lookup k with
    | some x => pure (x, .dict (d.filter fun p => p.1 != k))
    | none => throw .NetworkXError
  | .list _ => throw .TypeError
  | _ => throw .AttributeError

def hasKey (v : Value) (k : List Char) : Bool :=
  match v with
  | .dict d => d.any fun p => p.1 == k
  | _ => false

/-- `x if isinstance(x, list) else [x]` -/
def asList : Value → List Value
  | .list l => l
  | v => [v]

def hasEdge (directed : Bool) (E : List (Atom × Atom)) (u v : Atom) : Bool :=
  E.contains (u, v) || (!directed && E.contains (v, u))

/-- `list(G.adj[n])` (successors for a `DiGraph`) of the graph whose edges were added in the order `E` -/
def adjOf (directed : Bool) (E : List (Atom × Atom)) (n : Atom) : List Atom :=
  E.filterMap fun e => if e.1 = n then some e.2 else if !directed && e.2 = n then some e.1 else none

def viewU (E : List (Atom × Atom)) : List Atom → List Atom → List (Atom × Atom)
  | [], _ => []
  | n :: ns, seen => ((adjOf false E n).filter (fun m => !seen.contains m)).map (fun m => (n, m)) ++ viewU E ns (n :: seen)

/-- `list(G.edges)` -/
def edgesView (directed : Bool) (nodes : List Atom) (E : List (Atom × Atom)) : List (Atom × Atom) :=
  if directed then nodes.flatMap fun n => (adjOf true E n).map fun m => (n, m)
  else viewU E nodes []

/-- the `for i, node in enumerate(nodes)` loop: ids in order, `mapping` -/
def buildNodes : List Value → List Atom → List (Atom × Atom) → R (List Atom × List (Atom × Atom))
  | [], ids, mapping => pure (ids, mapping)
  | node :: rest, ids, mapping => do
    let (idv, node1) ← popAttr node kId
    if hashable idv then
      let a ← toAtom idv
      if ids.contains a then throw .NetworkXError
    let (lab, node2) ← popAttr node1 kLabel
    let l ← toAtom lab
    if (mapping.map Prod.snd).contains l then throw .NetworkXError
    let a ← toAtom idv
    if hasKey node2 ['s','e','l','f'] || hasKey node2 "node_for_adding".toList then throw .TypeError
    buildNodes rest (ids ++ [a]) (mapping ++ [(a, l)])

/-- the `for i, edge in enumerate(edges)` loop -/
def buildEdges (directed : Bool) (ids : List Atom) : List Value → List (Atom × Atom) → R (List (Atom × Atom))
  | [], E => pure E
  | edge :: rest, E => do
    let (sv, e1) ← popAttr edge kSource
    let (tv, e2) ← popAttr e1 kTarget
    if !hashable sv then throw .NetworkXError
    let s ← toAtom sv
    if !ids.contains s then throw .NetworkXError
    if !hashable tv then throw .NetworkXError
    let t ← toAtom tv
    if !ids.contains t then throw .NetworkXError
    if hasEdge directed E s t then throw .NetworkXError
    if hasKey e2 ['s','e','l','f'] || hasKey e2 "u_of_edge".toList || hasKey e2 "v_of_edge".toList then throw .TypeError
    buildEdges directed ids rest (E ++ [(s, t)])

def mapNode (mapping : List (Atom × Atom)) (n : Atom) : Atom := (mapping.lookup n).getD n

def kDirected : List Char := ['d','i','r','e','c','t','e','d']
def kMultigraph : List Char := ['m','u','l','t','i','g','r','a','p','h']
def kNode : List Char := ['n','o','d','e']
def kEdge : List Char := ['e','d','g','e']

/-- `directed = graph.pop("directed", False)`, `multigraph = graph.pop("multigraph", False)`, `graph.get("node", [])`,
`graph.get("edge", [])` (both as lists): the three things the rest of `parse_gml_lines` looks at -/
def graphParts (graph : Value) : R (Bool × List Value × List Value) := do
  let d ← match graph with
    | .dict d => pure d
    | _ => throw .AttributeError
  let directed ← match d.lookup kDirected with
    | some v => truthy v
    | none => pure false
  let multigraph ← match d.lookup kMultigraph with
    | some v => truthy v
    | none => pure false
  if multigraph then throw .unsupported
  let nodes := match d.lookup kNode with
    | some v => asList v
    | none => []
  let edges := match d.lookup kEdge with
    | some v => asList v
    | none => []
  pure (directed, nodes, edges)

/-- the two loops of `parse_gml_lines` and `relabel_nodes(G, mapping)` (copy mode):
`H.add_nodes_from(mapping[n] for n in G); H.add_edges_from((mapping[u], mapping[v]) for u, v in G.edges)` -/
def buildGraph (directed : Bool) (nodes edges : List Value) : R Parsed := do
  let (ids, mapping) ← buildNodes nodes [] []
  let E ← buildEdges directed ids edges []
  let hNodes := ids.map (mapNode mapping)
  let hE := (edgesView directed ids E).map fun e => (mapNode mapping e.1, mapNode mapping e.2)
  pure { directed := directed, nodes := hNodes, edges := edgesView directed hNodes hE }

/-- the part of `parse_gml_lines` after `parse_graph()` -/
def build (graph : Value) : R Parsed := do
  let (directed, nodes, edges) ← graphParts graph
  buildGraph directed nodes edges

/-- `networkx.parse_gml(text)` for a `str`: (is a `DiGraph`, `list(G.nodes)`, `list(G.edges)`) -/
def parseText (text : List Char) : R Parsed := do
  let g ← parseGraph (tokLines (splitLines text) none)
  build g

/-! ## `String` wrappers -/

def generateGml (directed : Bool) (labels : List String) (edges : List (String × String)) : String :=
  String.ofList (genText directed (labels.map String.toList) (edges.map fun e => (e.1.toList, e.2.toList)))

def parseGml (text : String) : R Parsed := parseText text.toList

end CG.NxGml
