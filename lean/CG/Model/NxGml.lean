/-
Transcription of the GML text layer of networkx 3.2.1 (`networkx/readwrite/gml.py`) for the graphs the library writes and
reads: `CausalGraph.to_gml_string()` is `'\n'.join(networkx.generate_gml(self.to_networkx()))`, `from_gml_string(gml)` calls
`networkx.parse_gml(gml)` on a `str` (default `label='label'`, no destringizer).  Everything here works on `List Char`
(a Python `str` without lone surrogates); `generateGml` / `parseGml` at the end are the `String` wrappers.  No Mathlib.

WRITING (`escape`, `generate_gml` for a `DiGraph` / `Graph` with `str` nodes and no node / edge / graph attributes)

```
def escape(text):
    def fixup(m): return "&#" + str(ord(m.group(0))) + ";"
    return re.sub('[^ -~]|[&"]', fixup, text)

def generate_gml(G):
    yield "graph ["
    if G.is_directed(): yield "  directed 1"
    node_id = dict(zip(G, range(len(G))))
    for node in G.nodes:  yield "  node ["; yield "    id " + str(node_id[node]); yield '    label "' + escape(node) + '"'; yield "  ]"
    for u, v in G.edges:  yield "  edge ["; yield "    source " + str(node_id[u]); yield "    target " + str(node_id[v]); yield "  ]"
    yield "]"
```

`genLines directed labels edges` takes `labels = list(G)` and `edges = list(G.edges)` (label pairs, networkx's iteration
order).  `node_id[u]` of a label that is not in `labels` cannot happen in Python; the model writes `len(labels)` there.

READING (`parse_gml(text)`): `text.splitlines()` (`splitLines`: the ten Python line boundaries, `\r\n` as one), the tokenizer
(`tokLines`: the multi-line-string bookkeeping, then `nextTok` = the seven regex alternatives in `Pattern` order with Python's
backtracking priorities), the recursive descent `parse_kv` / `parse_dict` (`parseKv`, with the one-token look-ahead and the
LAZY token generator: a tokenizer exception is a pseudo token `Token.err` that is raised when the parser pulls it, so a
parser error that comes earlier in the text wins, exactly as with the Python generator), `unescape`, and the graph building
part of `parse_gml_lines` (`build`) followed by `relabel_nodes(G, mapping)` (copy mode).

Things that are mirrored although they look odd (all measured by `harness/lanes/c08_nxgml.py`):
* a quoted value that reads `()` becomes the empty tuple, `[]` the empty list; as a node label the first gives a node that
  is not a string, the second `TypeError` (unhashable);  `graph "[]"` is "more than one graph", `node "[]"` is no node;
* `int()` refuses more than 4300 digits (`ValueError`) -- in an INTS token and in `&#<digits>;`;  `+INFe5` is a REALS
  token on which `float()` raises `ValueError`;  an empty line inside a multi-line string is `IndexError`;
* for the keys `id`, `label`, `source`, `target` any token is accepted as a value (`label ]` is the label `"]"`), and every
  exception while doing so is turned into `NetworkXError`;  `foo NAN` / `foo INF` are floats for any other key;
* attribute keys `self`, `node_for_adding` (node) / `self`, `u_of_edge`, `v_of_edge` (edge) clash with the parameters of
  `add_node` / `add_edge`: `TypeError`;  a `node` / `edge` / `graph` value that is not a dict: `AttributeError`.

`Err.unsupported` (never an answer about networkx, always "this model does not say"), exactly in these cases:
* a KEYS candidate is directly followed by a non-ASCII character that is not white space (`\b` needs the Unicode word table);
* a REALS value (or `NAN` / `INF`) is needed as a truth value (`directed`, `multigraph`) or as `id` / `label` / `source` /
  `target` (Python's float parsing and `1 == 1.0` are not modelled);  a true `multigraph` flag;
* a character reference to a surrogate code point (`&#55296;`), which is a Python `str` but not a Lean `String`.
Named entities are complete (the 252 names of `html.entities.name2codepoint`).

The graph object: `G` is (nodes in insertion order, edges in insertion order); the gml code only calls `add_edge` after
`has_edge` said no, so the adjacency dicts are `adjOf` (the neighbours in insertion order) and `list(G.edges)` is `edgesView`.
-/

namespace CG.NxGml

inductive Err where
  | NetworkXError | ValueError | IndexError | TypeError | AttributeError | unsupported
  deriving DecidableEq, Repr, Inhabited

def Err.name : Err → String
  | .NetworkXError => "NetworkXError"
  | .ValueError => "ValueError"
  | .IndexError => "IndexError"
  | .TypeError => "TypeError"
  | .AttributeError => "AttributeError"
  | .unsupported => "unsupported"

abbrev R := Except Err

/-! ## characters -/

/-- `[0-9A-Za-z_]` -/
def isKeyChar (c : Char) : Bool := c.isAlphanum || c == '_'

/-- `[0-9A-Fa-f]` -/
def isHexChar (c : Char) : Bool := c.isDigit || ('a' ≤ c && c ≤ 'f') || ('A' ≤ c && c ≤ 'F')

/-- `str.isspace()` of one character = `\s` of a `str` pattern -/
def isSpace (c : Char) : Bool :=
  let n := c.toNat
  (9 ≤ n && n ≤ 13) || (28 ≤ n && n ≤ 32) || n == 0x85 || n == 0xa0 || n == 0x1680 || (0x2000 ≤ n && n ≤ 0x200a) ||
  n == 0x2028 || n == 0x2029 || n == 0x202f || n == 0x205f || n == 0x3000

/-- the line boundaries of `str.splitlines()` -/
def isBreak (c : Char) : Bool :=
  let n := c.toNat
  (10 ≤ n && n ≤ 13) || (0x1c ≤ n && n ≤ 0x1e) || n == 0x85 || n == 0x2028 || n == 0x2029

/-- Python's limit on `int(<decimal string>)` -/
def maxDigits : Nat := 4300

/-- the longest prefix whose characters satisfy `p`, and the rest (a greedy character-class repetition) -/
def spanP (p : Char → Bool) : List Char → List Char × List Char
  | [] => ([], [])
  | c :: cs => if p c then ((c :: (spanP p cs).1), (spanP p cs).2) else ([], c :: cs)

/-! ## escape / generate_gml -/

/-- `[^ -~]|[&"]` -/
def needsEsc (c : Char) : Bool := !(' ' ≤ c && c ≤ '~') || c == '&' || c == '"'

def escChar (c : Char) : List Char :=
  if needsEsc c then '&' :: '#' :: (Nat.toDigits 10 c.toNat ++ [';']) else [c]

def escape (s : List Char) : List Char := s.flatMap escChar

/-- `node_id[x]` as text (`len(labels)` for a label that is not there, which Python never sees) -/
def idText (labels : List (List Char)) (x : List Char) : List Char := Nat.toDigits 10 (labels.idxOf x)

def lGraph : List Char := ['g','r','a','p','h',' ','[']
def lDirected : List Char := [' ',' ','d','i','r','e','c','t','e','d',' ','1']
def lNode : List Char := [' ',' ','n','o','d','e',' ','[']
def lEdge : List Char := [' ',' ','e','d','g','e',' ','[']
def lClose2 : List Char := [' ',' ',']']
def lClose : List Char := [']']
def pId : List Char := [' ',' ',' ',' ','i','d',' ']
def pLabel : List Char := [' ',' ',' ',' ','l','a','b','e','l',' ','"']
def pSource : List Char := [' ',' ',' ',' ','s','o','u','r','c','e',' ']
def pTarget : List Char := [' ',' ',' ',' ','t','a','r','g','e','t',' ']

def nodeLines (i : Nat) (label : List Char) : List (List Char) :=
  [lNode, pId ++ Nat.toDigits 10 i, pLabel ++ escape label ++ ['"'], lClose2]

def edgeLines (labels : List (List Char)) (e : List Char × List Char) : List (List Char) :=
  [lEdge, pSource ++ idText labels e.1, pTarget ++ idText labels e.2, lClose2]

/-- the node blocks of `ls`, numbered from `i` -/
def nodeBlocks : Nat → List (List Char) → List (List Char)
  | _, [] => []
  | i, l :: ls => nodeLines i l ++ nodeBlocks (i + 1) ls

/-- `list(generate_gml(G))` -/
def genLines (directed : Bool) (labels : List (List Char)) (edges : List (List Char × List Char)) : List (List Char) :=
  [lGraph] ++ (if directed then [lDirected] else []) ++ nodeBlocks 0 labels ++ edges.flatMap (edgeLines labels) ++ [lClose]

/-- `'\n'.join(lines)` -/
def joinLines : List (List Char) → List Char
  | [] => []
  | [l] => l
  | l :: ls => l ++ '\n' :: joinLines ls

def genText (directed : Bool) (labels : List (List Char)) (edges : List (List Char × List Char)) : List Char :=
  joinLines (genLines directed labels edges)

/-! ## unescape -/

def entityTable : List (String × Nat) := [
  ("AElig", 198), ("Aacute", 193), ("Acirc", 194), ("Agrave", 192), ("Alpha", 913), ("Aring", 197), ("Atilde", 195), ("Auml", 196),
  ("Beta", 914), ("Ccedil", 199), ("Chi", 935), ("Dagger", 8225), ("Delta", 916), ("ETH", 208), ("Eacute", 201), ("Ecirc", 202),
  ("Egrave", 200), ("Epsilon", 917), ("Eta", 919), ("Euml", 203), ("Gamma", 915), ("Iacute", 205), ("Icirc", 206), ("Igrave", 204),
  ("Iota", 921), ("Iuml", 207), ("Kappa", 922), ("Lambda", 923), ("Mu", 924), ("Ntilde", 209), ("Nu", 925), ("OElig", 338),
  ("Oacute", 211), ("Ocirc", 212), ("Ograve", 210), ("Omega", 937), ("Omicron", 927), ("Oslash", 216), ("Otilde", 213), ("Ouml", 214),
  ("Phi", 934), ("Pi", 928), ("Prime", 8243), ("Psi", 936), ("Rho", 929), ("Scaron", 352), ("Sigma", 931), ("THORN", 222),
  ("Tau", 932), ("Theta", 920), ("Uacute", 218), ("Ucirc", 219), ("Ugrave", 217), ("Upsilon", 933), ("Uuml", 220), ("Xi", 926),
  ("Yacute", 221), ("Yuml", 376), ("Zeta", 918), ("aacute", 225), ("acirc", 226), ("acute", 180), ("aelig", 230), ("agrave", 224),
  ("alefsym", 8501), ("alpha", 945), ("amp", 38), ("and", 8743), ("ang", 8736), ("aring", 229), ("asymp", 8776), ("atilde", 227),
  ("auml", 228), ("bdquo", 8222), ("beta", 946), ("brvbar", 166), ("bull", 8226), ("cap", 8745), ("ccedil", 231), ("cedil", 184),
  ("cent", 162), ("chi", 967), ("circ", 710), ("clubs", 9827), ("cong", 8773), ("copy", 169), ("crarr", 8629), ("cup", 8746),
  ("curren", 164), ("dArr", 8659), ("dagger", 8224), ("darr", 8595), ("deg", 176), ("delta", 948), ("diams", 9830), ("divide", 247),
  ("eacute", 233), ("ecirc", 234), ("egrave", 232), ("empty", 8709), ("emsp", 8195), ("ensp", 8194), ("epsilon", 949), ("equiv", 8801),
  ("eta", 951), ("eth", 240), ("euml", 235), ("euro", 8364), ("exist", 8707), ("fnof", 402), ("forall", 8704), ("frac12", 189),
  ("frac14", 188), ("frac34", 190), ("frasl", 8260), ("gamma", 947), ("ge", 8805), ("gt", 62), ("hArr", 8660), ("harr", 8596),
  ("hearts", 9829), ("hellip", 8230), ("iacute", 237), ("icirc", 238), ("iexcl", 161), ("igrave", 236), ("image", 8465), ("infin", 8734),
  ("int", 8747), ("iota", 953), ("iquest", 191), ("isin", 8712), ("iuml", 239), ("kappa", 954), ("lArr", 8656), ("lambda", 955),
  ("lang", 9001), ("laquo", 171), ("larr", 8592), ("lceil", 8968), ("ldquo", 8220), ("le", 8804), ("lfloor", 8970), ("lowast", 8727),
  ("loz", 9674), ("lrm", 8206), ("lsaquo", 8249), ("lsquo", 8216), ("lt", 60), ("macr", 175), ("mdash", 8212), ("micro", 181),
  ("middot", 183), ("minus", 8722), ("mu", 956), ("nabla", 8711), ("nbsp", 160), ("ndash", 8211), ("ne", 8800), ("ni", 8715),
  ("not", 172), ("notin", 8713), ("nsub", 8836), ("ntilde", 241), ("nu", 957), ("oacute", 243), ("ocirc", 244), ("oelig", 339),
  ("ograve", 242), ("oline", 8254), ("omega", 969), ("omicron", 959), ("oplus", 8853), ("or", 8744), ("ordf", 170), ("ordm", 186),
  ("oslash", 248), ("otilde", 245), ("otimes", 8855), ("ouml", 246), ("para", 182), ("part", 8706), ("permil", 8240), ("perp", 8869),
  ("phi", 966), ("pi", 960), ("piv", 982), ("plusmn", 177), ("pound", 163), ("prime", 8242), ("prod", 8719), ("prop", 8733),
  ("psi", 968), ("quot", 34), ("rArr", 8658), ("radic", 8730), ("rang", 9002), ("raquo", 187), ("rarr", 8594), ("rceil", 8969),
  ("rdquo", 8221), ("real", 8476), ("reg", 174), ("rfloor", 8971), ("rho", 961), ("rlm", 8207), ("rsaquo", 8250), ("rsquo", 8217),
  ("sbquo", 8218), ("scaron", 353), ("sdot", 8901), ("sect", 167), ("shy", 173), ("sigma", 963), ("sigmaf", 962), ("sim", 8764),
  ("spades", 9824), ("sub", 8834), ("sube", 8838), ("sum", 8721), ("sup", 8835), ("sup1", 185), ("sup2", 178), ("sup3", 179),
  ("supe", 8839), ("szlig", 223), ("tau", 964), ("there4", 8756), ("theta", 952), ("thetasym", 977), ("thinsp", 8201), ("thorn", 254),
  ("tilde", 732), ("times", 215), ("trade", 8482), ("uArr", 8657), ("uacute", 250), ("uarr", 8593), ("ucirc", 251), ("ugrave", 249),
  ("uml", 168), ("upsih", 978), ("upsilon", 965), ("uuml", 252), ("weierp", 8472), ("xi", 958), ("yacute", 253), ("yen", 165),
  ("yuml", 255), ("zeta", 950), ("zwj", 8205), ("zwnj", 8204)
]

inductive Ent where
  | named (name : List Char)
  | dec (digits : List Char)
  | hex (digits : List Char)

/-- the text the match object covers (without the leading `&`), for "leave unchanged" -/
def Ent.text : Ent → List Char
  | .named n => n ++ [';']
  | .dec d => '#' :: d ++ [';']
  | .hex d => '#' :: 'x' :: d ++ [';']

/-- `(?:[0-9A-Za-z]+|#(?:[0-9]+|x[0-9A-Fa-f]+));` at the character after an `&`; the rest after the `;` -/
def matchEntity (cs : List Char) : Option (Ent × List Char) :=
  let (al, r) := spanP Char.isAlphanum cs
  if !al.isEmpty then
    match r with
    | ';' :: r' => some (.named al, r')
    | _ => none
  else match cs with
    | '#' :: r1 =>
      let (ds, r2) := spanP Char.isDigit r1
      match ds.isEmpty, r2 with
      | false, ';' :: r3 => some (.dec ds, r3)
      | _, _ =>
        match r1 with
        | 'x' :: r3 =>
          let (hs, r4) := spanP isHexChar r3
          match hs.isEmpty, r4 with
          | false, ';' :: r5 => some (.hex hs, r5)
          | _, _ => none
        | _ => none
    | _ => none

def hexVal (c : Char) : Nat :=
  if c.isDigit then c.toNat - 48 else if 'a' ≤ c && c ≤ 'f' then c.toNat - 87 else c.toNat - 55

def ofHexChars (l : List Char) : Nat := l.foldl (fun a c => 16 * a + hexVal c) 0

/-- `chr(code)` inside `try … except (ValueError, OverflowError): return text` -/
def chrOr (code : Nat) (text : List Char) : R (List Char) :=
  if 0x110000 ≤ code then pure text
  else if 0xD800 ≤ code && code ≤ 0xDFFF then throw .unsupported
  else pure [Char.ofNat code]

def fixup (e : Ent) : R (List Char) :=
  match e with
  | .dec ds => if maxDigits < ds.length then throw .ValueError else chrOr (Nat.ofDigitChars 10 ds 0) ('&' :: e.text)
  | .hex hs => chrOr (ofHexChars hs) ('&' :: e.text)
  | .named n =>
    match entityTable.lookup (String.ofList n) with
    | some code => chrOr code ('&' :: e.text)
    | none => pure ('&' :: e.text)

/-- `re.sub(…, fixup, text)`, left to right; the fuel is the length of the text -/
def unescapeAux : Nat → List Char → R (List Char)
  | 0, _ => pure []
  | _, [] => pure []
  | f + 1, c :: cs =>
    if c = '&' then
      match matchEntity cs with
      | some (e, rest) => do
        let rep ← fixup e
        let tl ← unescapeAux f rest
        pure (rep ++ tl)
      | none => do
        let tl ← unescapeAux f cs
        pure (c :: tl)
    else do
      let tl ← unescapeAux f cs
      pure (c :: tl)

def unescape (s : List Char) : R (List Char) := unescapeAux s.length s

/-! ## splitlines -/

/-- `str.splitlines()`: `cur` is the line being collected -/
def splitAux : List Char → List Char → List (List Char)
  | [], cur => if cur.isEmpty then [] else [cur]
  | '\r' :: '\n' :: cs, cur => cur :: splitAux cs []
  | c :: cs, cur =>
    if isBreak c then cur :: splitAux cs []
    else splitAux cs (cur ++ [c])

def splitLines (s : List Char) : List (List Char) := splitAux s []

/-! ## tokenizer -/

inductive Token where
  | key (k : List Char)
  | real
  | int (v : Int)
  | str (body : List Char)      -- the text between the quotes
  | lb
  | rb
  | eof
  | err (e : Err)               -- the exception the generator raises when this position is pulled
  deriving DecidableEq, Repr

inductive Step where
  | tok (t : Token) (rest : List Char)
  | skip (rest : List Char)
  | fail (e : Err)

/-- `[A-Za-z][0-9A-Za-z_]*\b`; `none` = no match, `some (.inl ())` = cannot say (Unicode `\w` needed) -/
def mKey (cs : List Char) : Option (Unit ⊕ (List Char × List Char)) :=
  match cs with
  | c :: _ =>
    if c.isAlpha then
      let (run, rest) := spanP isKeyChar cs
      match rest with
      | [] => some (.inr (run, rest))
      | d :: _ => if d.toNat < 128 || isSpace d then some (.inr (run, rest)) else some (.inl ())
    else none
  | [] => none

def dropSign (cs : List Char) : List Char :=
  match cs with
  | '+' :: r => r
  | '-' :: r => r
  | _ => cs

/-- `(?:[Ee][+-]?[0-9]+)?` : (present, rest) -/
def mExp (cs : List Char) : Bool × List Char :=
  match cs with
  | e :: r =>
    if e = 'E' || e = 'e' then
      let (ds, r') := spanP Char.isDigit (dropSign r)
      if ds.isEmpty then (false, cs) else (true, r')
    else (false, cs)
  | [] => (false, cs)

/-- `[+-]?(?:[0-9]*\.[0-9]+|[0-9]+\.[0-9]*|INF)(?:[Ee][+-]?[0-9]+)?` : (`float()` raises, rest) -/
def mReal (cs : List Char) : Option (Bool × List Char) :=
  let r0 := dropSign cs
  let (d1, r1) := spanP Char.isDigit r0
  let mant : Option (Bool × List Char) :=
    match r1 with
    | '.' :: r2 =>
      let (d2, r3) := spanP Char.isDigit r2
      if !d2.isEmpty then some (false, r3)
      else if !d1.isEmpty then some (false, r2)
      else none
    | _ => none
  let mant := match mant with
    | some m => some m
    | none =>
      match r0 with
      | 'I' :: 'N' :: 'F' :: r => some (true, r)
      | _ => none
  match mant with
  | some (inf, r) => let (ex, r') := mExp r; some (inf && ex, r')
  | none => none

/-- `[+-]?[0-9]+` : (negative, digits, rest) -/
def mInt (cs : List Char) : Option (Bool × List Char × List Char) :=
  let (ds, r) := spanP Char.isDigit (dropSign cs)
  if ds.isEmpty then none else some (cs.head? == some '-', ds, r)

/-- `".*?"` : (body, rest) -/
def mStr (cs : List Char) : Option (List Char × List Char) :=
  match cs with
  | '"' :: r =>
    let (body, r') := spanP (fun c => c != '"' && c != '\n') r
    match r' with
    | '"' :: r'' => some (body, r'')
    | _ => none
  | _ => none

/-- `#.*$|\s+` -/
def mSkip (cs : List Char) : Option (List Char) :=
  match cs with
  | '#' :: r =>
    let (_, r') := spanP (fun c => c != '\n') r
    match r' with
    | [] => some []
    | ['\n'] => some ['\n']
    | _ => none
  | _ =>
    let (ws, r) := spanP isSpace cs
    if ws.isEmpty then none else some r

/-- one `tokens.match(line, pos)` and the dispatch on the group that matched -/
def nextTok (cs : List Char) : Step :=
  match mKey cs with
  | some (.inl ()) => .fail .unsupported
  | some (.inr (k, rest)) => .tok (.key k) rest
  | none =>
  match mReal cs with
  | some (bad, rest) => if bad then .fail .ValueError else .tok .real rest
  | none =>
  match mInt cs with
  | some (neg, ds, rest) =>
    if maxDigits < ds.length then .fail .ValueError
    else .tok (.int (if neg then - (Nat.ofDigitChars 10 ds 0 : Int) else (Nat.ofDigitChars 10 ds 0 : Int))) rest
  | none =>
  match mStr cs with
  | some (body, rest) => .tok (.str body) rest
  | none =>
  match cs with
  | '[' :: rest => .tok .lb rest
  | ']' :: rest => .tok .rb rest
  | _ =>
  match mSkip cs with
  | some rest => .skip rest
  | none => .fail .NetworkXError

/-- the `while pos < length` loop on one (joined) line: the tokens and the exception that ends them, if any -/
def tokLoop : Nat → List Char → List Token × Option Err
  | 0, _ => ([], none)
  | _, [] => ([], none)
  | f + 1, c :: cs =>
    match nextTok (c :: cs) with
    | .fail e => ([], some e)
    | .skip rest => tokLoop f rest
    | .tok t rest => let (ts, e) := tokLoop f rest; (t :: ts, e)

def tokLine (line : List Char) : List Token × Option Err := tokLoop line.length line

def lstrip (s : List Char) : List Char := s.dropWhile isSpace
def rstrip (s : List Char) : List Char := (s.reverse.dropWhile isSpace).reverse
def strip (s : List Char) : List Char := rstrip (lstrip s)

/-- `" ".join(parts)` -/
def joinSp : List (List Char) → List Char
  | [] => []
  | [l] => l
  | l :: ls => l ++ ' ' :: joinSp ls

/-- the `for line in lines` loop of `tokenize()`; `ml` = `multilines` when it is not empty -/
def tokLines : List (List Char) → Option (List (List Char)) → List Token
  | [], _ => [.eof]
  | line :: ls, some parts =>
    let parts' := parts ++ [strip line]
    match line.getLast? with
    | none => [.err .IndexError]
    | some c =>
      if c = '"' then
        match tokLine (joinSp parts') with
        | (ts, some e) => ts ++ [.err e]
        | (ts, none) => ts ++ tokLines ls none
      else tokLines ls (some parts')
  | line :: ls, none =>
    if line.count '"' = 1 && (strip line).head? != some '"' && (strip line).getLast? != some '"' then
      tokLines ls (some [rstrip line])
    else
      match tokLine line with
      | (ts, some e) => ts ++ [.err e]
      | (ts, none) => ts ++ tokLines ls none

/-! ## parse_kv / parse_dict -/

inductive Value where
  | str (s : List Char)
  | int (i : Int)
  | real
  | tuple0
  | list (l : List Value)
  | dict (d : List (List Char × Value))

abbrev Dct := List (List Char × List Value)

/-- `dct[key].append(value)` on a `defaultdict(list)` -/
def dAppend : Dct → List Char → Value → Dct
  | [], k, v => [(k, [v])]
  | (k', vs) :: d, k, v => if k' = k then (k', vs ++ [v]) :: d else (k', vs) :: dAppend d k v

def listStart : List Char := "_networkx_list_start".toList

def isListStart : Value → Bool
  | .str s => s == listStart
  | _ => false

/-- `clean_dict_value` (the argument is always a non-empty list) -/
def cleanValue (vs : List Value) : Value :=
  match vs with
  | [v] => v
  | v :: rest => if isListStart v then .list rest else .list vs
  | [] => .list []

def cleanDct (d : Dct) : Value := .dict (d.map fun (k, vs) => (k, cleanValue vs))

/-- `next(tokens)`: drop the current token; the generator raises if an exception is next -/
def adv : List Token → R (List Token)
  | _ :: .err e :: _ => throw e
  | _ :: rest => pure rest
  | [] => pure []

def kId : List Char := ['i','d']
def kLabel : List Char := ['l','a','b','e','l']
def kSource : List Char := ['s','o','u','r','c','e']
def kTarget : List Char := ['t','a','r','g','e','t']

def isIdKey (k : List Char) : Bool := k == kId || k == kLabel || k == kSource || k == kTarget

/-- the quoted-string value: `unescape`, then `"()"` ↦ `()` and `"[]"` ↦ `[]` -/
def strValue (body : List Char) : R Value := do
  let s ← unescape body
  if s = ['(', ')'] then pure .tuple0
  else if s = ['[', ']'] then pure (.list [])
  else pure (.str s)

/-- everything inside `try … except Exception: unexpected(…)` becomes `NetworkXError` (`unsupported` stays) -/
def tryNx {α : Type} (x : R α) : R α :=
  match x with
  | .ok a => .ok a
  | .error .unsupported => .error .unsupported
  | .error _ => .error .NetworkXError

/-- `parse_kv(curr_token)` with `parse_dict` inlined; the head of `ts` is `curr_token`; the fuel bounds the nesting plus
the number of entries (the length of the token list is enough) -/
def parseKv : Nat → List Token → Dct → R (List Token × Value)
  | 0, _, _ => throw .unsupported
  | f + 1, ts, acc =>
    match ts with
    | .key k :: _ => do
      let ts1 ← adv ts
      match ts1 with
      | .real :: _ => do
        let ts2 ← adv ts1
        parseKv f ts2 (dAppend acc k .real)
      | .int i :: _ => do
        let ts2 ← adv ts1
        parseKv f ts2 (dAppend acc k (.int i))
      | .str body :: _ => do
        let v ← strValue body
        let ts2 ← adv ts1
        parseKv f ts2 (dAppend acc k v)
      | .lb :: _ => do
        let ts2 ← adv ts1
        let (ts3, v) ← parseKv f ts2 []
        match ts3 with
        | .rb :: _ => do
          let ts4 ← adv ts3
          parseKv f ts4 (dAppend acc k v)
        | _ => throw .NetworkXError
      | t :: _ =>
        if isIdKey k then do
          let (ts2, v) ← tryNx (do
            let txt : List Char := match t with
              | .key k' => k'
              | .rb => [']']
              | _ => ['N','o','n','e']
            let s ← unescape txt
            if t = .eof then throw .NetworkXError      -- `next(tokens)` is StopIteration
            let ts2 ← adv ts1
            pure (ts2, Value.str s))
          parseKv f ts2 (dAppend acc k v)
        else if t = .key ['N','A','N'] || t = .key ['I','N','F'] then do
          let ts2 ← adv ts1
          parseKv f ts2 (dAppend acc k .real)
        else throw .NetworkXError
      | [] => throw .NetworkXError
    | _ => pure (ts, cleanDct acc)

/-- `parse_graph()`: the value of the top-level key `graph` -/
def parseGraph (toks : List Token) : R Value := do
  match toks with
  | .err e :: _ => throw e
  | _ => pure ()
  let (ts, top) ← parseKv (toks.length + 1) toks []
  match ts with
  | .eof :: _ => pure ()
  | _ => throw .NetworkXError
  match top with
  | .dict d =>
    match d.lookup ['g','r','a','p','h'] with
    | none => throw .NetworkXError
    | some (.list _) => throw .NetworkXError
    | some g => pure g
  | _ => throw .NetworkXError

/-! ## building the graph -/

/-- hashable values that are modelled as nodes -/
inductive Atom where
  | str (s : List Char)
  | int (i : Int)
  | tuple0
  deriving DecidableEq, Repr

structure Parsed where
  directed : Bool
  nodes : List Atom
  edges : List (Atom × Atom)
  deriving DecidableEq, Repr

def truthy : Value → R Bool
  | .str s => pure (!s.isEmpty)
  | .int i => pure (i != 0)
  | .real => throw .unsupported
  | .tuple0 => pure false
  | .list l => pure (!l.isEmpty)
  | .dict d => pure (!d.isEmpty)

def hashable : Value → Bool
  | .list _ => false
  | .dict _ => false
  | _ => true

/-- a hashable value as a node (`real`: not modelled) -/
def toAtom : Value → R Atom
  | .str s => pure (.str s)
  | .int i => pure (.int i)
  | .tuple0 => pure .tuple0
  | .real => throw .unsupported
  | _ => throw .TypeError

/-- `dct.pop(attr)` of `pop_attr`: `AttributeError` when the thing is not a dict, `NetworkXError` when the key is missing -/
def popAttr (v : Value) (k : List Char) : R (Value × Value) :=
  match v with
  | .dict d =>
    match d.lookup k with
    | some x => pure (x, .dict (d.filter fun p => p.1 != k))
    | none => throw .NetworkXError
  | _ => throw .AttributeError

def hasKey (v : Value) (k : List Char) : Bool :=
  match v with
  | .dict d => d.any fun p => p.1 == k
  | _ => false

/-- `x if isinstance(x, list) else [x]` -/
def asList : Value → List Value
  | .list l => l
  | v => [v]

def hasEdge (directed : Bool) (E : List (Atom × Atom)) (u v : Atom) : Bool :=
  E.contains (u, v) || (!directed && E.contains (v, u))

/-- `list(G.adj[n])` (successors for a `DiGraph`) of the graph whose edges were added in the order `E` -/
def adjOf (directed : Bool) (E : List (Atom × Atom)) (n : Atom) : List Atom :=
  E.filterMap fun e => if e.1 = n then some e.2 else if !directed && e.2 = n then some e.1 else none

def viewU (E : List (Atom × Atom)) : List Atom → List Atom → List (Atom × Atom)
  | [], _ => []
  | n :: ns, seen => ((adjOf false E n).filter (fun m => !seen.contains m)).map (fun m => (n, m)) ++ viewU E ns (n :: seen)

/-- `list(G.edges)` -/
def edgesView (directed : Bool) (nodes : List Atom) (E : List (Atom × Atom)) : List (Atom × Atom) :=
  if directed then nodes.flatMap fun n => (adjOf true E n).map fun m => (n, m)
  else viewU E nodes []

/-- the `for i, node in enumerate(nodes)` loop: ids in order, `mapping` -/
def buildNodes : List Value → List Atom → List (Atom × Atom) → R (List Atom × List (Atom × Atom))
  | [], ids, mapping => pure (ids, mapping)
  | node :: rest, ids, mapping => do
    let (idv, node1) ← popAttr node kId
    if hashable idv then
      let a ← toAtom idv
      if ids.contains a then throw .NetworkXError
    let (lab, node2) ← popAttr node1 kLabel
    let l ← toAtom lab
    if (mapping.map Prod.snd).contains l then throw .NetworkXError
    let a ← toAtom idv
    if hasKey node2 ['s','e','l','f'] || hasKey node2 "node_for_adding".toList then throw .TypeError
    buildNodes rest (ids ++ [a]) (mapping ++ [(a, l)])

/-- the `for i, edge in enumerate(edges)` loop -/
def buildEdges (directed : Bool) (ids : List Atom) : List Value → List (Atom × Atom) → R (List (Atom × Atom))
  | [], E => pure E
  | edge :: rest, E => do
    let (sv, e1) ← popAttr edge kSource
    let (tv, e2) ← popAttr e1 kTarget
    if !hashable sv then throw .NetworkXError
    let s ← toAtom sv
    if !ids.contains s then throw .NetworkXError
    if !hashable tv then throw .NetworkXError
    let t ← toAtom tv
    if !ids.contains t then throw .NetworkXError
    if hasEdge directed E s t then throw .NetworkXError
    if hasKey e2 ['s','e','l','f'] || hasKey e2 "u_of_edge".toList || hasKey e2 "v_of_edge".toList then throw .TypeError
    buildEdges directed ids rest (E ++ [(s, t)])

def mapNode (mapping : List (Atom × Atom)) (n : Atom) : Atom := (mapping.lookup n).getD n

def kDirected : List Char := ['d','i','r','e','c','t','e','d']
def kMultigraph : List Char := ['m','u','l','t','i','g','r','a','p','h']
def kNode : List Char := ['n','o','d','e']
def kEdge : List Char := ['e','d','g','e']

/-- `directed = graph.pop("directed", False)`, `multigraph = graph.pop("multigraph", False)`, `graph.get("node", [])`,
`graph.get("edge", [])` (both as lists): the three things the rest of `parse_gml_lines` looks at -/
def graphParts (graph : Value) : R (Bool × List Value × List Value) := do
  let d ← match graph with
    | .dict d => pure d
    | _ => throw .AttributeError
  let directed ← match d.lookup kDirected with
    | some v => truthy v
    | none => pure false
  let multigraph ← match d.lookup kMultigraph with
    | some v => truthy v
    | none => pure false
  if multigraph then throw .unsupported
  let nodes := match d.lookup kNode with
    | some v => asList v
    | none => []
  let edges := match d.lookup kEdge with
    | some v => asList v
    | none => []
  pure (directed, nodes, edges)

/-- the two loops of `parse_gml_lines` and `relabel_nodes(G, mapping)` (copy mode):
`H.add_nodes_from(mapping[n] for n in G); H.add_edges_from((mapping[u], mapping[v]) for u, v in G.edges)` -/
def buildGraph (directed : Bool) (nodes edges : List Value) : R Parsed := do
  let (ids, mapping) ← buildNodes nodes [] []
  let E ← buildEdges directed ids edges []
  let hNodes := ids.map (mapNode mapping)
  let hE := (edgesView directed ids E).map fun e => (mapNode mapping e.1, mapNode mapping e.2)
  pure { directed := directed, nodes := hNodes, edges := edgesView directed hNodes hE }

/-- the part of `parse_gml_lines` after `parse_graph()` -/
def build (graph : Value) : R Parsed := do
  let (directed, nodes, edges) ← graphParts graph
  buildGraph directed nodes edges

/-- `networkx.parse_gml(text)` for a `str`: (is a `DiGraph`, `list(G.nodes)`, `list(G.edges)`) -/
def parseText (text : List Char) : R Parsed := do
  let g ← parseGraph (tokLines (splitLines text) none)
  build g

/-! ## `String` wrappers -/

def generateGml (directed : Bool) (labels : List String) (edges : List (String × String)) : String :=
  String.ofList (genText directed (labels.map String.toList) (edges.map fun e => (e.1.toList, e.2.toList)))

def parseGml (text : String) : R Parsed := parseText text.toList

end CG.NxGml
