/-
C12 (string half): the node-name grammar of `cai_causal_graph/utils.py`.

`get_variable_name_and_lag` runs

    re.match(r'^(?s:(.+?\n*))(?: lag\(n=(\d+)\))?(?: future\(n=(\d+)\))?$', node_name)

then counts `re.findall(r'lag\(n=(\d+)\)', ..)` and `re.findall(r'future\(n=(\d+)\)', ..)`; more than one marker in
total is a `ValueError`, no match is a `ValueError`; otherwise the answer is `(group 1, -int(group 2))` when group 2
is truthy, else `(group 1, int(group 3))` when group 3 is truthy, else `(group 1, 0)`.

The model executes the backtracking matcher by hand, in the matcher's own priority order, on `List Char`
(one `Char` = one Python code point):

* `.+?`      lazy: shortest non-empty prefix first (`search`), DOTALL so every character counts;
* `\n*`      greedy: the whole newline run first, then back off one at a time (`tryNewlines`);
* `(?: lag\(n=(\d+)\))?`     greedy optional: present first, absent second (`matchTail`);
* `(?: future\(n=(\d+)\))?`  greedy optional: present first, absent second (`tryFuture`);
* `$`        end of string, or just before one final newline (`atEnd`).

Inside a marker `\d+` is greedy and is followed by `\)`: backing off inside the digit run can never help (the next
character would be a digit, not `)`), so only the maximal run is tried (`takeDigits`).

Digits are Python's: `\d` and `int()` accept every Unicode decimal digit (category Nd).  `isDigit`/`digitVal` read the
generated table `CG.Generated.ndZeros` (zero of every Nd block; blocks are ten consecutive code points).

No Mathlib: this file is linked into the driver.
-/
import CG.Generated.Digits

namespace CG.Name

abbrev Str := List Char

/-! ### digits -/

/-- decimal value of code point `n` if it is a Unicode decimal digit (category Nd) -/
def ndVal? (n : Nat) : Option Nat :=
  (CG.Generated.ndZeros.find? fun z => z ≤ n && n < z + 10).map fun z => n - z

def digitVal? (c : Char) : Option Nat := ndVal? c.toNat

/-- Python `\d` on a `str` pattern -/
def isDigit (c : Char) : Bool := (digitVal? c).isSome

def digitVal (c : Char) : Nat := (digitVal? c).getD 0

/-- Python `int(d)` for a string of decimal digits (any mixture of Nd blocks) -/
def decVal (d : Str) : Nat := d.foldl (fun acc c => 10 * acc + digitVal c) 0

/-! ### pieces of the pattern -/

def lagW : Str := ['l', 'a', 'g']
def futW : Str := ['f', 'u', 't', 'u', 'r', 'e']
/-- the literal `(n=` -/
def openW : Str := ['(', 'n', '=']

/-- longest run of digits at the head, and the rest -/
def takeDigits : Str → Str × Str
  | [] => ([], [])
  | c :: cs => if isDigit c then let (d, r) := takeDigits cs; (c :: d, r) else ([], c :: cs)

def stripPrefix? : Str → Str → Option Str
  | [], s => some s
  | _ :: _, [] => none
  | p :: ps, c :: cs => if p = c then stripPrefix? ps cs else none

/-- match `word\(n=(\d+)\)` at the head of `s`: the captured digits and what follows the `)` -/
def matchBare (word : Str) (s : Str) : Option (Str × Str) :=
  match stripPrefix? (word ++ openW) s with
  | none => none
  | some r =>
    match takeDigits r with
    | ([], _) => none
    | (d, ')' :: rest) => some (d, rest)
    | _ => none

/-- match `' ' word\(n=(\d+)\)` at the head of `s` (the form inside the big pattern: one leading space) -/
def matchMarker (word : Str) (s : Str) : Option (Str × Str) := matchBare (' ' :: word) s

/-- `$` without MULTILINE: at the end, or before one final newline -/
def atEnd (s : Str) : Bool := s == [] || s == ['\n']

/-- `(?: future\(n=(\d+)\))?$` at `p`, group 2 already decided (`lag`): present first, then absent -/
def tryFuture (lag : Option Str) (p : Str) : Option (Option Str × Option Str) :=
  match matchMarker futW p with
  | some (d, q) => if atEnd q then some (lag, some d) else if atEnd p then some (lag, none) else none
  | none => if atEnd p then some (lag, none) else none

/-- everything after group 1: `(?: lag..)?(?: future..)?$`; returns groups 2 and 3 -/
def matchTail (s : Str) : Option (Option Str × Option Str) :=
  match matchMarker lagW s with
  | some (d, p) =>
    match tryFuture (some d) p with
    | some r => some r
    | none => tryFuture none s
  | none => tryFuture none s

/-- length of the newline run at the head -/
def newlineRun : Str → Nat
  | '\n' :: cs => newlineRun cs + 1
  | _ => 0

/-- `\n*` greedy with back-off: try to continue after `k` newlines, then `k-1`, …, `0`.
    Returns how many newlines group 1 kept, and groups 2, 3. -/
def tryNewlines (s : Str) : Nat → Option (Nat × (Option Str × Option Str))
  | 0 => (matchTail s).map (fun r => (0, r))
  | k + 1 =>
    match matchTail (s.drop (k + 1)) with
    | some r => some (k + 1, r)
    | none => tryNewlines s k

/-- `.+?` lazy: `pre` is what has been passed over already; the next candidate for `.+?` is `pre ++ [c]`.
    Returns groups 1, 2, 3 of the first successful alternative. -/
def search : Str → Str → Option (Str × Option Str × Option Str)
  | _, [] => none
  | pre, c :: cs =>
    match tryNewlines cs (newlineRun cs) with
    | some (k, (l, f)) => some (pre ++ c :: cs.take k, l, f)
    | none => search (pre ++ [c]) cs

/-- `re.match(pattern, s)`: groups 1, 2, 3 -/
def reMatch (s : Str) : Option (Str × Option Str × Option Str) := search [] s

/-- `len(re.findall(word\(n=(\d+)\), s))`: scan left to right; at a position where the pattern matches count one and
    resume after the match (non-overlapping), otherwise move one character on.  `skip` = characters still covered by
    the previous match. -/
def countMarkers (word : Str) : Nat → Str → Nat
  | _, [] => 0
  | skip + 1, _ :: cs => countMarkers word skip cs
  | 0, c :: cs =>
    match matchBare word (c :: cs) with
    | some (_, rest) => 1 + countMarkers word (cs.length - rest.length) cs
    | none => countMarkers word 0 cs

/-- `num_matches` -/
def numMatches (s : Str) : Nat := countMarkers lagW 0 s + countMarkers futW 0 s

/-- Python truthiness of a match group: `None` and `''` are falsy -/
def truthy : Option Str → Bool
  | some (_ :: _) => true
  | _ => false

/-- `get_variable_name_and_lag` on code-point lists; `none` = `ValueError` -/
def parseL (s : Str) : Option (Str × Int) :=
  match reMatch s with
  | none => none
  | some (v, l, f) =>
    if numMatches s > 1 then none
    else if truthy l then some (v, -((decVal (l.getD []) : Nat) : Int))
    else if truthy f then some (v, ((decVal (f.getD []) : Nat) : Int))
    else some (v, 0)

/-- the formatter of `get_name_with_lag` (without its initial parse), on code-point lists -/
def fmtL (v : Str) (k : Int) : Str :=
  if k = 0 then v
  else if k > 0 then v ++ ' ' :: futW ++ openW ++ (Nat.repr k.toNat).toList ++ [')']
  else v ++ ' ' :: lagW ++ openW ++ (Nat.repr (-k).toNat).toList ++ [')']

/-- `get_name_with_lag` on code-point lists; `none` = `ValueError` -/
def formatL (s : Str) (k : Int) : Option Str :=
  match parseL s with
  | none => none
  | some (v, _) => some (fmtL v k)

/-! ### `String` API -/

/-- `get_variable_name_and_lag(s)`; `none` = `ValueError` -/
def parse (s : String) : Option (String × Int) :=
  match parseL s.toList with
  | none => none
  | some (v, k) => some (String.ofList v, k)

/-- the pure formatter: lag 0 → the variable name, `k > 0` → `v future(n=k)`, `k < 0` → `v lag(n=-k)` -/
def fmt (v : String) (k : Int) : String :=
  if k = 0 then v
  else if k > 0 then v ++ " future(n=" ++ Nat.repr k.toNat ++ ")"
  else v ++ " lag(n=" ++ Nat.repr (-k).toNat ++ ")"

/-- `get_name_with_lag(s, k)`: parses first (and may raise), then formats the variable name; `none` = `ValueError` -/
def format (s : String) (k : Int) : Option String :=
  match parse s with
  | none => none
  | some (v, _) => some (fmt v k)

/-! ### `extract_names_and_lags` -/

/-- the running "maximum" of `extract_names_and_lags`: `if abs(lag) > abs(max_lag): max_lag = lag` -/
def maxStep (m k : Int) : Int := if k.natAbs > m.natAbs then k else m

/-- one turn of the loop of `extract_names_and_lags`; `none` = `ValueError` out of `get_variable_name_and_lag` -/
def extractStep (acc : List (String × Int) × Int) (n : String) : Option (List (String × Int) × Int) :=
  match parse n with
  | none => none
  | some (v, k) => some (acc.1 ++ [(v, k)], maxStep acc.2 k)

/-- `extract_names_and_lags(node_names)`: the list of one-entry dictionaries `{variable: lag}` as pairs, and the lag of
largest absolute value (the first one among equals; `0` for an empty list or when every lag is 0) -/
def extractNamesAndLags (names : List String) : Option (List (String × Int) × Int) :=
  names.foldlM extractStep ([], 0)

/-! ### marker-freeness (the domain of the C12 theorems) -/

/-- the text `word(n=d)` -/
def bare (word d : Str) : Str := word ++ openW ++ d ++ [')']

/-- the text `' ' word(n=d)`, the suffix the formatter appends -/
def marker (word d : Str) : Str := ' ' :: bare word d

/-- `x` contains no marker: no substring `lag(n=d)` / `future(n=d)` with `d` one or more digits.
    Decidable through `hasMarker` (`CG.Name.noMarker_iff` in `CG/Proofs/Lemmas/Name.lean`). -/
def NoMarker (x : Str) : Prop :=
  ∀ (word : Str), word = lagW ∨ word = futW → ∀ (pre d post : Str), d ≠ [] → (∀ c ∈ d, isDigit c = true) →
    x ≠ pre ++ bare word d ++ post

/-- executable form of `¬ NoMarker`: some suffix of `s` starts with `lag(n=d+)` or `future(n=d+)` -/
def hasMarker : Str → Bool
  | [] => false
  | c :: cs => (matchBare lagW (c :: cs)).isSome || (matchBare futW (c :: cs)).isSome || hasMarker cs

end CG.Name
