/-
Structural queries of `CausalGraph` (property C10) over a node list and the list of DIRECTED edges.

`nodes : List α` are the identifiers of the graph, `E : List (α × α)` its directed edges in the order of the
per-node `_outbound_edges` lists (insertion order; every theorem is about membership only, so the order is
unobservable).  Non-directed edges of a mixed graph never reach this file: the only query that is defined on
mixed graphs (`directed_path_exists`) ignores them.

Where the Python delegates to networkx (`ancestors`, `descendants`, `all_simple_paths`) the model is a
definitional algorithm (`EL.reach`, `Paths.paths`).  Where the Python has its own algorithm
(`get_nodes_between`, `directed_path_exists`, `_get_subgraph`, parents / children graphs) the model mirrors
it step by step; recursion is driven by a fuel argument and fuel exhaustion is the value `none`
(Python: `RecursionError`).

The `get…` wrappers at the end add the existence / DAG checks of the public methods (error classes only).
No Mathlib.
-/
import CG.Model.EdgeList
import CG.Model.Paths
set_option linter.unusedSectionVars false
set_option linter.unusedSimpArgs false

namespace CG.Q
open CG.EL
variable {α : Type} [DecidableEq α]

/-! ### networkx-backed queries (definitional) -/

/-- `networkx.descendants`: everything reachable from `n`, `n` itself removed -/
def descendants (E : List (α × α)) (n : α) : List α := (reach E n).filter (fun x => x ≠ n)

/-- `networkx.ancestors`: the same search on the reversed graph -/
def ancestors (E : List (α × α)) (n : α) : List α := (reach (rev E) n).filter (fun x => x ≠ n)

/-- `is_ancestor(a, ds)`: `set(ds).issubset(get_descendants(a))` (a single node is the one-element list) -/
def isAncestor (E : List (α × α)) (a : α) (ds : List α) : Bool := ds.all (fun d => d ∈ descendants E a)

/-- `is_descendant(d, as)`: `set(as).issubset(get_ancestors(d))` -/
def isDescendant (E : List (α × α)) (d : α) (as : List α) : Bool := as.all (fun a => a ∈ ancestors E d)

def commonAncestors (E : List (α × α)) (a b : α) : List α := (ancestors E a).filter (fun x => x ∈ ancestors E b)

def commonDescendants (E : List (α × α)) (a b : α) : List α :=
  (descendants E a).filter (fun x => x ∈ descendants E b)

/-- `get_all_causal_paths`: `[]` when source and destination coincide, otherwise every simple directed path.
    A simple path has at most `|E| + 1` vertices, which is the fuel given to the enumeration. -/
def allCausalPaths (E : List (α × α)) (s t : α) : List (List α) :=
  if s = t then [] else CG.Paths.paths E t (E.length + 1) s []

/-- `is_dag()` on a fully directed graph: no edge `(a, b)` with `a` reachable from `b` -/
def isDag (E : List (α × α)) : Bool := E.all (fun e => decide (e.1 ∉ reach E e.2))

/-! ### `get_nodes_between`: the code's own memoised recursion -/

/-- the `seen_nodes` dictionary -/
abbrev Memo (α : Type) := List (α × Bool)

def Memo.get? (m : Memo α) (a : α) : Option Bool := (m.find? (fun kv => kv.1 = a)).map (·.2)

/-- `seen_nodes[k] = v` (overwrites) -/
def Memo.set (m : Memo α) (k : α) (v : Bool) : Memo α := (k, v) :: m.filter (fun kv => kv.1 ≠ k)

def Memo.keys (m : Memo α) : List α := m.map (·.1)

/-- `{node for node, has_path in seen_nodes.items() if has_path}` -/
def Memo.trueKeys (m : Memo α) : List α := (m.filter (·.2)).map (·.1)

mutual
/-- `_has_causal_path_inner(start_node_, end_node_)` with the dictionary threaded through; `none` = out of fuel -/
def inner (E : List (α × α)) (t : α) : Nat → α → Memo α → Option (Bool × Memo α)
  | 0, _, _ => none
  | f + 1, s, m =>
    match m.get? s with
    | some b => some (b, m)                                   -- cached
    | none =>
      if s = t then some (true, m.set s true)                 -- start is the end node
      else if (succs E s).isEmpty then some (false, m.set s false)   -- sink short-cut
      else
        match innerL E t f (succs E s) m with                 -- every child is evaluated, then `any`
        | none => none
        | some (r, m') => some (r, m'.set s r)
/-- the list comprehension over the children followed by `any` -/
def innerL (E : List (α × α)) (t : α) : Nat → List α → Memo α → Option (Bool × Memo α)
  | _, [], m => some (false, m)
  | f, c :: cs, m =>
    match inner E t f c m with
    | none => none
    | some (r1, m1) =>
      match innerL E t f cs m1 with
      | none => none
      | some (r2, m2) => some (r1 || r2, m2)
end

/-- body of `get_nodes_between` after the checks; fuel = number of nodes -/
def nodesBetweenF (E : List (α × α)) (fuel : Nat) (s t : α) : Option (List α) :=
  match inner E t fuel s [] with
  | none => none
  | some (false, _) => some []
  | some (true, m) => some m.trueKeys

def nodesBetween (nodes : List α) (E : List (α × α)) (s t : α) : List α :=
  (nodesBetweenF E nodes.length s t).getD []

/-! ### `directed_path_exists`: the code's own recursion over outbound directed edges -/

mutual
/-- one call; `none` = out of fuel (the Python recursion does not terminate on a directed cycle that is
    entered before the destination is found) -/
def dpe (E : List (α × α)) (t : α) : Nat → α → Option Bool
  | 0, _ => none
  | f + 1, s =>
    if t ∈ succs E s then some true else dpeL E t f (succs E s)
/-- `for child in children: if self.directed_path_exists(child, destination): return True` … `return False` -/
def dpeL (E : List (α × α)) (t : α) : Nat → List α → Option Bool
  | _, [] => some false
  | f, c :: cs =>
    match dpe E t f c with
    | none => none
    | some true => some true
    | some false => dpeL E t f cs
end

/-- `directed_path_exists(s, t)`; callers pass `fuel = nodes.length` -/
def directedPathExists (E : List (α × α)) (fuel : Nat) (s t : α) : Option Bool := dpe E t fuel s

/-! ### sub-graphs -/

/-- `add_node` reached through `add_edge(edge=…)`: only when the identifier is new -/
def addNew (acc : List α) (x : α) : List α := if x ∈ acc then acc else acc ++ [x]

/-- nodes created by adding the kept edges one after the other (source first) -/
def endpoints (kept : List (α × α)) : List α := kept.foldl (fun acc e => addNew (addNew acc e.1) e.2) []

/-- `_get_subgraph(ns)` = (nodes, edges) of the result.  The explicit `add_node` loop runs only when NO edge is
    kept; otherwise nodes enter the result only as end points of kept edges. -/
def subgraph (E : List (α × α)) (ns : List α) : List α × List (α × α) :=
  let kept := E.filter (fun e => e.1 ∈ ns ∧ e.2 ∈ ns)
  (if kept.isEmpty then ns else endpoints kept, kept)

/-- `get_ancestral_graph(n)`: `_get_subgraph([*ancestors, n])` -/
def ancestralGraph (E : List (α × α)) (n : α) : List α × List (α × α) := subgraph E (ancestors E n ++ [n])

/-- `get_descendant_graph(n)`: `_get_subgraph([*descendants, n])` -/
def descendantGraph (E : List (α × α)) (n : α) : List α × List (α × α) := subgraph E (descendants E n ++ [n])

/-- `get_parents_graph(n)`: copy, delete every edge that is not inbound to `n`, delete every node that is neither
    `n` nor the source of an inbound edge -/
def parentsGraph (nodes : List α) (E : List (α × α)) (n : α) : List α × List (α × α) :=
  (nodes.filter (fun x => x = n ∨ x ∈ preds E n), E.filter (fun e => e.2 = n))

/-- `get_children_graph(n)` -/
def childrenGraph (nodes : List α) (E : List (α × α)) (n : α) : List α × List (α × α) :=
  (nodes.filter (fun x => x = n ∨ x ∈ succs E n), E.filter (fun e => e.1 = n))

/-! ### the public methods with their checks (exception classes only) -/

inductive Err
  | assertion       -- AssertionError
  | key             -- KeyError
  | nodeDuplicated  -- NodeDuplicatedError
  | recursion       -- RecursionError
  deriving DecidableEq, Repr

def Err.name : Err → String
  | .assertion => "AssertionError"
  | .key => "KeyError"
  | .nodeDuplicated => "NodeDuplicatedError"
  | .recursion => "RecursionError"

def getAncestors (nodes : List α) (E : List (α × α)) (n : α) : Except Err (List α) :=
  if n ∈ nodes then .ok (ancestors E n) else .error .assertion

def getDescendants (nodes : List α) (E : List (α × α)) (n : α) : Except Err (List α) :=
  if n ∈ nodes then .ok (descendants E n) else .error .assertion

/-- the argument `get_descendants(a)` is evaluated first, hence the assertion on `a` only -/
def getIsAncestor (nodes : List α) (E : List (α × α)) (a : α) (ds : List α) : Except Err Bool :=
  if a ∈ nodes then .ok (isAncestor E a ds) else .error .assertion

def getIsDescendant (nodes : List α) (E : List (α × α)) (d : α) (as : List α) : Except Err Bool :=
  if d ∈ nodes then .ok (isDescendant E d as) else .error .assertion

def getCommonAncestors (nodes : List α) (E : List (α × α)) (a b : α) : Except Err (List α) :=
  if a ∈ nodes ∧ b ∈ nodes then .ok (commonAncestors E a b) else .error .assertion

def getCommonDescendants (nodes : List α) (E : List (α × α)) (a b : α) : Except Err (List α) :=
  if a ∈ nodes ∧ b ∈ nodes then .ok (commonDescendants E a b) else .error .assertion

/-- `assert self.is_dag()`, then `assert all(node in names …)`, then the `source == destination` short-cut -/
def getAllCausalPaths (nodes : List α) (E : List (α × α)) (s t : α) : Except Err (List (List α)) :=
  if ¬ isDag E then .error .assertion
  else if ¬ (s ∈ nodes ∧ t ∈ nodes) then .error .assertion
  else .ok (allCausalPaths E s t)

/-- `assert self.is_dag()`, then `self.get_node(node_1)`, `self.get_node(node_2)` (`KeyError`) -/
def getNodesBetween (nodes : List α) (E : List (α × α)) (s t : α) : Except Err (List α) :=
  if ¬ isDag E then .error .assertion
  else if s ∉ nodes then .error .key
  else if t ∉ nodes then .error .key
  else match nodesBetweenF E nodes.length s t with
    | some r => .ok r
    | none => .error .recursion

def getDirectedPathExists (nodes : List α) (E : List (α × α)) (s t : α) : Except Err Bool :=
  if ¬ (s ∈ nodes ∧ t ∈ nodes) then .error .assertion
  else match directedPathExists E nodes.length s t with
    | some b => .ok b
    | none => .error .recursion

/-- the explicit `add_node` loop of `_get_subgraph` (unknown node: `KeyError` from `get_node`; repeated node:
    `NodeDuplicatedError`) -/
def addNodes (nodes : List α) : List α → List α → Except Err (List α)
  | [], acc => .ok acc
  | x :: xs, acc =>
    if x ∉ nodes then .error .key
    else if x ∈ acc then .error .nodeDuplicated
    else addNodes nodes xs (acc ++ [x])

/-- `_get_subgraph` with the failure modes of its `add_node` loop -/
def getSubgraph (nodes : List α) (E : List (α × α)) (ns : List α) : Except Err (List α × List (α × α)) :=
  let kept := E.filter (fun e => e.1 ∈ ns ∧ e.2 ∈ ns)
  if kept.isEmpty then
    match addNodes nodes ns [] with
    | .ok acc => .ok (acc, kept)
    | .error e => .error e
  else .ok (endpoints kept, kept)

def getAncestralGraph (nodes : List α) (E : List (α × α)) (n : α) : Except Err (List α × List (α × α)) :=
  if n ∈ nodes then getSubgraph nodes E (ancestors E n ++ [n]) else .error .assertion

def getDescendantGraph (nodes : List α) (E : List (α × α)) (n : α) : Except Err (List α × List (α × α)) :=
  if n ∈ nodes then getSubgraph nodes E (descendants E n ++ [n]) else .error .assertion

def getParentsGraph (nodes : List α) (E : List (α × α)) (n : α) : Except Err (List α × List (α × α)) :=
  if n ∈ nodes then .ok (parentsGraph nodes E n) else .error .assertion

def getChildrenGraph (nodes : List α) (E : List (α × α)) (n : α) : Except Err (List α × List (α × α)) :=
  if n ∈ nodes then .ok (childrenGraph nodes E n) else .error .assertion

#eval nodesBetween [1,2,3,4,5] [(1,2),(2,4),(1,3),(3,4),(3,5)] 1 4
#eval nodesBetween [1,2,3,4,5] [(1,2),(2,4),(1,3),(3,4),(3,5)] 5 1
#eval nodesBetween [1,2,3,4,5] [(1,2),(2,4),(1,3),(3,4),(3,5)] 3 3
#eval directedPathExists [(1,2),(2,4),(1,3),(3,4),(3,5)] 5 1 5
#eval directedPathExists [(1,2),(2,1),(1,3)] 3 1 3
#eval directedPathExists [(1,2),(2,1),(1,3)] 3 1 4
#eval allCausalPaths [(1,2),(2,4),(1,3),(3,4),(3,5)] 1 4
#eval ancestralGraph [(1,2),(2,4),(1,3),(3,4),(3,5)] 4
#eval ancestralGraph [(1,2),(2,4),(1,3),(3,4),(3,5)] 1
#eval getSubgraph [1,2,3] [(1,2)] [1,3,1]

end CG.Q
