/-
d-separation between two single nodes: the path-blocking definition (`DSep`) and a boolean decision
procedure (`dsepB`) that enumerates the simple paths of the skeleton; `dsepB_iff` proves them equal for
every edge list (no acyclicity hypothesis).  No Mathlib.
-/
import CG.Model.Paths
set_option linter.unusedSectionVars false
set_option linter.unusedSimpArgs false

namespace CG.DSepDec
variable {α : Type} [DecidableEq α]

abbrev Rel (E : List (α × α)) (a b : α) : Prop := (a, b) ∈ E

/-- symmetrised edge list (the skeleton) -/
def sym (E : List (α × α)) : List (α × α) := E ++ E.map (fun e => (e.2, e.1))

theorem mem_sym {E : List (α × α)} {a b : α} : (a, b) ∈ sym E ↔ (a, b) ∈ E ∨ (b, a) ∈ E := by
  unfold sym
  simp only [List.mem_append, List.mem_map]
  constructor
  · rintro (h | ⟨⟨x, y⟩, h1, h2⟩)
    · exact Or.inl h
    · simp at h2; obtain ⟨rfl, rfl⟩ := h2; exact Or.inr h1
  · rintro (h | h)
    · exact Or.inl h
    · exact Or.inr ⟨(b, a), h, rfl⟩

/-- specification -/
def BlocksAt (E : List (α × α)) (Z : List α) (a b c : α) : Prop :=
  ((Rel E a b ∧ Rel E c b) ∧ ∀ d, CG.EL.RTC (CG.EL.Rel E) b d → d ∉ Z) ∨ (¬ (Rel E a b ∧ Rel E c b) ∧ b ∈ Z)

def Blocked (E : List (α × α)) (Z : List α) : List α → Prop
  | a :: b :: c :: rest => BlocksAt E Z a b c ∨ Blocked E Z (b :: c :: rest)
  | _ => False

def DSep (E : List (α × α)) (x y : α) (Z : List α) : Prop :=
  ∀ p, CG.Paths.Walk (sym E) x y p → p.Nodup → Blocked E Z p

/-- decision procedure -/
def blocksAtB (E : List (α × α)) (Z : List α) (a b c : α) : Bool :=
  if (a, b) ∈ E ∧ (c, b) ∈ E then (CG.EL.reach E b).all (fun d => d ∉ Z) else decide (b ∈ Z)

def blockedB (E : List (α × α)) (Z : List α) : List α → Bool
  | a :: b :: c :: rest => blocksAtB E Z a b c || blockedB E Z (b :: c :: rest)
  | _ => false

theorem blocksAtB_iff (E : List (α × α)) (Z : List α) (a b c : α) :
    blocksAtB E Z a b c = true ↔ BlocksAt E Z a b c := by
  unfold blocksAtB BlocksAt
  by_cases h : (a, b) ∈ E ∧ (c, b) ∈ E
  · simp only [h, and_self, if_true, List.all_eq_true, decide_eq_true_eq, true_and, not_true_eq_false,
      false_and, or_false]
    constructor
    · intro hall d hd; exact hall d ((CG.EL.mem_reach_iff E b d).mpr hd)
    · intro hall d hd; exact hall d ((CG.EL.mem_reach_iff E b d).mp hd)
  · simp [h]

theorem blockedB_iff (E : List (α × α)) (Z : List α) : ∀ p, blockedB E Z p = true ↔ Blocked E Z p
  | [] => by simp [blockedB, Blocked]
  | [_] => by simp [blockedB, Blocked]
  | [_, _] => by simp [blockedB, Blocked]
  | a :: b :: c :: rest => by
    simp only [blockedB, Blocked, Bool.or_eq_true, blocksAtB_iff, blockedB_iff E Z (b :: c :: rest)]

/-- all vertices that can occur on a path from `x` -/
def verts (E : List (α × α)) (x : α) : List α := x :: (E.map (·.1) ++ E.map (·.2))

def dsepB (E : List (α × α)) (x y : α) (Z : List α) : Bool :=
  (CG.Paths.paths (sym E) y ((verts E x).length + 1) x []).all (blockedB E Z)

theorem walk_subset_verts {E : List (α × α)} {x y : α} {p : List α} (h : CG.Paths.Walk (sym E) x y p) :
    ∀ v ∈ p, v ∈ verts E x := by
  induction h with
  | single a => intro v hv; simp at hv; subst hv; simp [verts]
  | @cons a s b q hr _ ih =>
    intro v hv
    rcases List.mem_cons.mp hv with h | h
    · subst h; simp [verts]
    · have := ih v h
      have hs : s ∈ E.map (·.1) ++ E.map (·.2) := by
        rcases mem_sym.mp hr with h' | h'
        · exact List.mem_append_right _ (List.mem_map.mpr ⟨(a, s), h', rfl⟩)
        · exact List.mem_append_left _ (List.mem_map.mpr ⟨(s, a), h', rfl⟩)
      simp only [verts, List.mem_cons] at this ⊢
      rcases this with h'' | h''
      · subst h''; exact Or.inr hs
      · exact Or.inr h''

theorem dsepB_iff (E : List (α × α)) (x y : α) (Z : List α) : dsepB E x y Z = true ↔ DSep E x y Z := by
  unfold dsepB DSep
  simp only [List.all_eq_true]
  constructor
  · intro h p hw hnd
    have hlen : p.length ≤ (verts E x).length :=
      List.Nodup.length_le_of_subset hnd (walk_subset_verts hw)
    have hmem := CG.Paths.paths_complete (sym E) y ((verts E x).length + 1) x [] p ⟨hw, hnd, by simp, by omega⟩
    exact (blockedB_iff E Z p).mp (h p hmem)
  · intro h p hp
    obtain ⟨hw, hnd, _, _⟩ := CG.Paths.paths_sound (sym E) y ((verts E x).length + 1) x [] (by simp) p hp
    exact (blockedB_iff E Z p).mpr (h p hw hnd)

#print axioms dsepB_iff
-- chain a → b → c : a ⟂ c | b, not a ⟂ c | ∅ ; collider a → b ← c : a ⟂ c | ∅, not a ⟂ c | b
#eval (dsepB [(1,2),(2,3)] 1 3 [2], dsepB [(1,2),(2,3)] 1 3 [], dsepB [(1,2),(3,2)] 1 3 [], dsepB [(1,2),(3,2)] 1 3 [2], dsepB [(1,2),(3,2),(2,4)] 1 3 [4])
end CG.DSepDec
