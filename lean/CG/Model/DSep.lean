/-
d-separation between two single nodes: the path-blocking definition (`DSep`) and a boolean decision
procedure (`dsepB`) that enumerates the simple paths of the skeleton; `dsepB_iff` proves them equal for
every edge list (no acyclicity hypothesis).  No Mathlib.
-/
import CG.Model.Paths
set_option linter.unusedSectionVars false
set_option linter.unusedSimpArgs false

namespace CG.DSepDec
variable {α : Type} [DecidableEq α]

abbrev Rel (E : List (α × α)) (a b : α) : Prop := (a, b) ∈ E

/-- symmetrised edge list (the skeleton) -/
def sym (E : List (α × α)) : List (α × α) := E ++ E.map (fun e => (e.2, e.1))

theorem mem_sym {E : List (α × α)} {a b : α} : (a, b) ∈ sym E ↔ (a, b) ∈ E ∨ (b, a) ∈ E := by
  unfold sym
  simp only [List.mem_append, List.mem_map]
  constructor
  · rintro (h | ⟨⟨x, y⟩, h1, h2⟩)
    · exact Or.inl h
    · simp at h2; obtain ⟨rfl, rfl⟩ := h2; exact Or.inr h1
  · rintro (h | h)
    · exact Or.inl h
    · exact Or.inr ⟨(b, a), h, rfl⟩

/-- specification -/
def BlocksAt (E : List (α × α)) (Z : List α) (a b c : α) : Prop :=
  ((Rel E a b ∧ Rel E c b) ∧ ∀ d, CG.EL.RTC (CG.EL.Rel E) b d → d ∉ Z) ∨ (¬ (Rel E a b ∧ Rel E c b) ∧ b ∈ Z)

def Blocked (E : List (α × α)) (Z : List α) : List α → Prop
  | a :: b :: c :: rest => BlocksAt E Z a b c ∨ Blocked E Z (b :: c :: rest)
  | _ => False

def DSep (E : List (α × α)) (x y : α) (Z : List α) : Prop :=
  ∀ p, CG.Paths.Walk (sym E) x y p → p.Nodup → Blocked E Z p

/-- decision procedure -/
def blocksAtB (E : List (α × α)) (Z : List α) (a b c : α) : Bool :=
  if (a, b) ∈ E ∧ (c, b) ∈ E then (CG.EL.reach E b).all (fun d => d ∉ Z) else decide (b ∈ Z)

def blockedB (E : List (α × α)) (Z : List α) : List α → Bool
  | a :: b :: c :: rest => blocksAtB E Z a b c || blockedB E Z (b :: c :: rest)
  | _ => false

theorem blocksAtB_iff (E : List (α × α)) (Z : List α) (a b c : α) :
    blocksAtB E Z a b c = true ↔ BlocksAt E Z a b c := by
  unfold blocksAtB BlocksAt
  by_cases h : (a, b) ∈ E ∧ (c, b) ∈ E
  · simp only [h, and_self, if_true, List.all_eq_true, decide_eq_true_eq, true_and, not_true_eq_false,
      false_and, or_false]
    constructor
    · intro hall d hd; exact hall d ((CG.EL.mem_reach_iff E b d).mpr hd)
    · intro hall d hd; exact hall d ((CG.EL.mem_reach_iff E b d).mp hd)
  · simp [h]

theorem blockedB_iff (E : List (α × α)) (Z : List α) : ∀ p, blockedB E Z p = true ↔ Blocked E Z p
  | [] => by simp [blockedB, Blocked]
  | [_] => by simp [blockedB, Blocked]
  | [_, _] => by simp [blockedB, Blocked]
  | a :: b :: c :: rest => by
    simp only [blockedB, Blocked, Bool.or_eq_true, blocksAtB_iff, blockedB_iff E Z (b :: c :: rest)]

/-- all vertices that can occur on a path from `x` -/
def verts (E : List (α × α)) (x : α) : List α := x :: (E.map (·.1) ++ E.map (·.2))

def dsepB (E : List (α × α)) (x y : α) (Z : List α) : Bool :=
  (CG.Paths.paths (sym E) y ((verts E x).length + 1) x []).all (blockedB E Z)

theorem walk_subset_verts {E : List (α × α)} {x y : α} {p : List α} (h : CG.Paths.Walk (sym E) x y p) :
    ∀ v ∈ p, v ∈ verts E x := by
  induction h with
  | single a => intro v hv; simp at hv; subst hv; simp [verts]
  | @cons a s b q hr _ ih =>
    intro v hv
    rcases List.mem_cons.mp hv with h | h
    · subst h; simp [verts]
    · have := ih v h
      have hs : s ∈ E.map (·.1) ++ E.map (·.2) := by
        rcases mem_sym.mp hr with h' | h'
        · exact List.mem_append_right _ (List.mem_map.mpr ⟨(a, s), h', rfl⟩)
        · exact List.mem_append_left _ (List.mem_map.mpr ⟨(s, a), h', rfl⟩)
      simp only [verts, List.mem_cons] at this ⊢
      rcases this with h'' | h''
      · subst h''; exact Or.inr hs
      · exact Or.inr h''

theorem dsepB_iff (E : List (α × α)) (x y : α) (Z : List α) : dsepB E x y Z = true ↔ DSep E x y Z := by
  unfold dsepB DSep
  simp only [List.all_eq_true]
  constructor
  · intro h p hw hnd
    have hlen : p.length ≤ (verts E x).length :=
      List.Nodup.length_le_of_subset hnd (walk_subset_verts hw)
    have hmem := CG.Paths.paths_complete (sym E) y ((verts E x).length + 1) x [] p ⟨hw, hnd, by simp, by omega⟩
    exact (blockedB_iff E Z p).mp (h p hmem)
  · intro h p hp
    obtain ⟨hw, hnd, _, _⟩ := CG.Paths.paths_sound (sym E) y ((verts E x).length + 1) x [] (by simp) p hp
    exact (blockedB_iff E Z p).mpr (h p hw hnd)


/-! ## Extensions: generic path quantifier, reversal, endpoint rule, node sets, minimal separators,
argument checks.  (Everything above keeps its name and statement.) -/

/-- quantifying a boolean test over the enumerated simple paths = quantifying over all simple paths -/
theorem pathsAll_iff (E : List (α × α)) (x y : α) (f : List α → Bool) (P : List α → Prop)
    (h : ∀ p, f p = true ↔ P p) :
    (CG.Paths.paths (sym E) y ((verts E x).length + 1) x []).all f = true ↔
      ∀ p, CG.Paths.Walk (sym E) x y p → p.Nodup → P p := by
  simp only [List.all_eq_true]
  constructor
  · intro hall p hw hnd
    have hlen : p.length ≤ (verts E x).length :=
      List.Nodup.length_le_of_subset hnd (walk_subset_verts hw)
    have hmem := CG.Paths.paths_complete (sym E) y ((verts E x).length + 1) x [] p ⟨hw, hnd, by simp, by omega⟩
    exact (h p).mp (hall p hmem)
  · intro hall p hp
    obtain ⟨hw, hnd, _, _⟩ := CG.Paths.paths_sound (sym E) y ((verts E x).length + 1) x [] (by simp) p hp
    exact (h p).mpr (hall p hw hnd)

/-! ### the conditioning set only matters through membership -/

theorem blocksAt_congr {E : List (α × α)} {Z Z' : List α} (h : ∀ a, a ∈ Z ↔ a ∈ Z') (a b c : α) :
    BlocksAt E Z a b c ↔ BlocksAt E Z' a b c := by
  unfold BlocksAt
  constructor
  · rintro (⟨h1, h2⟩ | ⟨h1, h2⟩)
    · exact Or.inl ⟨h1, fun d hd hz => h2 d hd ((h d).mpr hz)⟩
    · exact Or.inr ⟨h1, (h b).mp h2⟩
  · rintro (⟨h1, h2⟩ | ⟨h1, h2⟩)
    · exact Or.inl ⟨h1, fun d hd hz => h2 d hd ((h d).mp hz)⟩
    · exact Or.inr ⟨h1, (h b).mpr h2⟩

theorem blocked_congr {E : List (α × α)} {Z Z' : List α} (h : ∀ a, a ∈ Z ↔ a ∈ Z') :
    ∀ p, Blocked E Z p ↔ Blocked E Z' p
  | [] => by simp [Blocked]
  | [_] => by simp [Blocked]
  | [_, _] => by simp [Blocked]
  | a :: b :: c :: rest => by
    simp only [Blocked, blocksAt_congr h a b c, blocked_congr h (b :: c :: rest)]

theorem dsep_congr {E : List (α × α)} {Z Z' : List α} (h : ∀ a, a ∈ Z ↔ a ∈ Z') (x y : α) :
    DSep E x y Z ↔ DSep E x y Z' := by
  unfold DSep
  constructor
  · intro hd p hw hn; exact (blocked_congr h p).mp (hd p hw hn)
  · intro hd p hw hn; exact (blocked_congr h p).mpr (hd p hw hn)

/-! ### reversal -/

theorem blocksAt_swap {E : List (α × α)} {Z : List α} {a b c : α} (h : BlocksAt E Z a b c) : BlocksAt E Z c b a := by
  unfold BlocksAt at h ⊢
  rcases h with ⟨⟨h1, h2⟩, h3⟩ | ⟨h1, h2⟩
  · exact Or.inl ⟨⟨h2, h1⟩, h3⟩
  · exact Or.inr ⟨fun h => h1 ⟨h.2, h.1⟩, h2⟩

/-- a path is blocked iff one of its consecutive triples blocks -/
theorem blocked_iff_exists (E : List (α × α)) (Z : List α) :
    ∀ p, Blocked E Z p ↔ ∃ l a b c r, p = l ++ a :: b :: c :: r ∧ BlocksAt E Z a b c
  | [] => by simp [Blocked]
  | [_] => by
    simp only [Blocked, false_iff]
    rintro ⟨l, a, b, c, r, h, _⟩
    have := congrArg List.length h; simp at this; omega
  | [_, _] => by
    simp only [Blocked, false_iff]
    rintro ⟨l, a, b, c, r, h, _⟩
    have := congrArg List.length h; simp at this; omega
  | a :: b :: c :: rest => by
    simp only [Blocked, blocked_iff_exists E Z (b :: c :: rest)]
    constructor
    · rintro (h | ⟨l, a', b', c', r, h, hb⟩)
      · exact ⟨[], a, b, c, rest, rfl, h⟩
      · exact ⟨a :: l, a', b', c', r, by rw [h]; rfl, hb⟩
    · rintro ⟨l, a', b', c', r, h, hb⟩
      cases l with
      | nil =>
        simp only [List.nil_append, List.cons.injEq] at h
        obtain ⟨rfl, rfl, rfl, rfl⟩ := h
        exact Or.inl hb
      | cons x l =>
        simp only [List.cons_append, List.cons.injEq] at h
        exact Or.inr ⟨l, a', b', c', r, h.2, hb⟩

theorem blocked_reverse {E : List (α × α)} {Z : List α} {p : List α} (h : Blocked E Z p) :
    Blocked E Z p.reverse := by
  obtain ⟨l, a, b, c, r, hp, hb⟩ := (blocked_iff_exists E Z p).mp h
  refine (blocked_iff_exists E Z p.reverse).mpr ⟨r.reverse, c, b, a, l.reverse, ?_, blocksAt_swap hb⟩
  subst hp
  simp

theorem walk_append_edge {E : List (α × α)} {a b c : α} {p : List α} (h : CG.Paths.Walk E a b p)
    (hbc : CG.EL.Rel E b c) : CG.Paths.Walk E a c (p ++ [c]) := by
  induction h with
  | single a => exact .cons hbc (.single c)
  | cons hr _ ih => exact .cons hr (ih hbc)

theorem sym_symm {E : List (α × α)} {a b : α} (h : CG.EL.Rel (sym E) a b) : CG.EL.Rel (sym E) b a := by
  unfold CG.EL.Rel at *
  rcases mem_sym.mp h with h | h
  · exact mem_sym.mpr (Or.inr h)
  · exact mem_sym.mpr (Or.inl h)

theorem walk_reverse {E : List (α × α)} {a b : α} {p : List α} (h : CG.Paths.Walk (sym E) a b p) :
    CG.Paths.Walk (sym E) b a p.reverse := by
  induction h with
  | single a => exact .single a
  | cons hr _ ih =>
    rw [List.reverse_cons]
    exact walk_append_edge ih (sym_symm hr)

theorem nodup_reverse {l : List α} (h : l.Nodup) : l.reverse.Nodup := by
  unfold List.Nodup at *
  rw [List.pairwise_reverse]
  exact h.imp (fun h => Ne.symm h)

/-- d-separation is symmetric in its two end nodes -/
theorem dsep_symm {E : List (α × α)} {x y : α} {Z : List α} (h : DSep E x y Z) : DSep E y x Z := by
  intro p hw hn
  have := h p.reverse (walk_reverse hw) (nodup_reverse hn)
  simpa using blocked_reverse this

theorem walk_head {E : List (α × α)} {a b : α} {p : List α} (h : CG.Paths.Walk E a b p) :
    ∃ q, p = a :: q := by
  cases h with
  | single => exact ⟨[], rfl⟩
  | cons _ _ => exact ⟨_, rfl⟩

/-! ### endpoint rule

`networkx.d_separated` also accepts conditioning sets that contain an end node.  What it computes there
(measured exhaustively, not a textbook notion): an end node that is in `Z` blocks every path that *leaves* it
along an out-edge.  For `x ∉ Z`, `y ∉ Z` this adds nothing (`dsepX_iff_dsep`). -/

def HeadOut (E : List (α × α)) (Z : List α) : List α → Prop
  | a :: b :: _ => a ∈ Z ∧ Rel E a b
  | _ => False

def headOutB (E : List (α × α)) (Z : List α) : List α → Bool
  | a :: b :: _ => decide (a ∈ Z) && decide ((a, b) ∈ E)
  | _ => false

theorem headOutB_iff (E : List (α × α)) (Z : List α) : ∀ p, headOutB E Z p = true ↔ HeadOut E Z p
  | [] => by simp [headOutB, HeadOut]
  | [_] => by simp [headOutB, HeadOut]
  | a :: b :: _ => by simp [headOutB, HeadOut]

def BlockedX (E : List (α × α)) (Z : List α) (p : List α) : Prop :=
  Blocked E Z p ∨ HeadOut E Z p ∨ HeadOut E Z p.reverse

def DSepX (E : List (α × α)) (x y : α) (Z : List α) : Prop :=
  ∀ p, CG.Paths.Walk (sym E) x y p → p.Nodup → BlockedX E Z p

def blockedXB (E : List (α × α)) (Z : List α) (p : List α) : Bool :=
  blockedB E Z p || headOutB E Z p || headOutB E Z p.reverse

theorem blockedXB_iff (E : List (α × α)) (Z : List α) (p : List α) : blockedXB E Z p = true ↔ BlockedX E Z p := by
  unfold blockedXB BlockedX
  simp only [Bool.or_eq_true, blockedB_iff, headOutB_iff, or_assoc]

def dsepXB (E : List (α × α)) (x y : α) (Z : List α) : Bool :=
  (CG.Paths.paths (sym E) y ((verts E x).length + 1) x []).all (blockedXB E Z)

theorem dsepXB_iff (E : List (α × α)) (x y : α) (Z : List α) : dsepXB E x y Z = true ↔ DSepX E x y Z :=
  pathsAll_iff E x y _ _ (blockedXB_iff E Z)

theorem headOut_of_walk {E E' : List (α × α)} {Z : List α} {a b : α} {p : List α}
    (hw : CG.Paths.Walk E' a b p) (h : HeadOut E Z p) : a ∈ Z := by
  cases hw with
  | single => simp [HeadOut] at h
  | cons _ hw' =>
    obtain ⟨q, rfl⟩ := walk_head hw'
    exact h.1

theorem dsepX_iff_dsep {E : List (α × α)} {x y : α} {Z : List α} (hx : x ∉ Z) (hy : y ∉ Z) :
    DSepX E x y Z ↔ DSep E x y Z := by
  constructor
  · intro h p hw hn
    rcases h p hw hn with h' | h' | h'
    · exact h'
    · exact absurd (headOut_of_walk hw h') hx
    · exact absurd (headOut_of_walk (walk_reverse hw) h') hy
  · intro h p hw hn
    exact Or.inl (h p hw hn)

theorem dsepXB_eq_dsepB {E : List (α × α)} {x y : α} {Z : List α} (hx : x ∉ Z) (hy : y ∉ Z) :
    dsepXB E x y Z = dsepB E x y Z := by
  rw [Bool.eq_iff_iff, dsepXB_iff, dsepB_iff]
  exact dsepX_iff_dsep hx hy

/-! ### node sets -/

/-- `networkx.d_separated(G, X, Y, Z)` on sets: every `x ∈ X` from every `y ∈ Y` -/
def dsepSetsB (E : List (α × α)) (X Y Z : List α) : Bool :=
  X.all fun x => Y.all fun y => dsepXB E x y Z

theorem dsepSetsB_iff (E : List (α × α)) (X Y Z : List α) :
    dsepSetsB E X Y Z = true ↔ ∀ x ∈ X, ∀ y ∈ Y, DSepX E x y Z := by
  unfold dsepSetsB
  simp only [List.all_eq_true, dsepXB_iff]

/-! ### separators and minimal separators between two nodes -/

def isSeparatorB (E : List (α × α)) (x y : α) (Z : List α) : Bool := dsepB E x y Z

/-- what `networkx.is_minimal_d_separator(G, x, y, Z)` decides (3.2.1, measured): `Z` avoids both end nodes,
    separates them, and no single element can be removed.  The same predicate validates the answer of
    `minimal_d_separator`. -/
def isMinimalSepB (E : List (α × α)) (x y : α) (Z : List α) : Bool :=
  decide (x ∉ Z) && decide (y ∉ Z) && isSeparatorB E x y Z &&
    Z.all (fun z => !isSeparatorB E x y (Z.filter (fun w => w ≠ z)))

/-! ### acyclicity test and the argument checks of the three public methods -/

def acyclicB (E : List (α × α)) : Bool := E.all (fun e => decide (e.1 ∉ CG.EL.reach E e.2))

theorem acyclicB_iff (E : List (α × α)) : acyclicB E = true ↔ CG.EL.Acyclic (CG.EL.Rel E) := by
  unfold acyclicB CG.EL.Acyclic
  simp only [List.all_eq_true, decide_eq_true_eq]
  constructor
  · intro h n hn
    obtain ⟨b, h1, h2⟩ := hn.split
    exact h (n, b) h1 ((CG.EL.mem_reach_iff E b n).mpr h2)
  · intro h e he hr
    exact h e.1 (CG.EL.TC.of_step_rtc (show CG.EL.Rel E e.1 e.2 from he) ((CG.EL.mem_reach_iff E e.2 e.1).mp hr))

/-- exception classes raised by the modelled functions -/
inductive Err
  | AssertionError | TypeError | NodeDoesNotExistError
  deriving DecidableEq, Repr

def Err.name : Err → String
  | .AssertionError => "AssertionError"
  | .TypeError => "TypeError"
  | .NodeDoesNotExistError => "NodeDoesNotExistError"

/-- `CausalGraph.is_dag()`: every edge directed (`fd`, computed by the caller from the edge types) and no
    directed cycle -/
def isDag (fd : Bool) (E : List (α × α)) : Bool := fd && acyclicB E

/-- `CausalGraph.is_d_separated` after coercion of its arguments to identifier collections -/
def isDSeparated (fd : Bool) (nodes : List α) (E : List (α × α)) (X Y Z : List α) : Except Err Bool :=
  if !isDag fd E then .error .AssertionError
  else if !((X ++ Y ++ Z).all (fun n => decide (n ∈ nodes))) then .error .AssertionError
  else .ok (dsepSetsB E X Y Z)

/-- `CausalGraph.is_minimally_d_separated`: `is_minimal_d_separator(...) and self.is_d_separated(...)` -/
def isMinimallyDSeparated (fd : Bool) (nodes : List α) (E : List (α × α)) (x y : α) (Z : List α) :
    Except Err Bool :=
  if !isDag fd E then .error .AssertionError
  else if !(([x, y] ++ Z).all (fun n => decide (n ∈ nodes))) then .error .AssertionError
  else if isMinimalSepB E x y Z then isDSeparated fd nodes E [x] [y] Z else .ok false

/-- the checks `CausalGraph.get_d_separation_set` makes before it delegates: DAG, both nodes present, and no
    edge stored as `(x, y)` -- the reverse orientation `(y, x)` is NOT looked at -/
def getDSeparationSetPre (fd : Bool) (nodes : List α) (E : List (α × α)) (x y : α) : Except Err Unit :=
  if !isDag fd E then .error .AssertionError
  else if !([x, y].all (fun n => decide (n ∈ nodes))) then .error .AssertionError
  else if (x, y) ∈ E then .error .AssertionError
  else .ok ()

#print axioms dsepB_iff
-- chain a → b → c : a ⟂ c | b, not a ⟂ c | ∅ ; collider a → b ← c : a ⟂ c | ∅, not a ⟂ c | b
#eval (dsepB [(1,2),(2,3)] 1 3 [2], dsepB [(1,2),(2,3)] 1 3 [], dsepB [(1,2),(3,2)] 1 3 [], dsepB [(1,2),(3,2)] 1 3 [2], dsepB [(1,2),(3,2),(2,4)] 1 3 [4])
end CG.DSepDec
