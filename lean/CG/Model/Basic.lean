/-
Core state of the model: a mixed graph as two extensional tree maps.

`nodes : id ↦ NodeRec`, `edges : (stored source, stored destination) ↦ EdgeRec`.
Python's two edge indexes (`_edges_by_source`, `_edges_by_destination`) and the per-node inbound / outbound
lists are *views* of the one edge map here (see `Views.lean`); their agreement with the code is measured through
the read API that uses each of them (`get_edges(destination=…)`, `get_parents`, `get_children`, …).

No Mathlib: this file is linked into the driver.
-/
import Std.Data.ExtTreeMap
import CG.Model.EdgeList
import CG.Model.Name

namespace CG
open Std

inductive EdgeType
  | undirected | directed | bidirected | unknown | unknownDirected | unknownUndirected
  deriving DecidableEq, Repr, Inhabited

def EdgeType.text : EdgeType → String
  | .undirected => "--" | .directed => "->" | .bidirected => "<>"
  | .unknown => "oo" | .unknownDirected => "o>" | .unknownUndirected => "o-"

def EdgeType.all : List EdgeType :=
  [.undirected, .directed, .bidirected, .unknown, .unknownDirected, .unknownUndirected]

def EdgeType.ofText? (s : String) : Option EdgeType := EdgeType.all.find? (fun t => t.text = s)

inductive VType
  | unspecified | continuous | binary | multiclass | ordinal
  deriving DecidableEq, Repr, Inhabited

def VType.text : VType → String
  | .unspecified => "unspecified" | .continuous => "continuous" | .binary => "binary"
  | .multiclass => "multiclass" | .ordinal => "ordinal"

def VType.all : List VType := [.unspecified, .continuous, .binary, .multiclass, .ordinal]
def VType.ofText? (s : String) : Option VType := VType.all.find? (fun t => t.text = s)

/-- the exception classes the code raises (messages are never modelled) -/
inductive Err
  | nodeDuplicated | edgeDuplicated | reverseEdgeExists | cyclicConnection | nodeDoesNotExist
  | edgeDoesNotExist | edgeExists | edgeInvalid | valueError | assertionError | keyError | typeError
  | graphConversion | invalidAdjacency | indexError
  deriving DecidableEq, Repr, Inhabited

def Err.text : Err → String
  | .nodeDuplicated => "NodeDuplicatedError" | .edgeDuplicated => "EdgeDuplicatedError"
  | .reverseEdgeExists => "ReverseEdgeExistsError" | .cyclicConnection => "CyclicConnectionError"
  | .nodeDoesNotExist => "NodeDoesNotExistError" | .edgeDoesNotExist => "EdgeDoesNotExistError"
  | .edgeExists => "EdgeExistsError" | .edgeInvalid => "EdgeInvalidError" | .valueError => "ValueError"
  | .assertionError => "AssertionError" | .keyError => "KeyError" | .typeError => "TypeError"
  | .graphConversion => "GraphConversionError" | .invalidAdjacency => "InvalidAdjacencyMatrixError"
  | .indexError => "IndexError"

inductive GraphClass | plain | ts
  deriving DecidableEq, Repr, Inhabited

/-- metadata: top-level dictionary, keys sorted and unique, values opaque canonical JSON text -/
abbrev Meta := List (String × String)

def tsKeys : List String := ["time_lag", "variable_name"]

/-- a time-series node keeps its lag and variable in its metadata under two reserved keys which the
    constructor always overwrites; the model stores them as fields and strips the keys from the user part -/
def Meta.tsStrip (m : Meta) : Meta := m.filter (fun kv => !(tsKeys.contains kv.1))

structure NodeRec where
  vtype : VType
  md    : Meta
  var   : String := ""     -- time-series class only
  lag   : Int := 0         -- time-series class only
  deriving DecidableEq, Repr, Inhabited

structure EdgeRec where
  ty   : EdgeType
  md   : Meta
  deriving DecidableEq, Repr, Inhabited

abbrev EKey := String × String

/-- lexicographic comparison of (source, destination): `sorted(sources)` then `sorted(destinations)` -/
def ekCmp : EKey → EKey → Ordering := @compare _ lexOrd

section
attribute [local instance] lexOrd
instance : TransCmp ekCmp := inferInstanceAs (TransCmp (compare : EKey → EKey → Ordering))
instance : LawfulEqCmp ekCmp := inferInstanceAs (LawfulEqCmp (compare : EKey → EKey → Ordering))
end

theorem ekCmp_eq_iff (a b : EKey) : ekCmp a b = .eq ↔ a = b := LawfulEqCmp.compare_eq_iff_eq

abbrev NMap := ExtTreeMap String NodeRec
abbrev EMap := ExtTreeMap EKey EdgeRec ekCmp

structure Graph where
  cls   : GraphClass
  nodes : NMap
  edges : EMap
  gmeta : Meta

def Graph.empty (c : GraphClass) (gm : Meta := []) : Graph := { cls := c, nodes := ∅, edges := ∅, gmeta := gm }

def Graph.hasNode (g : Graph) (n : String) : Bool := g.nodes.contains n
def Graph.hasEdge (g : Graph) (s d : String) : Bool := g.edges.contains (s, d)

/-- sorted list of (key, record) -/
def Graph.edgeList (g : Graph) : List (EKey × EdgeRec) := g.edges.toList
def Graph.nodeList (g : Graph) : List (String × NodeRec) := g.nodes.toList
def Graph.nodeNames (g : Graph) : List String := g.nodes.keys

/-- the directed-edge relation as an edge list (sorted by key) -/
def Graph.dirEdges (g : Graph) : List (String × String) :=
  (g.edgeList.filter (fun kv => kv.2.ty = .directed)).map (·.1)

/-- all stored pairs, any type -/
def Graph.allPairs (g : Graph) : List (String × String) := g.edgeList.map (·.1)

def Graph.lagOf (g : Graph) (n : String) : Int := (g.nodes[n]?.map (·.lag)).getD 0

/-- "node `n` lies on a directed cycle": `n` has a successor that reaches `n` (definitional model of
    `_assert_node_does_not_depend_on_itself`; the code's own worklist is mirrored and proved equivalent to the
    same transitive-closure statement in `CG.Acyc` / `CG.C02`). -/
def selfDepR (E : List (String × String)) (n : String) : Bool :=
  (EL.succs E n).any (fun m => decide (n ∈ EL.reach E m))

end CG
