/-
Equality: `Node.__eq__`, `TimeSeriesNode.__eq__`, `Edge.__eq__`, `CausalGraph.__eq__` / `__ne__`, transcribed
branch for branch (`cai_causal_graph/graph_components.py`, `cai_causal_graph/causal_graph.py`).

* The comparison methods take node / edge *objects*; the values they read are collected in `NodeV` / `EdgeV`
  (an edge object holds references to the two node objects of its graph, so `EdgeV` carries the two `NodeV`s).
* The list of direction-agnostic edge types is written here as a literal; `CG.C07.dontCare_eq` pins it to the table
  regenerated from the source on every run (`CG.Generated.dontCareDirection`, `harness/srcgen/c07_dontcare.py`). The
  model does not import the generated module: a table that cannot be regenerated then breaks that obligation, not the
  driver every check runs.
* `graphEq deep g h` is the METHOD call `g.__eq__(h, deep)`.  Its class test is `isinstance(other, self.__class__)`,
  so a plain graph accepts a time-series graph as `other` (and then compares it with `Node.__eq__`), while the
  time-series graph refuses the plain one.  The OPERATORS `==` / `!=` (`graphEqOp`, `graphNe`) additionally go
  through Python's rule that the reflected method of the right operand runs first when its class is a proper
  subclass of the left operand's class; `__eq__` never returns `NotImplemented`, so that first answer is final.
* `other.get_edge(s, d)` raises `EdgeDoesNotExistError`; the code catches it (and `KeyError`) and looks up
  `(d, s)`, which can raise again: hence `Except Err Bool`.  (`CG.C07.graphEq_total`: it never does.)

No Mathlib: this file is linked into the driver.
-/
import CG.Model.Views

namespace CG
open Std

/-! ### the direction-agnostic list (generated) -/

/-- `dont_care_direction` of `Edge.__eq__` -/
def dontCare : List EdgeType := [.undirected, .bidirected, .unknown]

/-! ### canonical JSON text of a string / an integer (only needed to compare a plain node's metadata with the
    reserved keys of a time-series node; `harness.impl.cj` = `json.dumps(…, ensure_ascii=False)`) -/

namespace EqModel

def hexDigitLower (n : Nat) : Char := if n < 10 then Char.ofNat (48 + n) else Char.ofNat (87 + n)

def hex4 (n : Nat) : String :=
  String.ofList [hexDigitLower (n / 4096 % 16), hexDigitLower (n / 256 % 16), hexDigitLower (n / 16 % 16), hexDigitLower (n % 16)]

def jsonEscChar (c : Char) : String :=
  if c = '"' then "\\\"" else if c = '\\' then "\\\\" else if c = '\n' then "\\n" else if c = '\r' then "\\r"
  else if c = '\t' then "\\t" else if c.toNat = 8 then "\\b" else if c.toNat = 12 then "\\f"
  else if c.toNat < 32 then "\\u" ++ hex4 c.toNat else String.singleton c

def jsonStr (s : String) : String := "\"" ++ String.join (s.toList.map jsonEscChar) ++ "\""

end EqModel

/-! ### node and edge values as the comparison methods see them -/

/-- a node object: its class (`Node` / `TimeSeriesNode`), identifier, record -/
structure NodeV where
  cls : GraphClass
  id  : String
  r   : NodeRec
  deriving Repr, Inhabited

/-- an edge object: the two node objects it references, its type and metadata -/
structure EdgeV where
  src : NodeV
  dst : NodeV
  ty  : EdgeType
  md  : Meta
  deriving Repr, Inhabited

/-- a plain node's metadata dictionary `m` against a time-series node's dictionary (`t.md` plus the two reserved
    keys): equal dictionaries = same non-reserved part and the two reserved entries present with equal values -/
def plainVsTsMeta (m : Meta) (t : NodeRec) : Bool :=
  m.tsStrip == t.md && m.lookup "time_lag" == some (toString t.lag) && m.lookup "variable_name" == some (EqModel.jsonStr t.var)

/-- `self.meta == other.meta` (dictionary equality) in the model's representation: the metadata of a time-series
    node is the triple (user part, variable, lag) -/
def nodeMetaEq (a b : NodeV) : Bool :=
  match a.cls, b.cls with
  | .plain, .plain => a.r.md == b.r.md
  | .ts, .ts => a.r.md == b.r.md && a.r.var == b.r.var && a.r.lag == b.r.lag
  | .plain, .ts => plainVsTsMeta a.r.md b.r
  | .ts, .plain => plainVsTsMeta b.r.md a.r

/-- `Node.__eq__(self, other, deep)`; `isinstance(other, Node)` holds for both node classes -/
def nodeEqBase (deep : Bool) (a b : NodeV) : Bool :=
  if deep then a.id == b.id && a.r.vtype == b.r.vtype && nodeMetaEq a b
  else a.id == b.id

/-- `self.__eq__(other, deep)` dispatched on the class of `self`: `Node.__eq__` or `TimeSeriesNode.__eq__`
    (`isinstance(other, TimeSeriesNode)`, then `super().__eq__`, then variable name and lag) -/
def nodeEq (deep : Bool) (a b : NodeV) : Bool :=
  match a.cls with
  | .plain => nodeEqBase deep a b
  | .ts =>
    match b.cls with
    | .plain => false
    | .ts =>
      if !nodeEqBase deep a b then false
      else a.r.var == b.r.var && a.r.lag == b.r.lag

/-- `Node.__ne__` : `not (self == other)`; the operator `==` between a `Node` and a `TimeSeriesNode` runs the
    subclass's method first, whichever side it is on -/
def nodeEqOp (a b : NodeV) : Bool :=
  match a.cls, b.cls with
  | .plain, .ts => nodeEq false b a
  | _, _ => nodeEq false a b

def nodeNe (a b : NodeV) : Bool := !nodeEqOp a b

def EdgeV.pair (e : EdgeV) : String × String := (e.src.id, e.dst.id)

/-- the node part of the deep branch of `Edge.__eq__` -/
def edgeDeepNodesOk (a b : EdgeV) : Bool :=
  let srcNe := !nodeEq true a.src b.src      -- are_sources_not_equal
  let dstNe := !nodeEq true a.dst b.dst      -- are_destinations_not_equal
  if dontCare.contains a.ty && a.ty == b.ty then
    -- allow source and destination to be flipped between each edge
    if srcNe && !nodeEq true a.src b.dst then false
    else if dstNe && !nodeEq true a.dst b.src then false
    else true
  else if srcNe || dstNe then false      -- source and destination must be the same between each edge
  else true

/-- the whole `if deep:` block: `false` = it executed `return False` -/
def edgeDeepPart (a b : EdgeV) : Bool :=
  if !edgeDeepNodesOk a b then false
  else if a.md != b.md then false          -- check that the metadata is the same
  else true

/-- the tail of `Edge.__eq__`: pairs equal → types equal; pairs reversed → direction-agnostic type and equal -/
def edgePairPart (a b : EdgeV) : Bool :=
  if a.pair == b.pair then a.ty == b.ty
  else if a.pair == (b.pair.2, b.pair.1) then dontCare.contains a.ty && a.ty == b.ty
  else false

/-- `Edge.__eq__(self, other, deep)`; `isinstance(other, Edge)` holds -/
def edgeEq (deep : Bool) (a b : EdgeV) : Bool :=
  if deep && !edgeDeepPart a b then false else edgePairPart a b

/-- `Edge.__ne__` -/
def edgeNe (a b : EdgeV) : Bool := !edgeEq false a b

/-! ### graph comparison -/

/-- `frozenset(p) == frozenset(q)` for two pairs -/
def upEq (p q : String × String) : Bool := (p.1 == q.1 && p.2 == q.2) || (p.1 == q.2 && p.2 == q.1)

def subsetBy {α : Type} (eq : α → α → Bool) (xs ys : List α) : Bool := xs.all fun x => ys.any (eq x)

/-- equality of the two Python sets built from the lists -/
def setEqBy {α : Type} (eq : α → α → Bool) (xs ys : List α) : Bool := subsetBy eq xs ys && subsetBy eq ys xs

/-- the node object `n` of graph `g` (total: an edge endpoint is a node of the graph, `WF.ends`) -/
def nodeVOf (g : Graph) (n : String) : NodeV := ⟨g.cls, n, (g.nodes[n]?).getD default⟩

def edgeV (g : Graph) (kv : EKey × EdgeRec) : EdgeV := ⟨nodeVOf g kv.1.1, nodeVOf g kv.1.2, kv.2.ty, kv.2.md⟩

/-- `g.nodes` / `g.edges` as objects, in the order the code iterates -/
def nodeVs (g : Graph) : List NodeV := (getNodes g).map fun kv => ⟨g.cls, kv.1, kv.2⟩
def edgeVs (g : Graph) : List EdgeV := (getEdges g none none none).map (edgeV g)

/-- `g.get_node(id)` : `KeyError` for a missing identifier -/
def getNodeV (g : Graph) (n : String) : Except Err NodeV :=
  match g.nodes[n]? with
  | some r => .ok ⟨g.cls, n, r⟩
  | none => .error .keyError

/-- `g.get_edge(s, d)` as an object -/
def getEdgeV (g : Graph) (s d : String) : Except Err EdgeV :=
  match getEdge g s d none with
  | .ok r => .ok (edgeV g ((s, d), r))
  | .error e => .error e

/-- `for node in self.nodes: if not node.__eq__(other.get_node(node.identifier), deep): return False` -/
def nodesLoop (deep : Bool) (lookup : String → Except Err NodeV) : List NodeV → Except Err Bool
  | [] => .ok true
  | a :: rest =>
    match lookup a.id with
    | .error e => .error e
    | .ok b => if nodeEq deep a b then nodesLoop deep lookup rest else .ok false

/-- `try: o = other.get_edge(s, d) except <caught>: o = other.get_edge(d, s)` -/
def otherEdge (lookup : String → String → Except Err EdgeV) (caught : Err → Bool) (a : EdgeV) : Except Err EdgeV :=
  match lookup a.src.id a.dst.id with
  | .ok b => .ok b
  | .error e => if caught e then lookup a.dst.id a.src.id else .error e

/-- `for edge in self.edges: o = <otherEdge>; if not edge.__eq__(o, deep): return False` -/
def edgesLoop (deep : Bool) (lookup : String → String → Except Err EdgeV) (caught : Err → Bool) :
    List EdgeV → Except Err Bool
  | [] => .ok true
  | a :: rest =>
    match otherEdge lookup caught a with
    | .error e => .error e
    | .ok b => if edgeEq deep a b then edgesLoop deep lookup caught rest else .ok false

/-- `isinstance(other, self.__class__)` -/
def isInstanceOfClassOf (g h : Graph) : Bool :=
  match g.cls, h.cls with
  | .ts, .plain => false
  | _, _ => true

/-- `except (KeyError, CausalGraphErrors.EdgeDoesNotExistError)` -/
def graphCaught (e : Err) : Bool := e == .keyError || e == .edgeDoesNotExist

/-- `CausalGraph.__eq__(self = g, other = h, deep)` -/
def graphEq (deep : Bool) (g h : Graph) : Except Err Bool :=
  if !isInstanceOfClassOf g h then .ok false
  -- Check that the number of nodes and edges agrees
  else if (getNodes g).length != (getNodes h).length
      || (getEdges g none none none).length != (getEdges h none none none).length then .ok false
  -- Check that the set of node names matches
  else if !setEqBy (· == ·) (getNodeNames g) (getNodeNames h) then .ok false
  -- Check that the set of edges matches (sets of frozensets of the stored pairs)
  else if !setEqBy upEq (getEdgePairs g) (getEdgePairs h) then .ok false
  else
    match nodesLoop deep (getNodeV h) (nodeVs g) with
    | .error e => .error e
    | .ok false => .ok false
    | .ok true => edgesLoop deep (getEdgeV h) graphCaught (edgeVs g)

/-- the operator `g == h` -/
def graphEqOp (g h : Graph) : Except Err Bool :=
  match g.cls, h.cls with
  | .plain, .ts => graphEq false h g     -- reflected method of the subclass instance first; its answer is final
  | _, _ => graphEq false g h

/-- `CausalGraph.__ne__(self = g, other = h)` : `not (self == other)` -/
def graphNe (g h : Graph) : Except Err Bool :=
  match graphEqOp g h with
  | .ok b => .ok (!b)
  | .error e => .error e

/-- the operator `g != h` (same reflected-first rule) -/
def graphNeOp (g h : Graph) : Except Err Bool :=
  match g.cls, h.cls with
  | .plain, .ts => graphNe h g
  | _, _ => graphNe g h

end CG
