/-
The memoised answers of `CausalGraph` / `TimeSeriesCausalGraph` and the decorator that clears them.

Python (cai_causal_graph/causal_graph.py, time_series_causal_graph.py):

  * eight memoised attributes: `_is_dag`, `_networkx`, `_adjacency`, `_is_fully_directed_cached`,
    `_is_fully_undirected_cached` (both classes) and `_variables`, `_is_minimal_graph`, `_is_stationary_graph`
    (time-series class).  A reader fills its attribute when it is `None`; a reader that RAISES fills nothing
    (but the readers it consulted on the way have filled theirs).
  * `reset_cached_attributes_decorator`:  `r = func(self, …); self._reset_cached_attributes(); return r`
    -- all eight are set to `None` after the wrapped call RETURNS; nothing is reset when it raises.
  * public mutators are wrapped; they call each other through the wrapper (`add_edge` → `add_node`,
    `_set_edge`'s cycle rollback → `delete_edge`, `delete_node` → `delete_edge`, `change_edge_type` /
    `replace_edge` / `replace_node` → `add_edge` / `delete_edge` / `add_node` / `delete_node`, the except-blocks
    → `delete_node` / `add_edge`), so a call that finally raises may already have been followed by resets.

Model.  `Caches` holds, per attribute, the VALUE the reader would compute (the networkx graph and the numpy matrix
as the model's own canonical values).  `CGraph` = graph + caches.  A mutator call is turned into its *script*: the
sequence of events `write g` (a direct write to an index; `g` = the graph after it) and `ret` (a decorated call
returns normally, i.e. the wrapper runs `_reset_cached_attributes()`), plus the exception that leaves the outermost
call, if any.  The script functions below mirror `OpsImpl.lean` line by line, with the wrapper `wrap` exactly where
the source has the decorator (the generated table `CG/Generated/CacheTable.lean` pins which methods have it);
`interp` replays a script on a `CGraph`: a write changes the graph and leaves the caches alone, a `ret` clears the
caches.  No mutator runs a memoising reader (obligation (c) of `CG.C04` over the generated call table), so there is
no `fill` event inside a script.

Granularity: one `write` per mutation of the model state (`Basic.lean`: one node map, one edge map).  The several
Python index writes of one such mutation (`_edges_by_source`, `_edges_by_destination`, the per-node lists, the
lag / variable indexes) happen back to back with no call in between; the time-series class's separate index update
in `add_node` / `delete_node` is a `write` of its own (it leaves the model graph unchanged).
The aliases `remove_edge`, `remove_edge_by_pair`, `remove_node`, `add_edge_by_pair`, and the time-series
`delete_edge` only delegate to a wrapped method: `wrap (wrap f)`, one more trailing `ret`, no write of their own;
they are run as the method they delegate to.

No Mathlib: this file is linked into the driver.
-/
import CG.Model.Step
import CG.Model.Views

namespace CG.Cache
open CG Std

/-! ### cached values -/

/-- canonical value of `to_networkx()`: `DiGraph` or `Graph`, the node list, the stored (source, destination) pairs -/
structure NxVal where
  directed : Bool
  nodes : List String
  edges : List (String × String)
  deriving DecidableEq, Repr

/-- adjacency matrix, rows and columns in `get_node_names()` order -/
abbrev Matrix := List (List Nat)

structure Caches where
  isDag : Option Bool := none                -- _is_dag
  networkx : Option NxVal := none            -- _networkx
  adjacency : Option Matrix := none          -- _adjacency
  fullyDirected : Option Bool := none        -- _is_fully_directed_cached
  fullyUndirected : Option Bool := none      -- _is_fully_undirected_cached
  variables : Option (List String) := none   -- _variables            (time-series class)
  isMinimal : Option Bool := none            -- _is_minimal_graph     (time-series class)
  isStationary : Option Bool := none         -- _is_stationary_graph  (time-series class)
  deriving DecidableEq, Repr

/-- `_reset_cached_attributes()` (the time-series override clears its three and calls `super()`) -/
def Caches.empty : Caches := {}

/-- a graph together with its memoised answers (`Graph × Caches`) -/
structure CGraph where
  g : Graph
  k : Caches := {}

/-- a freshly constructed, never queried object with the given content -/
def fresh (g : Graph) : CGraph := { g := g }

/-! ### what each reader computes when its cache is empty -/

def okTy (r : EdgeRec) : Bool := r.ty = .directed || r.ty = .undirected

def mkNx (g : Graph) (directed : Bool) : NxVal := { directed := directed, nodes := g.nodes.keys, edges := g.allPairs }

/-- `to_networkx()` -/
def computeNx (g : Graph) : Except Err NxVal :=
  if !isFullyDirected g && !isFullyUndirected g then .error .graphConversion else .ok (mkNx g (isFullyDirected g))

/-- `networkx.is_directed_acyclic_graph` on the canonical value -/
def nxIsDag (v : NxVal) : Bool := v.directed && v.nodes.all (fun n => !selfDepR v.edges n)

def adjEntry (g : Graph) (a b : String) : Nat :=
  match g.edges[(a, b)]? with
  | some _ => 1
  | none =>
    match g.edges[(b, a)]? with
    | some r => if r.ty = .undirected then 1 else 0
    | none => 0

/-- `adjacency_matrix`: `TypeError` as soon as an edge is neither directed nor undirected -/
def computeAdj (g : Graph) : Except Err Matrix :=
  if g.edgeList.all (fun kv => okTy kv.2) then
    .ok (g.nodes.keys.map fun a => g.nodes.keys.map fun b => adjEntry g a b)
  else .error .typeError

/-- the time-series computations behind `is_minimal_graph()` / `is_stationary_graph()`, taken as parameters (the
    time-series model lives elsewhere; nothing here depends on what they compute) -/
structure TsFuns where
  /-- `get_minimal_graph()` raises on this graph (inside its edge loop, before it reads `self.variables`) -/
  minimalErr : Graph → Option Err
  /-- `self == self.get_minimal_graph()` -/
  isMinimal : Graph → Bool
  /-- the rest of `is_stationary_graph()` once `get_minimal_graph()` has returned: the window (`IndexError` on an
      empty graph), `extend_graph`, the comparison -/
  stationary : Graph → Except Err Bool

/-! ### the eight memoising readers -/

def fullyDirectedR (c : CGraph) : Bool × CGraph :=
  match c.k.fullyDirected with
  | some v => (v, c)
  | none => let v := isFullyDirected c.g; (v, { c with k := { c.k with fullyDirected := some v } })

def fullyUndirectedR (c : CGraph) : Bool × CGraph :=
  match c.k.fullyUndirected with
  | some v => (v, c)
  | none => let v := isFullyUndirected c.g; (v, { c with k := { c.k with fullyUndirected := some v } })

/-- `to_networkx()`: cache hit, else both edge-kind tests (memoised themselves), `GraphConversionError` without
    filling, else build and fill.  The graph class is chosen from the (possibly cached) test results. -/
def toNetworkxR (c : CGraph) : Except Err NxVal × CGraph :=
  match c.k.networkx with
  | some v => (.ok v, c)
  | none =>
    let (fd, c1) := fullyDirectedR c
    let (fu, c2) := fullyUndirectedR c1
    if !fd && !fu then (.error .graphConversion, c2)
    else
      let v := mkNx c2.g fd
      (.ok v, { c2 with k := { c2.k with networkx := some v } })

/-- `is_dag()`: `networkx.is_directed_acyclic_graph(self.to_networkx()) if self._is_fully_directed() else False` -/
def isDagR (c : CGraph) : Except Err Bool × CGraph :=
  match c.k.isDag with
  | some v => (.ok v, c)
  | none =>
    let (fd, c1) := fullyDirectedR c
    if fd then
      match toNetworkxR c1 with
      | (.ok nx, c2) => let v := nxIsDag nx; (.ok v, { c2 with k := { c2.k with isDag := some v } })
      | (.error e, c2) => (.error e, c2)
    else (.ok false, { c1 with k := { c1.k with isDag := some false } })

def adjacencyR (c : CGraph) : Except Err Matrix × CGraph :=
  match c.k.adjacency with
  | some v => (.ok v, c)
  | none =>
    match computeAdj c.g with
    | .ok v => (.ok v, { c with k := { c.k with adjacency := some v } })
    | .error e => (.error e, c)

def variablesR (c : CGraph) : List String × CGraph :=
  match c.k.variables with
  | some v => (v, c)
  | none => let v := variables c.g; (v, { c with k := { c.k with variables := some v } })

/-- `is_minimal_graph()`: `self == self.get_minimal_graph()`; `get_minimal_graph` reads `self.variables` after
    its edge loop -/
def isMinimalR (F : TsFuns) (c : CGraph) : Except Err Bool × CGraph :=
  match c.k.isMinimal with
  | some v => (.ok v, c)
  | none =>
    match F.minimalErr c.g with
    | some e => (.error e, c)
    | none =>
      let (_, c1) := variablesR c
      let v := F.isMinimal c1.g
      (.ok v, { c1 with k := { c1.k with isMinimal := some v } })

/-- `is_stationary_graph()`: `is_dag()` is consulted BEFORE the cache (a non-DAG answers `False` without touching
    `_is_stationary_graph`) -/
def isStationaryR (F : TsFuns) (c : CGraph) : Except Err Bool × CGraph :=
  match isDagR c with
  | (.error e, c1) => (.error e, c1)
  | (.ok false, c1) => (.ok false, c1)
  | (.ok true, c1) =>
    match c1.k.isStationary with
    | some v => (.ok v, c1)
    | none =>
      match F.minimalErr c1.g with
      | some e => (.error e, c1)
      | none =>
        let (_, c2) := variablesR c1
        match F.stationary c2.g with
        | .error e => (.error e, c2)
        | .ok v => (.ok v, { c2 with k := { c2.k with isStationary := some v } })

/-! ### derived readers (what they hand to networkx / numpy, and which caches they touch) -/

inductive Reader
  | isDag | toNetworkx | adjacency | fullyDirected | fullyUndirected | variables | isMinimal | isStationary
  | toNumpy          -- to_numpy(): TypeError scan, then adjacency_matrix and get_node_names()
  | identifier       -- identifier: is_dag(), then topological_sort(to_networkx()) or the sorted names
  | topoOrder        -- get_topological_order(): assert is_dag(); topological sort of to_networkx()
  | gml              -- to_gml_string(): the edge-kind tests, then generate_gml(to_networkx())
  | adjMatrices      -- adjacency_matrices (time-series): get_minimal_graph() (reads self.variables)
  | maxLags          -- max_forward_lag / max_backward_lag (time-series): nothing memoised
  deriving DecidableEq, Repr

def Reader.cached : List Reader :=
  [.isDag, .toNetworkx, .adjacency, .fullyDirected, .fullyUndirected, .variables, .isMinimal, .isStationary]

inductive Ans
  | bool (v : Except Err Bool)
  | nx (v : Except Err NxVal)          -- for identifier / topoOrder / gml: the value networkx is run on
  | mat (v : Except Err Matrix)
  | names (v : List String)
  | numpy (v : Except Err (Matrix × List String))
  | eff (e : Option Err)               -- value not modelled: only whether the modelled part raised
  | lags (f b : Option Int)

def toNumpyR (c : CGraph) : Ans × CGraph :=
  if c.g.edgeList.all (fun kv => okTy kv.2) then
    match adjacencyR c with
    | (.ok m, c1) => (.numpy (.ok (m, c1.g.nodes.keys)), c1)
    | (.error e, c1) => (.numpy (.error e), c1)
  else (.numpy (.error .typeError), c)

def identifierR (c : CGraph) : Ans × CGraph :=
  match isDagR c with
  | (.error e, c1) => (.nx (.error e), c1)
  | (.ok true, c1) => let (r, c2) := toNetworkxR c1; (.nx r, c2)
  | (.ok false, c1) => (.names c1.g.nodes.keys, c1)

def topoOrderR (c : CGraph) : Ans × CGraph :=
  match isDagR c with
  | (.error e, c1) => (.nx (.error e), c1)
  | (.ok true, c1) => let (r, c2) := toNetworkxR c1; (.nx r, c2)
  | (.ok false, c1) => (.nx (.error .assertionError), c1)

/-- `_is_directed_and_or_undirected_error_message(False)`: `not fd and not fu` short-circuits; the message is
    non-empty when an edge of one of the four other types exists -/
def gmlR (c : CGraph) : Ans × CGraph :=
  let (fd, c1) := fullyDirectedR c
  if fd then let (r, c2) := toNetworkxR c1; (.nx r, c2)
  else
    let (fu, c2) := fullyUndirectedR c1
    if !fu && c2.g.edgeList.any (fun kv => !okTy kv.2) then (.nx (.error .graphConversion), c2)
    else let (r, c3) := toNetworkxR c2; (.nx r, c3)

def adjMatricesR (F : TsFuns) (c : CGraph) : Ans × CGraph :=
  match F.minimalErr c.g with
  | some e => (.eff (some e), c)
  | none => let (_, c1) := variablesR c; (.eff none, c1)

def readR (F : TsFuns) : Reader → CGraph → Ans × CGraph
  | .isDag, c => let (r, c') := isDagR c; (.bool r, c')
  | .toNetworkx, c => let (r, c') := toNetworkxR c; (.nx r, c')
  | .adjacency, c => let (r, c') := adjacencyR c; (.mat r, c')
  | .fullyDirected, c => let (r, c') := fullyDirectedR c; (.bool (.ok r), c')
  | .fullyUndirected, c => let (r, c') := fullyUndirectedR c; (.bool (.ok r), c')
  | .variables, c => let (r, c') := variablesR c; (.names r, c')
  | .isMinimal, c => let (r, c') := isMinimalR F c; (.bool r, c')
  | .isStationary, c => let (r, c') := isStationaryR F c; (.bool r, c')
  | .toNumpy, c => toNumpyR c
  | .identifier, c => identifierR c
  | .topoOrder, c => topoOrderR c
  | .gml, c => gmlR c
  | .adjMatrices, c => adjMatricesR F c
  | .maxLags, c => (.lags (maxForwardLag c.g) (maxBackwardLag c.g), c)

/-! ### scripts: what a mutator call does to the indexes and when the wrapper resets -/

inductive Ev
  | write (g : Graph)     -- a direct write to an index; `g` is the graph after it
  | ret                   -- a decorated call returns normally: `_reset_cached_attributes()` runs

/-- the events of a call in progress, MOST RECENT FIRST -/
abbrev Tr := List Ev

/-- the graph as the running call sees it: the last write, or the graph the call started from -/
def cur (g0 : Graph) : Tr → Graph
  | [] => g0
  | .write g :: _ => g
  | .ret :: es => cur g0 es

/-- events so far and the exception on its way out, if any -/
abbrev Res := Tr × Option Err

/-- `reset_cached_attributes_decorator`: `r = func(…); self._reset_cached_attributes(); return r` -/
def wrap (body : Tr → Res) (t : Tr) : Res :=
  match body t with
  | (t', none) => (.ret :: t', none)
  | (t', some e) => (t', some e)         -- the exception propagates past the reset

/-- a method body that checks first and then performs its one write (`f` is its reference operation) -/
def direct (t : Tr) : Except Err Graph → Res
  | .ok g' => (.write g' :: t, none)
  | .error e => (t, some e)

section
variable (g0 : Graph)

/-- `add_node` of the graph's class around the insertion `f`.  plain: check, insert.  time-series: build the node,
    `super().add_node(…)` (decorated), `_add_node_to_cache(node)` (the lag / variable indexes) -/
def addNodeWith (f : Graph → Except Err Graph) (t : Tr) : Res :=
  match (cur g0 t).cls with
  | .plain => wrap (fun t => direct t (f (cur g0 t))) t
  | .ts => wrap (fun t =>
      match wrap (fun t => direct t (f (cur g0 t))) t with
      | (t', none) => (.write (cur g0 t') :: t', none)
      | (t', some e) => (t', some e)) t

/-- `delete_edge` (also `remove_edge`, `remove_edge_by_pair`) -/
def deleteEdgeT (s d : String) (ty? : Option EdgeType) : Tr → Res :=
  wrap (fun t => direct t (deleteEdge (cur g0 t) s d ty?))

/-- the cascade of `delete_node`: `self.delete_edge(*pair)` for every incident edge.  These nested calls cannot
    raise (both endpoints of a stored edge are nodes: the same abstraction as `Graph.delNodeRaw`) -/
def cascadeT : List EKey → Tr → Tr
  | [], t => t
  | k :: ks, t => cascadeT ks (.ret :: .write ((cur g0 t).delEdgeRaw k.1 k.2) :: t)

/-- base-class `delete_node` after `get_node` succeeded: cascade, then pop the node -/
def deleteNodeBody (n : String) (t : Tr) : Tr :=
  let t1 := cascadeT g0 ((cur g0 t).incident n) t
  .write { cur g0 t1 with nodes := (cur g0 t1).nodes.erase n } :: t1

def deleteNodeBaseT (n : String) : Tr → Res :=
  wrap (fun t => if !(cur g0 t).hasNode n then (t, some .keyError) else (deleteNodeBody g0 n t, none))

/-- `delete_node` / `remove_node` of the graph's class.  time-series: `get_node` (KeyError),
    `_remove_node_from_cache(node)` (index write), `super().delete_node(identifier)` (decorated) -/
def deleteNodeT (n : String) (t : Tr) : Res :=
  match (cur g0 t).cls with
  | .plain => deleteNodeBaseT g0 n t
  | .ts => wrap (fun t =>
      if !(cur g0 t).hasNode n then (t, some .keyError)
      else deleteNodeBaseT g0 n (.write (cur g0 t) :: t)) t

/-- a nested `self.delete_node(x)` for an `x` just read from (or just added to) the node index: the lookup
    succeeds and every wrapper on the way returns normally (cf. `deleteNodeT_of_hasNode`) -/
def deleteNodeNestedT (n : String) (t : Tr) : Tr :=
  match (cur g0 t).cls with
  | .plain => .ret :: deleteNodeBody g0 n t
  | .ts => .ret :: .ret :: deleteNodeBody g0 n (.write (cur g0 t) :: t)

def delNodesT : List String → Tr → Tr
  | [], t => t
  | n :: ns, t => delNodesT ns (deleteNodeNestedT g0 n t)

/-- the except-block of `add_edge`: `delete_node` every node that was not there when the call started -/
def dropNewT (before : List String) (t : Tr) : Tr :=
  delNodesT g0 ((cur g0 t).nodes.keys.filter (fun n => !before.contains n)) t

/-- `_prepare_nodes`: implicit creation of a missing endpoint through the decorated `add_node` -/
def ensureNodeT (e : Endpoint) (t : Tr) : Res :=
  if (cur g0 t).hasNode e.id then (t, none) else
  match e.obj with
  | none => addNodeWith g0 (fun g => addNode g e.id .unspecified []) t
  | some (vt, m) => addNodeWith g0 (fun g => addNodeObj g e.id vt m) t

/-- `_set_edge` (not decorated): two checks, the insertion, the cycle check with rollback through the decorated
    `delete_edge` -/
def setEdgeT (s d : String) (r : EdgeRec) (validate : Bool) (t : Tr) : Res :=
  if (cur g0 t).hasEdge d s then (t, some .reverseEdgeExists) else
  if (cur g0 t).hasEdge s d then (t, some .edgeDuplicated) else
  let t' : Tr := .write ((cur g0 t).insEdge s d r) :: t
  if validate && selfDepR (cur g0 t').dirEdges d then
    match deleteEdgeT g0 s d none t' with
    | (t'', none) => (t'', some .cyclicConnection)
    | (t'', some e) => (t'', some e)
  else (t', none)

def addEdgeBodyT (s d : Endpoint) (ty : EdgeType) (m : Meta) (validate : Bool) (t : Tr) : Res :=
  let g := cur g0 t
  let before := g.nodes.keys
  if s.id = d.id then (t, some .cyclicConnection) else
  match ensureNodeT g0 s t with
  | (t1, some e) => (dropNewT g0 before t1, some e)
  | (t1, none) =>
    match ensureNodeT g0 d t1 with
    | (t2, some e) => (dropNewT g0 before t2, some e)
    | (t2, none) =>
      if g.hasEdge s.id d.id then (dropNewT g0 before t2, some .edgeDuplicated) else
      match orient (cur g0 t2) s.id d.id ty with
      | .error e => (dropNewT g0 before t2, some e)
      | .ok (s', d') =>
        match setEdgeT g0 s' d' { ty := ty, md := m } validate t2 with
        | (t3, none) => (t3, none)
        | (t3, some e) => (dropNewT g0 before t3, some e)

/-- `add_edge` (also `add_edge_by_pair`) -/
def addEdgeT (s d : Endpoint) (ty : EdgeType) (m : Meta) (validate : Bool) : Tr → Res :=
  wrap (addEdgeBodyT g0 s d ty m validate)

def addEdgeST (s d : String) (ty : EdgeType) (m : Meta) (validate : Bool) : Tr → Res :=
  addEdgeT g0 { id := s } { id := d } ty m validate

/-- `change_edge_type`: `remove_edge`, `add_edge`, on failure `add_edge(old, validate=False)` and re-raise -/
def changeEdgeTypeT (s d : String) (nt : EdgeType) : Tr → Res :=
  wrap (fun t =>
    match (cur g0 t).edges[(s, d)]? with
    | none => (t, some .edgeDoesNotExist)
    | some r =>
      if r.ty = nt then (t, none) else
      match deleteEdgeT g0 s d (some r.ty) t with
      | (t1, some e) => (t1, some e)
      | (t1, none) =>
        match addEdgeST g0 s d nt r.md true t1 with
        | (t2, none) => (t2, none)
        | (t2, some e) =>
          match addEdgeST g0 s d r.ty r.md false t2 with
          | (t3, none) => (t3, some e)
          | (t3, some e') => (t3, some e'))

def replaceEdgeT (s d ns nd : String) (ty? : Option EdgeType) (m? : Option Meta) : Tr → Res :=
  wrap (fun t =>
    match (cur g0 t).edges[(s, d)]? with
    | none => (t, some .edgeDoesNotExist)
    | some r =>
      if (cur g0 t).hasEdge ns nd then (t, some .edgeExists) else
      match deleteEdgeT g0 s d none t with
      | (t1, some e) => (t1, some e)
      | (t1, none) =>
        match addEdgeST g0 ns nd (ty?.getD r.ty) (m?.getD r.md) true t1 with
        | (t2, none) => (t2, none)
        | (t2, some e) =>
          match addEdgeST g0 s d r.ty r.md false t2 with
          | (t3, none) => (t3, some e)
          | (t3, some e') => (t3, some e'))

/-- the copy loops of `replace_node` -/
def copyEdgesT (new : String) (inbound : Bool) : List (EKey × EdgeRec) → Tr → Res
  | [], t => (t, none)
  | (k, r) :: rest, t =>
    match (if inbound then addEdgeST g0 k.1 new r.ty r.md true t else addEdgeST g0 new k.2 r.ty r.md true t) with
    | (t', none) => copyEdgesT new inbound rest t'
    | (t', some e) => (t', some e)

/-- base-class `replace_node` body -/
def replaceNodeBaseBodyT (n : String) (new? : Option String) (vt? : Option VType) (m? : Option Meta) (t : Tr) : Res :=
  match (cur g0 t).nodes[n]? with
  | none => (t, some .assertionError)
  | some r =>
    match new? with
    | none => direct t (replaceNodeBase (cur g0 t) n none vt? m?)       -- in-place attribute assignment
    | some new =>
      if (cur g0 t).hasNode new then (t, some .assertionError) else
      match addNodeWith g0 (fun g => addNode g new (vt?.getD r.vtype) (m?.getD r.md)) t with
      | (t1, some e) => (t1, some e)
      | (t1, none) =>
        match copyEdgesT g0 new true ((cur g0 t1).edgesTo n) t1 with
        | (t2, some e) => (deleteNodeNestedT g0 new t2, some e)          -- except: delete_node(new); raise
        | (t2, none) =>
          match copyEdgesT g0 new false ((cur g0 t2).edgesFrom n) t2 with
          | (t3, some e) => (deleteNodeNestedT g0 new t3, some e)
          | (t3, none) => (deleteNodeNestedT g0 n t3, none)

/-- `replace_node` of the graph's class; the time-series override processes its arguments and calls
    `super().replace_node(…)` (decorated) -/
def replaceNodeT (n : String) (new? : Option String) (lag? : Option Int) (var? : Option String)
    (vt? : Option VType) (m? : Option Meta) (t : Tr) : Res :=
  match (cur g0 t).cls with
  | .plain => wrap (replaceNodeBaseBodyT g0 n new? vt? m?) t
  | .ts => wrap (fun t =>
      match new? with
      | some new =>
        if lag?.isSome || var?.isSome then (t, some .assertionError)
        else wrap (replaceNodeBaseBodyT g0 n (some new) vt? m?) t
      | none =>
        if lag?.isSome || var?.isSome then
          match Name.parse n with
          | none => (t, some .valueError)
          | some (dv, dl) =>
            match Name.format (var?.getD dv) (lag?.getD dl) with
            | none => (t, some .valueError)
            | some new => wrap (replaceNodeBaseBodyT g0 n (some new) vt? m?) t
        else wrap (replaceNodeBaseBodyT g0 n none vt? m?) t) t

def addTimeEdgeT (sv : String) (st : Int) (dv : String) (dt : Int) (m : Meta) (validate : Bool) : Tr → Res :=
  wrap (fun t =>
    match Name.format sv st, Name.format dv dt with
    | some s, some d => addEdgeST g0 s d .directed m validate t
    | _, _ => (t, some .valueError))

/-- a loop of nested calls that stops at the first one that raises -/
def bulkT {α : Type} (f : α → Tr → Res) : List α → Tr → Res
  | [], t => (t, none)
  | x :: xs, t =>
    match f x t with
    | (t', none) => bulkT f xs t'
    | (t', some e) => (t', some e)

def addNodesFromT (ids : List String) : Tr → Res :=
  wrap (bulkT (fun i => addNodeWith g0 (fun g => addNode g i .unspecified [])) ids)

def addEdgesFromT (pairs : List (String × String)) (validate : Bool) : Tr → Res :=
  wrap (bulkT (fun p => addEdgeST g0 p.1 p.2 .directed [] validate) pairs)

/-- `add_edges_from_paths` with a flat path (decorated; also the recursive call of the list-of-paths form) -/
def addPathT (path : List String) (validate : Bool) : Tr → Res :=
  wrap (fun t =>
    if path.isEmpty then (t, some .assertionError) else
    bulkT (fun p t => if (cur g0 t).hasEdge p.1 p.2 then (t, none) else addEdgeST g0 p.1 p.2 .directed [] validate t)
      (pairwise path) t)

def addPathsT (paths : List (List String)) : Tr → Res :=
  wrap (fun t => if paths.isEmpty then (t, some .assertionError) else bulkT (fun p => addPathT g0 p true) paths t)

def addFullyConnectedT (ins outs : List String) : Tr → Res :=
  wrap (bulkT (fun p => addEdgeST g0 p.1 p.2 .directed [] true) (ins.flatMap fun i => outs.map fun o => (i, o)))

/-- the script of one public mutator call -/
def mutT : Op → Tr → Res
  | .addNode i vt m => addNodeWith g0 (fun g => addNode g i vt m)
  | .addNodeObj i vt m => addNodeWith g0 (fun g => addNodeObj g i vt m)
  | .tsAddNode i v l vt m => addNodeWith g0 (fun g => tsAddNode g i v l vt m)
  | .addEdge s d ty m v => addEdgeT g0 s d ty m v
  | .deleteEdge s d ty => deleteEdgeT g0 s d ty
  | .deleteNode i => deleteNodeT g0 i
  | .changeEdgeType s d nt => changeEdgeTypeT g0 s d nt
  | .replaceEdge s d ns nd ty m => replaceEdgeT g0 s d ns nd ty m
  | .replaceNode i new l v vt m => replaceNodeT g0 i new l v vt m
  | .addTimeEdge sv st dv dt m v => addTimeEdgeT g0 sv st dv dt m v
  | .addNodesFrom ids => addNodesFromT g0 ids
  | .addEdgesFrom ps v => addEdgesFromT g0 ps v
  | .addPath p v => addPathT g0 p v
  | .addPaths ps => addPathsT g0 ps
  | .addFullyConnected a b => addFullyConnectedT g0 a b

end

/-- the script of a call in chronological order, and the exception that leaves it -/
def script (g : Graph) (op : Op) : List Ev × Option Err :=
  let (t, e) := mutT g op []
  (t.reverse, e)

/-! ### interpretation -/

def applyEv (c : CGraph) : Ev → CGraph
  | .write g => { c with g := g }          -- the index changes, the memoised answers stay
  | .ret => { c with k := Caches.empty }   -- `_reset_cached_attributes()`

def interp (c : CGraph) (s : List Ev) : CGraph := s.foldl applyEv c

/-- a public mutator call on an object with caches -/
def mutC (op : Op) (c : CGraph) : CGraph × Option Err :=
  let (s, e) := script c.g op
  (interp c s, e)

inductive Call
  | mutate (op : Op)
  | read (r : Reader)

def callC (F : TsFuns) : Call → CGraph → CGraph
  | .mutate op, c => (mutC op c).1
  | .read r, c => (readR F r c).2

/-- any interleaving of mutators and readers -/
def runCalls (F : TsFuns) (c : CGraph) (calls : List Call) : CGraph := calls.foldl (fun c k => callC F k c) c

/-! ### the mechanism-level effect of a call on the graph alone

`step` of `Step.lean`, except that the bulk adders iterate the mechanism-level `add_edge` (as the code does)
instead of the atomic reference operation; on well-formed graphs the two agree (`CG.C04.stepM_eq_step_wf`, from C03).
The scripts above are proved
(`CG.C04.mutC_graph`, from `CG.Cache.proj_mutT`) to end in exactly this graph with exactly this exception. -/

def bulkI {α : Type} (f : Graph → α → Graph × Option Err) : Graph → List α → Graph × Option Err
  | g, [] => (g, none)
  | g, x :: xs =>
    match f g x with
    | (g', none) => bulkI f g' xs
    | (g', some e) => (g', some e)

def addPathI (g : Graph) (path : List String) (validate : Bool) : Graph × Option Err :=
  if path.isEmpty then (g, some .assertionError) else
  bulkI (fun g p => if g.hasEdge p.1 p.2 then (g, none) else addEdgeImplS g p.1 p.2 .directed [] validate) g (pairwise path)

def stepM (g : Graph) : Op → Graph × Option Err
  | .addEdgesFrom ps v => bulkI (fun g p => addEdgeImplS g p.1 p.2 .directed [] v) g ps
  | .addPath p v => addPathI g p v
  | .addPaths ps => if ps.isEmpty then (g, some .assertionError) else bulkI (fun g p => addPathI g p true) g ps
  | .addFullyConnected a b =>
    bulkI (fun g p => addEdgeImplS g p.1 p.2 .directed [] true) g (a.flatMap fun i => b.map fun o => (i, o))
  | op => step g op

end CG.Cache
