/-
Transcription of the networkx 3.2.1 routines behind the structural queries of the library (`get_ancestors`,
`get_descendants` and everything built on them, `get_all_causal_paths`, `identify_*`, `from_networkx` / GML):
`networkx.descendants`, `networkx.ancestors` (`networkx/algorithms/dag.py`), `bfs_edges`, `generic_bfs_edges`
(`networkx/algorithms/traversal/breadth_first_search.py`), `all_simple_paths`, `_all_simple_paths_graph`
(`networkx/algorithms/simple_paths.py`; in 3.2.1 `all_simple_paths` calls `_all_simple_paths_graph` directly, there is no
`_all_simple_edge_paths`) and `to_numpy_array` (`networkx/convert_matrix.py`) with default arguments on an unweighted
graph.  Over `nodes : List α` (= `list(G.nodes)`, insertion order) and `E : List (α × α)` (= the edges in insertion
order; `list(G.edges)` lists the same edges grouped by source, which gives the same successor lists).  No Mathlib.

```
def descendants(G, source): return {child for parent, child in nx.bfs_edges(G, source)}
def ancestors(G, source):   return {child for parent, child in nx.bfs_edges(G, source, reverse=True)}

def bfs_edges(G, source, reverse=False, depth_limit=None, sort_neighbors=None):
    if reverse and G.is_directed(): successors = G.predecessors
    else:                           successors = G.neighbors
    yield from generic_bfs_edges(G, source, successors, depth_limit)

def generic_bfs_edges(G, source, neighbors=None, depth_limit=None, sort_neighbors=None):
    if depth_limit is None: depth_limit = len(G)
    seen = {source}
    n = len(G)
    depth = 0
    next_parents_children = [(source, neighbors(source))]        # NetworkXError when source is not in G
    while next_parents_children and depth < depth_limit:
        this_parents_children = next_parents_children
        next_parents_children = []
        for parent, children in this_parents_children:
            for child in children:
                if child not in seen:
                    seen.add(child)
                    next_parents_children.append((child, neighbors(child)))
                    yield parent, child
            if len(seen) == n:
                return
        depth += 1

def all_simple_paths(G, source, target, cutoff=None):
    if source not in G: raise nx.NodeNotFound(...)
    if target in G: targets = {target}
    else:
        try: targets = set(target)                               # a str that is not a node: the set of its characters
        except TypeError as err: raise nx.NodeNotFound(...) from err
    if source in targets: return _empty_generator()
    if cutoff is None: cutoff = len(G) - 1
    if cutoff < 1: return _empty_generator()
    return _all_simple_paths_graph(G, source, targets, cutoff)   # (not a multigraph)

def _all_simple_paths_graph(G, source, targets, cutoff):
    visited = {source: True}
    stack = [iter(G[source])]
    while stack:
        children = stack[-1]
        child = next(children, None)
        if child is None:
            stack.pop(); visited.popitem()
        elif len(visited) < cutoff:
            if child in visited: continue
            if child in targets: yield list(visited) + [child]
            visited[child] = True
            if targets - set(visited.keys()): stack.append(iter(G[child]))
            else: visited.popitem()
        else:  # len(visited) == cutoff
            for target in (targets & (set(children) | {child})) - set(visited.keys()):
                yield list(visited) + [target]
            stack.pop(); visited.popitem()

def to_numpy_array(G, nodelist=None, ..., weight="weight", nonedge=0.0):
    nodelist = list(G); nlen = len(nodelist)
    A = np.full((nlen, nlen), fill_value=nonedge)
    if nlen == 0 or G.number_of_edges() == 0: return A
    idx = dict(zip(nodelist, range(nlen)))
    i, j, wts = [], [], []
    for u, v, wt in G.edges(data=weight, default=1.0): i.append(idx[u]); j.append(idx[v]); wts.append(wt)
    A[i, j] = wts
    if not G.is_directed(): A[j, i] = wts
    return A
```

What is literal.  `generic_bfs_edges`: the level structure (`this_parents_children` / `next_parents_children`), the
order in which `(parent, child)` pairs are yielded, the `depth < depth_limit` test with `depth_limit = len(G)`, the early
`return` when `len(seen) == n` (tested after each parent), `seen` starting as `{source}` -- so the source is NEVER a
child, hence never in `descendants` / `ancestors`, also when it lies on a cycle or carries a self-loop.  The loop is fuel
free: it terminates by the measure `depth_limit - depth` that the Python code itself maintains.  An unknown source is
`NetworkXError` (raised by `G.neighbors` / `G.predecessors` when the generator is first advanced), not `NodeNotFound`.
`_all_simple_paths_graph`: the stack of child iterators (a list of the not yet consumed children, top of the stack
first), the `visited` dict (its keys, LAST inserted first, so that `popitem()` is `tail`), the three branches and their
order, `continue` for a visited child, the cutoff `len(G) - 1`, the test `targets - set(visited.keys())`; the order of
the yielded paths is the order of the generator.  The loop is fuel free: it terminates by the measure
`Σ_frames (left children + 1) · B ^ (cutoff − |visited below that frame|)` with `B = |E| + 2` (`pot`).
`all_simple_paths`: the order of the checks; `NodeNotFound` for an unknown source; an unknown target is NOT an error when
it is iterable -- `set(target)` of a `str` is the set of its characters, so `all_simple_paths(G, 'a', 'cb')` enumerates
the paths to the nodes `'c'` and `'b'` -- which is the parameter `iterOf` (`none` = not iterable = `TypeError` =
`NodeNotFound`).  `to_numpy_array`: the zero matrix, the two corner cases, the index dict, one assignment per edge.

What is abstracted.  A Python `set` / `dict` is a list (insertion at the tail, membership by `∈`); `len(seen)` /
`len(visited)` is the list length (both lists never hold a member twice: a node is added only after the test
`not in`).  `G.neighbors(v)` / `G[v]` / `G.predecessors(v)` are the DISTINCT successors / predecessors in insertion
order (`adj` / `radj`: adjacency is a dict), which is edge-list order.  The child iterator `neighbors(child)` is created
when the pair is appended but only consumed one level later; the graph does not change in between, so the model computes
it when it is consumed.  With MORE THAN ONE target the `for target in (...)` loop of the cutoff branch runs over a Python
`set`, whose order is not defined (string hashing is randomised): the model enumerates in child order; for a single
target (the only way the library calls it) there is at most one item and the order is exact.  Weights are all `1.0`
(unweighted graph), entries are `0` / `1`.
-/
import CG.Model.EdgeList
set_option linter.unusedSectionVars false
set_option linter.unusedSimpArgs false

namespace CG.NxReach
variable {α : Type} [DecidableEq α]

open CG.EL (succs preds)

inductive NxErr
  | NetworkXError | NodeNotFound
  deriving DecidableEq, Repr

def NxErr.name : NxErr → String
  | .NetworkXError => "NetworkXError"
  | .NodeNotFound => "NodeNotFound"

/-- `G.neighbors(a)` / `G.successors(a)` / `G[a]`: the distinct successors of `a`, in insertion order -/
def adj (E : List (α × α)) (a : α) : List α := (succs E a).eraseDups

/-- `G.predecessors(a)`: the distinct predecessors of `a`, in insertion order -/
def radj (E : List (α × α)) (a : α) : List α := (preds E a).eraseDups

/-! ### `generic_bfs_edges`, `bfs_edges`, `descendants`, `ancestors` -/

structure BfsState (α : Type) where
  /-- the set `seen` -/
  seen : List α
  /-- the parents of `next_parents_children` (the iterator paired with parent `p` is `neighbors(p)`) -/
  next : List α
  /-- the pairs yielded so far -/
  out : List (α × α)

/-- the body of `for child in children` -/
def visitChild (parent : α) (st : BfsState α) (child : α) : BfsState α :=
  if child ∈ st.seen then st
  else { seen := st.seen ++ [child], next := st.next ++ [child], out := st.out ++ [(parent, child)] }

/-- the whole `for child in children` loop -/
def forChildren (parent : α) (st : BfsState α) (children : List α) : BfsState α :=
  children.foldl (visitChild parent) st

/-- the `for parent, children in this_parents_children` loop; the flag says that the `return` was taken -/
def forParents (n : Nat) (nb : α → List α) : List α → BfsState α → BfsState α × Bool
  | [], st => (st, false)
  | parent :: rest, st =>
    let st' := forChildren parent st (nb parent)
    if st'.seen.length = n then (st', true) else forParents n nb rest st'

/-- the `while next_parents_children and depth < depth_limit` loop -/
def whileLoop (n depthLimit : Nat) (nb : α → List α) (depth : Nat) (st : BfsState α) : List (α × α) :=
  if h : st.next ≠ [] ∧ depth < depthLimit then
    let r := forParents n nb st.next { st with next := [] }
    if r.2 then r.1.out else whileLoop n depthLimit nb (depth + 1) r.1
  else st.out
termination_by depthLimit - depth
decreasing_by omega

/-- `generic_bfs_edges(G, source, neighbors)` for a source that is in `G` (`n = len(G)`), as the list of yielded pairs -/
def genericBfsEdges (n : Nat) (nb : α → List α) (source : α) : List (α × α) :=
  whileLoop n n nb 0 { seen := [source], next := [source], out := [] }

/-- `list(nx.bfs_edges(G, source, reverse=reverse))` -/
def bfsEdges (nodes : List α) (E : List (α × α)) (source : α) (reverse : Bool) : Except NxErr (List (α × α)) :=
  if source ∉ nodes then .error .NetworkXError
  else .ok (genericBfsEdges nodes.length (if reverse then radj E else adj E) source)

/-- `networkx.descendants(G, source)` (in the order in which the set comprehension meets its members) -/
def nxDescendants (nodes : List α) (E : List (α × α)) (source : α) : Except NxErr (List α) :=
  (bfsEdges nodes E source false).map (fun es => es.map (·.2))

/-- `networkx.ancestors(G, source)` -/
def nxAncestors (nodes : List α) (E : List (α × α)) (source : α) : Except NxErr (List α) :=
  (bfsEdges nodes E source true).map (fun es => es.map (·.2))

/-! ### `_all_simple_paths_graph`, `all_simple_paths` -/

/-- the potential that makes the path loop terminate: every frame of the stack weighs
    `(children left + 1) · B ^ (K − number of visited nodes when the frame is on top)` -/
def pot (B K : Nat) : List (List α) → List α → Nat
  | [], _ => 0
  | c :: stack, visited => (c.length + 1) * B ^ (K - visited.length) + pot B K stack visited.tail

theorem adj_length_le (E : List (α × α)) (a : α) : (adj E a).length ≤ E.length := by
  have h1 : ∀ (n : Nat) (l : List α), l.length ≤ n → l.eraseDups.length ≤ l.length := by
    intro n
    induction n with
    | zero =>
      intro l hl
      have : l = [] := List.length_eq_zero_iff.mp (Nat.le_zero.mp hl)
      subst this; simp
    | succ n ih =>
      intro l hl
      cases l with
      | nil => simp
      | cons a as =>
        rw [List.eraseDups_cons]
        have h2 := List.length_filter_le (fun b => !b == a) as
        have h3 := ih (as.filter (fun b => !b == a)) (by simp only [List.length_cons] at hl; omega)
        simp only [List.length_cons]
        omega
  have h2 : (succs E a).length ≤ E.length := by
    unfold succs
    rw [List.length_map]
    exact List.length_filter_le _ _
  exact Nat.le_trans (h1 _ _ (Nat.le_refl _)) h2

theorem pot_push (B K a c r : Nat) (n : Nat) (hn : n < K) (ha : a + 1 < B) :
    (a + 1) * B ^ (K - (n + 1)) + ((c + 1) * B ^ (K - n) + r) < (c + 1 + 1) * B ^ (K - n) + r := by
  have hB : 0 < B := by omega
  have hP : 0 < B ^ (K - (n + 1)) := Nat.pow_pos hB
  have e : K - n = (K - (n + 1)) + 1 := by omega
  have h1 : (a + 1) * B ^ (K - (n + 1)) < B ^ (K - n) := by
    rw [e, Nat.pow_succ, Nat.mul_comm (B ^ (K - (n + 1))) B]
    exact Nat.mul_lt_mul_of_pos_right ha hP
  have h2 : (c + 1 + 1) * B ^ (K - n) = (c + 1) * B ^ (K - n) + B ^ (K - n) := Nat.succ_mul _ _
  omega

theorem pot_drop (P c r : Nat) (hP : 0 < P) : (c + 1) * P + r < (c + 1 + 1) * P + r := by
  have h2 : (c + 1 + 1) * P = (c + 1) * P + P := Nat.succ_mul _ _
  omega

/-- the `while stack:` loop.  `stack`: what is left of every child iterator, top of the stack first; `visited`: the keys
    of the dict, last inserted first; `out`: the paths yielded so far. -/
def aspLoop (E : List (α × α)) (targets : List α) (cutoff : Nat)
    (stack : List (List α)) (visited : List α) (out : List (List α)) : List (List α) :=
  match stack with
  | [] => out
  | [] :: stack => aspLoop E targets cutoff stack visited.tail out               -- `child is None`
  | (child :: children) :: stack =>
    if visited.length < cutoff then
      if child ∈ visited then aspLoop E targets cutoff (children :: stack) visited out          -- `continue`
      else
        let out' := if child ∈ targets then out ++ [(child :: visited).reverse] else out
        if targets.any (fun t => decide (t ∉ child :: visited)) then                   -- `targets - set(visited.keys())`
          aspLoop E targets cutoff (adj E child :: children :: stack) (child :: visited) out'
        else aspLoop E targets cutoff (children :: stack) visited out'                  -- `visited.popitem()`
    else
      let hits := (child :: children).eraseDups.filter (fun t => decide (t ∈ targets ∧ t ∉ visited))
      aspLoop E targets cutoff stack visited.tail (out ++ hits.map (fun t => (t :: visited).reverse))
termination_by pot (E.length + 2) cutoff stack visited
decreasing_by
  · simp only [pot, List.length_nil, Nat.zero_add, Nat.one_mul]
    have : 0 < (E.length + 2) ^ (cutoff - visited.length) := Nat.pow_pos (by omega)
    omega
  · simp only [pot, List.length_cons]
    exact pot_drop _ _ _ (Nat.pow_pos (by omega))
  · simp only [pot, List.length_cons, List.tail_cons]
    exact pot_push (E.length + 2) cutoff _ _ _ _ (by assumption) (by have := adj_length_le E child; omega)
  · simp only [pot, List.length_cons]
    exact pot_drop _ _ _ (Nat.pow_pos (by omega))
  · simp only [pot, List.length_cons]
    have : 0 < (E.length + 2) ^ (cutoff - visited.length) := Nat.pow_pos (by omega)
    have h2 : (children.length + 1 + 1) * (E.length + 2) ^ (cutoff - visited.length) =
        (children.length + 1) * (E.length + 2) ^ (cutoff - visited.length) + (E.length + 2) ^ (cutoff - visited.length) :=
      Nat.succ_mul _ _
    omega

/-- `list(_all_simple_paths_graph(G, source, targets, cutoff))` behind the two short-cuts of `all_simple_paths` -/
def allSimplePathsT (nodes : List α) (E : List (α × α)) (source : α) (targets : List α) : List (List α) :=
  if source ∈ targets then []
  else if nodes.length - 1 < 1 then []
  else aspLoop E targets (nodes.length - 1) [adj E source] [source] []

/-- `list(networkx.all_simple_paths(G, source, target))`.  `iterOf target` is `list(target)` for an iterable object and
    `none` for a non-iterable one. -/
def nxAllSimplePaths (iterOf : α → Option (List α)) (nodes : List α) (E : List (α × α)) (source target : α) :
    Except NxErr (List (List α)) :=
  if source ∉ nodes then .error .NodeNotFound
  else if target ∈ nodes then .ok (allSimplePathsT nodes E source [target])
  else
    match iterOf target with
    | none => .error .NodeNotFound
    | some items => .ok (allSimplePathsT nodes E source items)

/-- a Python `str` iterates over its characters -/
def strItems (s : String) : Option (List String) := some (s.toList.map String.singleton)

/-- an object that cannot be iterated (`int`, …) -/
def noItems (_ : α) : Option (List α) := none

/-! ### `to_numpy_array` -/

/-- `idx = dict(zip(nodelist, range(nlen)))` -/
def idx (nodes : List α) (u : α) : Nat := nodes.idxOf u

/-- `np.full((nlen, nlen), 0)` -/
def zeros (n : Nat) : List (List Nat) := List.replicate n (List.replicate n 0)

/-- `A[i][j]` (0 outside the matrix) -/
def entry (A : List (List Nat)) (i j : Nat) : Nat := ((A[i]?).bind (fun row => row[j]?)).getD 0

/-- `A[i, j] = v` -/
def setEntry (A : List (List Nat)) (i j v : Nat) : List (List Nat) := A.modify i (fun row => row.set j v)

/-- `networkx.to_numpy_array(G)` for an unweighted `DiGraph` -/
def nxToNumpyArray (nodes : List α) (E : List (α × α)) : List (List Nat) :=
  let A := zeros nodes.length
  if nodes.length = 0 ∨ E.length = 0 then A
  else E.foldl (fun A e => setEntry A (idx nodes e.1) (idx nodes e.2) 1) A

/-- `networkx.to_numpy_array(G)` for an unweighted undirected `Graph` whose `G.edges` is `E` (every edge once, in some
    orientation): `A[i, j] = wts` followed by `A[j, i] = wts` -/
def nxToNumpyArrayU (nodes : List α) (E : List (α × α)) : List (List Nat) :=
  let A := zeros nodes.length
  if nodes.length = 0 ∨ E.length = 0 then A
  else
    let A1 := E.foldl (fun A e => setEntry A (idx nodes e.1) (idx nodes e.2) 1) A
    E.foldl (fun A e => setEntry A (idx nodes e.2) (idx nodes e.1) 1) A1

-- a 2-cycle with a tail and a self-loop: the source is never its own descendant / ancestor
#eval (nxDescendants ["a","b","c"] [("a","b"),("b","a"),("b","c"),("c","c")] "a",
       nxAncestors ["a","b","c"] [("a","b"),("b","a"),("b","c"),("c","c")] "c",
       nxDescendants ["a","b","c"] [("a","b"),("b","a"),("b","c"),("c","c")] "zz")
-- three paths from 1 to 5, in generator order; an unknown `str` target is the set of its characters
#eval (nxAllSimplePaths noItems [1,2,3,4,5] [(1,2),(1,3),(2,5),(3,4),(4,5),(1,5)] 1 5,
       nxAllSimplePaths strItems ["a","b","c"] [("a","b"),("b","a"),("b","c"),("c","c")] "a" "cb",
       nxAllSimplePaths strItems ["a","b","c"] [("a","b")] "zz" "a")
#eval (nxToNumpyArray ["a","b","c"] [("a","b"),("b","a"),("b","c"),("c","c")], nxToNumpyArrayU [1,2,3] [(1,2),(3,3)])

end CG.NxReach
