/-
Index-level model of the state of `CausalGraph` / `TimeSeriesCausalGraph`: every REDUNDANT container the Python
keeps, and what each of the four state primitives does to every one of them.

Python container                                   here
  `_nodes_by_identifier : id ↦ Node`                 `nodes  : id ↦ NodeRec`
  `_edges_by_source[s][d] : Edge`                    `bySrc  : (s, d) ↦ EdgeRec`
  `_edges_by_destination[d][s] : Edge`               `byDst  : (d, s) ↦ EdgeRec`
  `Node._inbound_edges  : List[Edge]`  (per node)    `inb    : id ↦ List (s, d)`   insertion order
  `Node._outbound_edges : List[Edge]`  (per node)    `outb   : id ↦ List (s, d)`   insertion order
  `_lag_to_nodes[lag] : List[TimeSeriesNode]`        `lagIdx : lag ↦ List id`      insertion order (ts class only)
  `_variable_name_to_nodes[v] : List[...]`           `varIdx : v ↦ List id`        insertion order (ts class only)

Representation choices, and why they are observationally the same:

* the two edge indexes are maps keyed by the PAIR instead of two-level dictionaries.  Both Python dictionaries are
  `defaultdict(dict)`: every read goes through `d[a].get(b)`, `sorted(d[a].keys())` or `sorted(d.keys())`
  followed by the former, so an empty bucket and a missing bucket cannot be told apart (and
  `_clean_empty_edge_dictionaries` removes empty buckets after every deletion anyway; a mere LOOKUP creates them
  again).  `sorted(outer keys)` then `sorted(inner keys)` is the lexicographic order of the pair, which is the
  order of `ekCmp`.  The harness compares the non-empty part of the real dictionaries with these maps.
* the per-node lists live on the `Node` object in Python; a node object is reachable only through its identifier,
  so they are keyed by identifier here.  A missing entry is the empty list (`getD … []`).  An element of a list
  is the key pair of the edge (Python stores the `Edge` object and compares with `Edge.__eq__`: endpoints and
  type; all members of these lists are directed, so the pair identifies the member).
* the lag / variable dictionaries are `defaultdict(list)`; the ORDER OF THEIR KEYS is not modelled (it depends even
  on reads: `get_nodes_at_lag(7)` materialises key 7).  The member lists are in insertion order.  A missing entry
  is the empty list.  The plain class has neither dictionary: both stay empty there.

No Mathlib: this file is linked into the driver.
-/
import CG.Model.Views

namespace CG.Indexed
open CG Std

abbrev LMap := ExtTreeMap String (List EKey)
abbrev LagMap := ExtTreeMap Int (List String)
abbrev VarMap := ExtTreeMap String (List String)

structure IGraph where
  cls    : GraphClass
  nodes  : NMap
  bySrc  : EMap
  byDst  : EMap
  inb    : LMap
  outb   : LMap
  lagIdx : LagMap
  varIdx : VarMap
  gmeta  : Meta

/-- forget the redundancy: the node map and the by-source index -/
def abs (I : IGraph) : Graph := { cls := I.cls, nodes := I.nodes, edges := I.bySrc, gmeta := I.gmeta }

/-- `d[k].append(v)` on a `defaultdict(list)` / on a node's list -/
def pushAt {κ β : Type} {cmp : κ → κ → Ordering} [TransCmp cmp] (m : ExtTreeMap κ (List β) cmp) (k : κ) (v : β) :
    ExtTreeMap κ (List β) cmp :=
  m.insert k (m.getD k [] ++ [v])

/-- `d[k].remove(v)` (first occurrence) -/
def dropAt {κ β : Type} [BEq β] {cmp : κ → κ → Ordering} [TransCmp cmp] (m : ExtTreeMap κ (List β) cmp) (k : κ) (v : β) :
    ExtTreeMap κ (List β) cmp :=
  m.insert k ((m.getD k []).erase v)

/-- `d[k].remove(v); if not d[k]: del d[k]` -/
def dropClean {κ β : Type} [BEq β] {cmp : κ → κ → Ordering} [TransCmp cmp] (m : ExtTreeMap κ (List β) cmp) (k : κ) (v : β) :
    ExtTreeMap κ (List β) cmp :=
  let l : List β := (m.getD k []).erase v
  if l.isEmpty then m.erase k else m.insert k l

/-- group a list of (key, value) by key, values in list order -/
def group {κ β : Type} (cmp : κ → κ → Ordering) [TransCmp cmp] (L : List (κ × β)) : ExtTreeMap κ (List β) cmp :=
  L.foldl (fun m kv => pushAt m kv.1 kv.2) ∅

def IGraph.empty (c : GraphClass) (gm : Meta := []) : IGraph :=
  { cls := c, nodes := ∅, bySrc := ∅, byDst := ∅, inb := ∅, outb := ∅, lagIdx := ∅, varIdx := ∅, gmeta := gm }

def swapKey (k : EKey) : EKey := (k.2, k.1)

/-- the canonical indexes of a one-map state (members of every list in sorted order) -/
def IGraph.ofGraph (g : Graph) : IGraph :=
  { cls := g.cls, nodes := g.nodes, bySrc := g.edges,
    byDst := ExtTreeMap.ofList (g.edges.toList.map (fun kv => (swapKey kv.1, kv.2))) ekCmp,
    inb := group compare (g.dirEdges.map (fun k => (k.2, k))),
    outb := group compare (g.dirEdges.map (fun k => (k.1, k))),
    lagIdx := match g.cls with
      | .ts => group compare (g.nodes.toList.map (fun kv => (kv.2.lag, kv.1)))
      | .plain => ∅,
    varIdx := match g.cls with
      | .ts => group compare (g.nodes.toList.map (fun kv => (kv.2.var, kv.1)))
      | .plain => ∅,
    gmeta := g.gmeta }

/-! ### the four primitives, container by container -/

/-- `self._nodes_by_identifier[id] = Node(...)` followed (time-series class) by `_add_node_to_cache`, or -- when
    the identifier is already there -- the in-place edit of `replace_node(node_id)` which mutates the existing
    `Node` object: its edge lists stay, the caches are not touched.  A fresh `Node` starts with empty lists. -/
def IGraph.insNode (I : IGraph) (id : String) (r : NodeRec) : IGraph :=
  if I.nodes.contains id then { I with nodes := I.nodes.insert id r } else
  match I.cls with
  | .plain => { I with nodes := I.nodes.insert id r, inb := I.inb.insert id [], outb := I.outb.insert id [] }
  | .ts => { I with nodes := I.nodes.insert id r, inb := I.inb.insert id [], outb := I.outb.insert id [],
                    lagIdx := pushAt I.lagIdx r.lag id, varIdx := pushAt I.varIdx r.var id }

/-- the writes of `_set_edge`: both indexes; the two node lists only for a directed edge (Python raises
    `KeyError` there when an endpoint is not a node: every caller has created the endpoints before) -/
def IGraph.insEdge (I : IGraph) (s d : String) (r : EdgeRec) : IGraph :=
  let I1 := { I with bySrc := I.bySrc.insert (s, d) r, byDst := I.byDst.insert (d, s) r }
  if r.ty = .directed then { I1 with inb := pushAt I.inb d (s, d), outb := pushAt I.outb s (s, d) } else I1

/-- the writes of `delete_edge` once the edge has been found through the by-source index: node lists first (only
    for a directed edge), then both indexes are popped; `_clean_empty_edge_dictionaries` is the identity on
    pair-keyed maps.  An absent edge: nothing is written (Python raises before any write). -/
def IGraph.delEdgeRaw (I : IGraph) (s d : String) : IGraph :=
  match I.bySrc[(s, d)]? with
  | none => I
  | some r =>
    let I1 := if r.ty = .directed then { I with inb := dropAt I.inb d (s, d), outb := dropAt I.outb s (s, d) } else I
    { I1 with bySrc := I1.bySrc.erase (s, d), byDst := I1.byDst.erase (d, s) }

/-- `self.edges` filtered by `identifier in edge.get_edge_pair()`: the incident pairs in sorted order, read from
    the by-source index (`get_edges()` walks `sorted(self._edges_by_source.keys())`) -/
def IGraph.incident (I : IGraph) (n : String) : List EKey :=
  (I.bySrc.toList.filter (fun kv => kv.1.1 = n || kv.1.2 = n)).map (·.1)

/-- `_remove_node_from_cache(node)` -/
def IGraph.uncache (I : IGraph) (n : String) : IGraph :=
  match I.cls with
  | .plain => I
  | .ts =>
    match I.nodes[n]? with
    | none => I
    | some r => { I with lagIdx := dropClean I.lagIdx r.lag n, varIdx := dropClean I.varIdx r.var n }

/-- `delete_node` without the existence check: (time-series class) remove the node from the two caches FIRST,
    then `delete_edge` every incident pair collected from `self.edges`, then pop the node (its lists die with
    the `Node` object) -/
def IGraph.delNodeRaw (I : IGraph) (n : String) : IGraph :=
  let I0 := I.uncache n
  let I1 := (I0.incident n).foldl (fun acc k => acc.delEdgeRaw k.1 k.2) I0
  { I1 with nodes := I1.nodes.erase n, inb := I1.inb.erase n, outb := I1.outb.erase n }

/-! ### runs of primitive calls -/

inductive Prim
  | insNode (id : String) (r : NodeRec)
  | insEdge (s d : String) (r : EdgeRec)
  | delEdge (s d : String)
  | delNode (n : String)
  deriving Repr

def Prim.runG (g : Graph) : Prim → Graph
  | .insNode id r => g.insNode id r
  | .insEdge s d r => g.insEdge s d r
  | .delEdge s d => g.delEdgeRaw s d
  | .delNode n => g.delNodeRaw n

def Prim.runI (I : IGraph) : Prim → IGraph
  | .insNode id r => I.insNode id r
  | .insEdge s d r => I.insEdge s d r
  | .delEdge s d => I.delEdgeRaw s d
  | .delNode n => I.delNodeRaw n

def Run (ps : List Prim) (g : Graph) : Graph := ps.foldl Prim.runG g
def IRun (ps : List Prim) (I : IGraph) : IGraph := ps.foldl Prim.runI I

/-! ### readers, each through the index the code reads -/

/-- `get_edges(source=s, edge_type=?)`: `sorted(self._edges_by_source[s].keys())` -/
def getEdgesSrc (I : IGraph) (s : String) (ty? : Option EdgeType) : List (EKey × EdgeRec) :=
  (I.bySrc.toList.filter (fun kv => kv.1.1 = s)).filter (fun kv => tyOk ty? kv.2)

/-- `get_edges(destination=d, edge_type=?)`: `sorted(self._edges_by_destination[d].keys())`; the by-destination
    entries are keyed (d, s), so the bucket of `d` is sorted by source -/
def getEdgesDst (I : IGraph) (d : String) (ty? : Option EdgeType) : List (EKey × EdgeRec) :=
  ((I.byDst.toList.filter (fun kv => kv.1.1 = d)).map (fun kv => (swapKey kv.1, kv.2))).filter
    (fun kv => tyOk ty? kv.2)

/-- `Node.get_inbound_edges()` / `get_outbound_edges()`: the list itself, insertion order -/
def inboundEdges (I : IGraph) (n : String) : List EKey := I.inb.getD n []
def outboundEdges (I : IGraph) (n : String) : List EKey := I.outb.getD n []

/-- `get_parents(n)`: `{e.source for e in node.get_inbound_edges()}` (a set; list order here = insertion order) -/
def getParentsIdx (I : IGraph) (n : String) : Except Err (List String) :=
  if !I.nodes.contains n then .error .assertionError else .ok ((inboundEdges I n).map (·.1))

/-- `get_children(n)`: `{e.destination for e in node.get_outbound_edges()}` -/
def getChildrenIdx (I : IGraph) (n : String) : Except Err (List String) :=
  if !I.nodes.contains n then .error .assertionError else .ok ((outboundEdges I n).map (·.2))

/-- `Node.is_source_node()` / `is_sink_node()` / `count_inbound_edges()` / `count_outbound_edges()` -/
def isSourceNode (I : IGraph) (n : String) : Bool := (inboundEdges I n).isEmpty
def isSinkNode (I : IGraph) (n : String) : Bool := (outboundEdges I n).isEmpty
def countInbound (I : IGraph) (n : String) : Nat := (inboundEdges I n).length
def countOutbound (I : IGraph) (n : String) : Nat := (outboundEdges I n).length

/-- `get_nodes_at_lag(l)`: `list(self._lag_to_nodes[l])`, insertion order -/
def nodesAtLagIdx (I : IGraph) (l : Int) : List String := I.lagIdx.getD l []

/-- `get_nodes_for_variable_name(v)`: `list(self._variable_name_to_nodes[v])`, insertion order -/
def nodesForVariableIdx (I : IGraph) (v : String) : List String := I.varIdx.getD v []

/-- `get_contemporaneous_nodes(n)`: the lag bucket of `n`'s lag without `n` -/
def contemporaneousIdx (I : IGraph) (n : String) : Except Err (List String) :=
  match I.nodes[n]? with
  | none => .error .keyError
  | some r => .ok ((nodesAtLagIdx I r.lag).filter (· ≠ n))

/-- the variables read off the variable index: the keys with a non-empty bucket, sorted.  (The code's own
    `variables` property walks `get_nodes()` instead; this is the index-side counterpart, e.g.
    `sorted(self._variable_name_to_nodes)` after the empty buckets are ignored.) -/
def variablesIdx (I : IGraph) : List String := (I.varIdx.toList.filter (fun kv => !kv.2.isEmpty)).map (·.1)

end CG.Indexed
