/-
C14–C17: the derived graphs of `TimeSeriesCausalGraph` (`cai_causal_graph/time_series_causal_graph.py`), transcribed
loop for loop on identifiers, as the code works (`get_name_with_lag` / `get_variable_name_and_lag` everywhere):

* `minimalGraph`      `get_minimal_graph`      (C14)
* `isMinimalGraph`    `is_minimal_graph`       (C14)
* `extendGraph`       `extend_graph`           (C15)
* `stationaryGraph`   `get_stationary_graph`   (C16)
* `isStationaryGraph` `is_stationary_graph`    (C16)
* `summaryGraph`      `get_summary_graph`      (C17; the code AFTER the repair of D11, see the comment there)

An input the model cannot know from the graph state: `get_minimal_graph` takes, for a floating variable, the FIRST node
of `get_nodes_for_variable_name(v)`, i.e. the first in insertion order of the variable index.  It is observable
(variable type / metadata of the floating node when the nodes of that variable differ), so every function that
computes the minimal graph of its argument takes `idx : List String`: node identifiers in index order (for each
variable the first listed node of that variable is used; a variable none of whose nodes is listed falls back to the
sorted scan).  The minimal graph's own index order (needed by `get_stationary_graph`, which extends the minimal
graph, which computes ITS minimal graph) is the creation order of its nodes, which `minimalGraphO` returns.

`copy()` (`to_dict` / `from_dict(validate=False)`) is the identity on the model state for a graph all of whose nodes
were built by the node constructor (variable / lag = parse of the identifier), which holds for every graph built here.

No Mathlib: this file is linked into the driver.
-/
import CG.Model.Views

namespace CG.TS
open CG Std

/-! ### small helpers -/

def hexNib (n : Nat) : Char := if n < 10 then Char.ofNat (48 + n) else Char.ofNat (87 + n)

/-- one character of `json.dumps(s, ensure_ascii=False)` -/
def jsonEscChar (c : Char) : String :=
  if c = '"' then "\\\"" else if c = '\\' then "\\\\" else if c = '\n' then "\\n" else if c = '\r' then "\\r"
  else if c = '\t' then "\\t" else if c.toNat = 8 then "\\b" else if c.toNat = 12 then "\\f"
  else if c.toNat < 32 then "\\u00" ++ String.ofList [hexNib (c.toNat / 16), hexNib (c.toNat % 16)]
  else String.singleton c

/-- `json.dumps(s, ensure_ascii=False)` for a `str` (the canonical JSON text metadata values are compared by) -/
def jsonStr (s : String) : String := "\"" ++ String.join (s.toList.map jsonEscChar) ++ "\""

/-- `meta[k] = v` on the sorted association list -/
def metaSet (k v : String) : Meta → Meta
  | [] => [(k, v)]
  | (k', v') :: rest =>
    if k < k' then (k, v) :: (k', v') :: rest
    else if k = k' then (k, v) :: rest
    else (k', v') :: metaSet k v rest

/-- Python `range(lo, hi)` -/
def rangeI (lo hi : Int) : List Int := (List.range (hi - lo).toNat).map (fun (i : Nat) => lo + (i : Int))

def ofOpt {α : Type} (e : Err) : Option α → Except Err α
  | some a => .ok a
  | none => .error e

/-! ### node and edge objects outside a graph -/

/-- a `TimeSeriesNode` object: identifier, variable type, user metadata, and the two reserved metadata fields -/
structure TsObj where
  id  : String
  vt  : VType
  md  : Meta
  var : String
  lag : Int
  deriving Repr, DecidableEq

/-- `TimeSeriesNode(identifier=id, meta=m, variable_type=vt)`: variable and lag are parsed from the identifier and
    overwrite the reserved keys of `m`; `ValueError` for a name the grammar rejects -/
def objOfId (id : String) (vt : VType) (m : Meta) : Except Err TsObj :=
  match Name.parse id with
  | none => .error .valueError
  | some (v, l) => .ok { id := id, vt := vt, md := m.tsStrip, var := v, lag := l }

/-- `_get_lagged_node(node, lag)` = `TimeSeriesNode(variable_name=node.variable_name, time_lag=lag, meta=node.meta,
    variable_type=node.variable_type)`: the identifier is `get_name_with_lag(variable_name, lag)` (which parses the
    variable name first: `ValueError`), the reserved metadata are the GIVEN values -/
def laggedObj (r : NodeRec) (l : Int) : Except Err TsObj :=
  match Name.format r.var l with
  | none => .error .valueError
  | some id => .ok { id := id, vt := r.vtype, md := r.md, var := r.var, lag := l }

/-- the node object as an endpoint argument of `add_edge` (a `Node` object: implicit creation copies its variable type
    and metadata; the stored node is rebuilt from the identifier) -/
def TsObj.ep (o : TsObj) : Endpoint := { id := o.id, obj := some (o.vt, o.md) }

/-- `TimeSeriesEdge(source, destination, edge_type)`: a non-directed edge is stored earlier-node first, a directed edge
    against time is a `ValueError` -/
def tsEdgeCtor (s d : TsObj) (ty : EdgeType) : Except Err (TsObj × TsObj) :=
  if ty ≠ .directed ∧ s.lag > d.lag then .ok (d, s)
  else if s.lag > d.lag then .error .valueError
  else .ok (s, d)

def nodeRec (g : Graph) (n : String) : Except Err NodeRec := ofOpt .keyError g.nodes[n]?

/-! ### C14: `get_minimal_graph` -/

/-- `minimal_cg.add_edge(edge=E, validate=False)` for an edge object `E` between two node objects, plus the
    book-keeping of the creation order of nodes (the variable index of the graph being built) -/
def addObjEdge (m : Graph) (ord : List String) (s d : TsObj) (ty : EdgeType) (md : Meta) :
    Except Err (Graph × List String) := do
  let m' ← addEdgeE m s.ep d.ep ty md false
  let ord1 := if m.hasNode s.id then ord else ord ++ [s.id]
  let ord2 := if m.hasNode d.id then ord1 else ord1 ++ [d.id]
  pure (m', ord2)

/-- one iteration of the edge loop of `get_minimal_graph` -/
def minStep (g : Graph) (acc : Graph × List String) (e : EKey × EdgeRec) : Except Err (Graph × List String) := do
  let (m, ord) := acc
  -- `edge = self._EdgeCls.from_dict(edge.to_dict(include_meta=True))`: both endpoints are rebuilt from identifier,
  -- variable type and metadata of the graph's nodes, then the edge constructor runs
  let sr ← nodeRec g e.1.1
  let dr ← nodeRec g e.1.2
  let s0 ← objOfId e.1.1 sr.vtype sr.md
  let d0 ← objOfId e.1.2 dr.vtype dr.md
  let (s1, d1) ← tsEdgeCtor s0 d0 e.2.ty
  let delta := d1.lag - s1.lag
  if delta = 0 ∧ ¬ edgeExists m s1.var d1.var none then
    -- identifiers = the variable names
    let s2 ← objOfId s1.var s1.vt s1.md
    let d2 ← objOfId d1.var d1.vt d1.md
    let (s3, d3) ← tsEdgeCtor s2 d2 e.2.ty
    addObjEdge m ord s3 d3 e.2.ty e.2.md
  else
    let dname ← ofOpt .valueError (Name.format d1.id 0)
    let sname ← ofOpt .valueError (Name.format s1.id (-delta))
    if ¬ edgeExists m sname dname none then
      let s2 ← objOfId sname s1.vt s1.md
      let d2 ← objOfId dname d1.vt d1.md
      let (s3, d3) ← tsEdgeCtor s2 d2 e.2.ty
      addObjEdge m ord s3 d3 e.2.ty e.2.md
    else pure (m, ord)

/-- `get_nodes_for_variable_name(v)[0]`: first node of the variable in index order (`idx`), falling back to the sorted
    scan for a variable none of whose nodes is listed -/
def firstOfVar (g : Graph) (idx : List String) (v : String) : Option (String × NodeRec) :=
  match idx.find? (fun n => match g.nodes[n]? with | some r => r.var = v | none => false) with
  | some n => (g.nodes[n]?).map (fun r => (n, r))
  | none => (g.nodes.toList.find? (fun kv => kv.2.var = v))

/-- one iteration of the floating-variable pass -/
def floatStep (g : Graph) (idx : List String) (acc : Graph × List String) (v : String) :
    Except Err (Graph × List String) := do
  let (m, ord) := acc
  if ¬ (variables m).contains v ∧ ¬ m.hasNode v then
    let (_, r) ← ofOpt .indexError (firstOfVar g idx v)
    let o ← objOfId v r.vtype r.md
    let m' ← addNodeObj m o.id o.vt o.md
    pure (m', ord ++ [o.id])
  else pure (m, ord)

/-- `get_minimal_graph()` together with the creation order of the result's nodes -/
def minimalGraphO (g : Graph) (idx : List String) : Except Err (Graph × List String) := do
  let acc ← (getEdges g none none none).foldlM (minStep g) (Graph.empty .ts g.gmeta, [])
  (variables g).foldlM (floatStep g idx) acc

def minimalGraph (g : Graph) (idx : List String := []) : Except Err Graph := (·.1) <$> minimalGraphO g idx

/-! ### shallow graph equality  — TEMPORARY: to be replaced by `CG.graphEq false` of `CG/Model/Eq.lean`

`CausalGraph.__eq__(self, other)` with `deep=False`: same class, same numbers of nodes and edges, same identifier set,
same set of unordered pairs, every node equal to its namesake (time-series nodes: also same variable and lag), every
edge equal to the edge of `other` on the same pair (same stored orientation: same type; reversed: same type and the
type is one of `--`, `<>`, `oo`). -/

def symTy (t : EdgeType) : Bool := t = .undirected || t = .bidirected || t = .unknown

def tsGraphEqShallow (g h : Graph) : Bool :=
  decide (g.cls = h.cls)
  && g.nodes.size == h.nodes.size && g.edges.size == h.edges.size
  && g.nodes.keys == h.nodes.keys
  && g.edges.keys.all (fun k => h.hasEdge k.1 k.2 || h.hasEdge k.2 k.1)
  && h.edges.keys.all (fun k => g.hasEdge k.1 k.2 || g.hasEdge k.2 k.1)
  && g.nodes.toList.all (fun kv =>
      match h.nodes[kv.1]? with
      | none => false
      | some r => g.cls = .plain || (kv.2.var = r.var && kv.2.lag = r.lag))
  && g.edges.toList.all (fun kv =>
      match h.edges[kv.1]? with
      | some r => kv.2.ty = r.ty
      | none =>
        match h.edges[(kv.1.2, kv.1.1)]? with
        | some r => symTy kv.2.ty && kv.2.ty = r.ty
        | none => false)

/-- `is_minimal_graph()` : `self == self.get_minimal_graph()` -/
def isMinimalGraph (g : Graph) (idx : List String := []) : Except Err Bool := do
  let m ← minimalGraph g idx
  pure (tsGraphEqShallow g m)

/-! ### C15: `extend_graph` -/

/-- body of the two node loops: `lagged = _get_lagged_node(node, lag)`; add it unless present -/
def extNodeStep (x : Graph) (p : Int × (String × NodeRec)) : Except Err Graph := do
  let o ← laggedObj p.2.2 p.1
  if x.hasNode o.id then pure x else addNodeObj x o.id o.vt o.md

/-- body of the backward edge loop (`lag` ranges over `1 … b`) -/
def extBackEdgeStep (m : Graph) (b : Int) (iap : Bool) (x : Graph) (p : Int × (EKey × EdgeRec)) : Except Err Graph := do
  let lag := p.1
  let sr ← nodeRec m p.2.1.1
  let dr ← nodeRec m p.2.1.2
  let delta := dr.lag - sr.lag
  let ld ← laggedObj dr (-lag)
  if (-lag - delta < -b) ∧ ¬ iap then pure x else
  let ls ← laggedObj sr (-lag - delta)
  if ¬ edgeExists x ls.id ld.id none then addEdgeE x ls.ep ld.ep p.2.2.ty p.2.2.md false else pure x

/-- body of the forward edge loop (`lag` ranges over `1 … f`): no `edge_exists` guard -/
def extFwdEdgeStep (m : Graph) (x : Graph) (p : Int × (EKey × EdgeRec)) : Except Err Graph := do
  let lag := p.1
  let sr ← nodeRec m p.2.1.1
  let dr ← nodeRec m p.2.1.2
  let ls ← laggedObj sr (sr.lag + lag)
  let ld ← laggedObj dr (dr.lag + lag)
  let x1 ← if x.hasNode ls.id then pure x else addNodeObj x ls.id ls.vt ls.md
  let x2 ← if x1.hasNode ld.id then pure x1 else addNodeObj x1 ld.id ld.vt ld.md
  -- the endpoints handed to `add_edge` are the extended graph's own node objects
  let s' ← nodeRec x2 ls.id
  let d' ← nodeRec x2 ld.id
  addEdgeE x2 { id := ls.id, obj := some (s'.vtype, s'.md) } { id := ld.id, obj := some (d'.vtype, d'.md) }
    p.2.2.ty p.2.2.md false

/-- all (lag, item) pairs of `for lag in range(lo, hi): for item in items:` in iteration order -/
def loopPairs {α : Type} (lo hi : Int) (items : List α) : List (Int × α) :=
  (rangeI lo hi).flatMap (fun l => items.map (fun it => (l, it)))

def extendBackward (m : Graph) (b : Int) (iap : Bool) (x : Graph) : Except Err Graph := do
  -- `maxlag = minimal_graph.max_backward_lag; assert maxlag is not None`
  if (maxBackwardLag m).isNone then throw .assertionError
  -- `_get_lagged_node(node=node, lag=-lag)`
  let x1 ← ((loopPairs 0 (b + 1) (getNodes m)).map (fun p => (-p.1, p.2))).foldlM extNodeStep x
  (loopPairs 1 (b + 1) (getEdges m none none none)).foldlM (extBackEdgeStep m b iap) x1

def extendForward (m : Graph) (f : Int) (x : Graph) : Except Err Graph := do
  let x1 ← (loopPairs 0 (f + 1) (getNodes m)).foldlM extNodeStep x
  (loopPairs 1 (f + 1) (getEdges m none none none)).foldlM (extFwdEdgeStep m) x1

/-- `extend_graph(backward_steps=b?, forward_steps=f?, include_all_parents=iap)` -/
def extendGraph (g : Graph) (idx : List String) (b? f? : Option Int) (iap : Bool) : Except Err Graph := do
  if (match b? with | some b => decide (b < 0) | none => false) then throw .assertionError
  if (match f? with | some f => decide (f < 0) | none => false) then throw .assertionError
  let m ← minimalGraph g idx
  -- `if minimal_graph.is_empty(): return minimal_graph`
  if m.nodes.isEmpty ∧ m.edges.isEmpty then pure m else
  -- `extended_graph = minimal_graph.copy()`
  let x1 ← match b? with
    | none => pure m
    | some b => extendBackward m b iap m
  match f? with
  | none => pure x1
  | some f => extendForward m f x1

/-! ### C16: `get_stationary_graph`, `is_stationary_graph` -/

/-- `get_stationary_graph()`: the minimal graph extended by `(-min lag, max lag, include_all_parents=False)`, lags taken
    over ALL nodes; `IndexError` on a graph without nodes (after the minimal graph has been computed) -/
def stationaryGraph (g : Graph) (idx : List String := []) : Except Err Graph := do
  let (m, ord) ← minimalGraphO g idx
  match listMin (lagsOf g), listMax (lagsOf g) with
  | some lo, some hi => extendGraph m ord (some (-lo)) (some hi) false
  | _, _ => .error .indexError

/-- `is_stationary_graph()`: `False` for a non-DAG, otherwise `get_stationary_graph() == self` -/
def isStationaryGraph (g : Graph) (idx : List String := []) : Except Err Bool :=
  if ¬ isDag g then .ok false else do
  let s ← stationaryGraph g idx
  pure (tsGraphEqShallow s g)

/-! ### C17: `get_summary_graph` (repaired, D11)

The summary graph is a plain `CausalGraph`, but its nodes are created implicitly by
`summary_graph.add_edge(edge=TimeSeriesEdge(TimeSeriesNode(identifier=variable, meta=node.meta, …), …))`: the plain
graph deep-copies the `TimeSeriesNode`'s metadata, INCLUDING the reserved keys, which are ordinary user metadata of a
plain node: `time_lag` = lag parsed from the variable name (0), `variable_name` = the variable. -/

/-- metadata of the plain node created from a time-series node object -/
def plainMd (o : TsObj) : Meta := metaSet "variable_name" (jsonStr o.var) (metaSet "time_lag" (toString o.lag) o.md)

def TsObj.plainEp (o : TsObj) : Endpoint := { id := o.id, obj := some (o.vt, plainMd o) }

/-- the documented bidirected branch: the stored edge `a → b` (opposite to the edge being collapsed) becomes `a <> b`.
    Repaired code: `remove_edge(a, b)` then `add_edge(a, b, edge_type='<>', meta=existing.meta, validate=False)`,
    nothing when it already is bidirected. -/
def summaryFlip (s : Graph) (a b : String) : Except Err Graph :=
  match s.edges[(a, b)]? with
  | none => .error .edgeDoesNotExist
  | some r =>
    if r.ty = .bidirected then .ok s else do
    let s1 ← deleteEdge s a b none
    addEdge s1 a b .bidirected r.md false

/-- the same branch as first trialled in `notes/candidate_repairs.patch`: `change_edge_type(a, b, '<>')`, whose re-add
    VALIDATES — it raises `CyclicConnectionError` when `b` already lies on a directed cycle of the summary graph -/
def summaryFlipValidated (s : Graph) (a b : String) : Except Err Graph := changeEdgeType s a b .bidirected

/-- one iteration of the collapse loop -/
def sumStep (flip : Graph → String → String → Except Err Graph) (g : Graph) (s : Graph) (e : EKey × EdgeRec) :
    Except Err Graph := do
  let sr ← nodeRec g e.1.1
  let dr ← nodeRec g e.1.2
  let sv := sr.var
  let dv := dr.var
  if sv = dv then pure s
  else if edgeExists s dv sv none then flip s dv sv
  else if ¬ edgeExists s sv dv none then
    let s2 ← objOfId sv sr.vtype sr.md
    let d2 ← objOfId dv dr.vtype dr.md
    let (s3, d3) ← tsEdgeCtor s2 d2 e.2.ty
    addEdgeE s s3.plainEp d3.plainEp e.2.ty e.2.md false
  else pure s

/-- `get_variable_names_from_node_names(get_node_names())`: parse every identifier, sorted distinct variable names -/
def allVariableNames (g : Graph) : Except Err (List String) := do
  let vs ← g.nodes.keys.mapM (fun n => ofOpt .valueError ((Name.parse n).map (·.1)))
  pure (sortDedup vs)

def summaryGraphWith (flip : Graph → String → String → Except Err Graph) (g : Graph) : Except Err Graph := do
  -- `assert self.is_dag()`
  if ¬ isDag g then throw .assertionError
  let s ← (getEdges g none none none).foldlM (sumStep flip g) (Graph.empty .plain g.gmeta)
  -- floating variables: `summary_var_names` is read once, before the loop
  let present := getNodeNames s
  let vs ← allVariableNames g
  vs.foldlM (fun acc v => if present.contains v then pure acc else addNode acc v .unspecified []) s

/-- `get_summary_graph()` -/
def summaryGraph (g : Graph) : Except Err Graph := summaryGraphWith summaryFlip g

/-- `get_summary_graph()` with the bidirected branch as first trialled (kept for the record of D11; not the code) -/
def summaryGraphValidated (g : Graph) : Except Err Graph := summaryGraphWith summaryFlipValidated g

end CG.TS
