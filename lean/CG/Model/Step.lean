/-
The state machine: one constructor per public mutator (and argument form), `step` and `run`.
`step` uses the mechanism-level mirrors of `OpsImpl.lean` where the code writes before it checks, and the
reference operations of `Ops.lean` elsewhere (those check before the first write).
-/
import CG.Model.OpsImpl

namespace CG

inductive Op
  | addNode (id : String) (vt : VType) (m : Meta)
  | addNodeObj (id : String) (vt : VType) (m : Meta)
  | tsAddNode (id? : Option String) (var? : Option String) (lag? : Option Int) (vt : VType) (m : Meta)
  | addEdge (s d : Endpoint) (ty : EdgeType) (m : Meta) (validate : Bool)
  | deleteEdge (s d : String) (ty? : Option EdgeType)
  | deleteNode (id : String)
  | changeEdgeType (s d : String) (nt : EdgeType)
  | replaceEdge (s d ns nd : String) (ty? : Option EdgeType) (m? : Option Meta)
  | replaceNode (id : String) (new? : Option String) (lag? : Option Int) (var? : Option String) (vt? : Option VType)
      (m? : Option Meta)
  | addTimeEdge (sv : String) (st : Int) (dv : String) (dt : Int) (m : Meta) (validate : Bool)
  | addNodesFrom (ids : List String)
  | addEdgesFrom (pairs : List (String × String)) (validate : Bool)
  | addPath (path : List String) (validate : Bool)
  | addPaths (paths : List (List String))
  | addFullyConnected (ins outs : List String)

/-- the property C03 speaks about the single-element mutators only -/
def Op.single : Op → Bool
  | .addNodesFrom .. | .addEdgesFrom .. | .addPath .. | .addPaths .. | .addFullyConnected .. => false
  | _ => true

/-- every call of the operation runs the cycle check -/
def Op.validates : Op → Bool
  | .addEdge _ _ _ _ v | .addTimeEdge _ _ _ _ _ v | .addEdgesFrom _ v | .addPath _ v => v
  | _ => true

def step (g : Graph) : Op → Graph × Option Err
  | .addNode i vt m => lift g (addNode g i vt m)
  | .addNodeObj i vt m => lift g (addNodeObj g i vt m)
  | .tsAddNode i v l vt m => lift g (tsAddNode g i v l vt m)
  | .addEdge s d ty m v => addEdgeImpl g s d ty m v
  | .deleteEdge s d ty => lift g (deleteEdge g s d ty)
  | .deleteNode i => lift g (deleteNode g i)
  | .changeEdgeType s d nt => changeEdgeTypeImpl g s d nt
  | .replaceEdge s d ns nd ty m => replaceEdgeImpl g s d ns nd ty m
  | .replaceNode i new l v vt m => replaceNodeImpl g i new l v vt m
  | .addTimeEdge sv st dv dt m v => addTimeEdgeImpl g sv st dv dt m v
  | .addNodesFrom ids => addNodesFrom g ids
  | .addEdgesFrom ps v => addEdgesFrom g ps v
  | .addPath p v => addEdgesFromPath g p v
  | .addPaths ps => addEdgesFromPaths g ps
  | .addFullyConnected a b => addFullyConnected g a b

/-- the reference (atomic) effect of a single-element operation -/
def stepRef (g : Graph) : Op → Graph × Option Err
  | .addEdge s d ty m v => lift g (addEdgeE g s d ty m v)
  | .changeEdgeType s d nt => lift g (changeEdgeType g s d nt)
  | .replaceEdge s d ns nd ty m => lift g (replaceEdge g s d ns nd ty m)
  | .replaceNode i new l v vt m => lift g (replaceNode g i new l v vt m)
  | .addTimeEdge sv st dv dt m v => lift g (addTimeEdge g sv st dv dt m v)
  | op => step g op

def run (g : Graph) (ops : List Op) : Graph := ops.foldl (fun acc op => (step acc op).1) g

end CG
