/-
Mechanism-level mirror of the mutators: the same *sequences of writes* the Python performs, including the
places where it writes first and undoes afterwards

  * `_set_edge`: insert, cycle check, roll back through `delete_edge`;
  * `add_edge`: create missing endpoint nodes, then reject → delete the nodes that did not exist before;
  * `change_edge_type` / `replace_edge`: delete, add, on failure re-add the original edge with `validate=False`;
  * `replace_node`: add the new node, copy edges one by one, on failure `delete_node(new)` (cascade).

Every function returns the state the code leaves behind **and** the error (`Graph × Option Err`), so nothing
here assumes atomicity.  `CG/Proofs/C03.lean` proves that under the invariant `WF` each of them equals the
atomic reference operation of `Ops.lean` (`…Impl g = lift (… g)`): a raising call leaves the state unchanged,
a successful call applies exactly the reference effect.

No Mathlib: this file is linked into the driver.
-/
import CG.Model.Ops

namespace CG
open Std

/-- lift an atomic reference operation to the (state, error) shape -/
def lift (g : Graph) : Except Err Graph → Graph × Option Err
  | .ok g' => (g', none)
  | .error e => (g, some e)

/-- `_set_edge`: checks, insertion, validation with rollback via the public `delete_edge` -/
def setEdgeImpl (g : Graph) (s d : String) (r : EdgeRec) (validate : Bool) : Graph × Option Err :=
  if g.hasEdge d s then (g, some .reverseEdgeExists) else
  if g.hasEdge s d then (g, some .edgeDuplicated) else
  let g' := g.insEdge s d r
  if validate && selfDepR g'.dirEdges d then
    match deleteEdge g' s d none with
    | .ok g'' => (g'', some .cyclicConnection)
    | .error e => (g', some e)          -- an exception raised inside the `except` block replaces the first one
  else (g', none)

/-- delete, through the public `delete_node`, every node that was not in `before` (sorted order) -/
def dropNewNodes (before : List String) (g : Graph) : Graph :=
  (g.nodes.keys.filter (fun n => !before.contains n)).foldl (fun acc n => acc.delNodeRaw n) g

/-- `add_edge` as written after the D5 repair: everything from `_prepare_nodes` to `_set_edge` runs inside a
    `try`; on any exception the implicitly created nodes are deleted again -/
def addEdgeImpl (g : Graph) (s d : Endpoint) (ty : EdgeType) (m : Meta) (validate : Bool) : Graph × Option Err :=
  let before := g.nodes.keys
  if s.id = d.id then (g, some .cyclicConnection) else
  match ensureNode g s with
  | .error e => (dropNewNodes before g, some e)
  | .ok g1 =>
    match ensureNode g1 d with
    | .error e => (dropNewNodes before g1, some e)
    | .ok g2 =>
      if g.hasEdge s.id d.id then (dropNewNodes before g2, some .edgeDuplicated) else
      match orient g2 s.id d.id ty with
      | .error e => (dropNewNodes before g2, some e)
      | .ok (s', d') =>
        match setEdgeImpl g2 s' d' { ty := ty, md := m } validate with
        | (g3, none) => (g3, none)
        | (g3, some e) => (dropNewNodes before g3, some e)

def addEdgeImplS (g : Graph) (s d : String) (ty : EdgeType) (m : Meta) (validate : Bool) : Graph × Option Err :=
  addEdgeImpl g { id := s } { id := d } ty m validate

/-- `change_edge_type` as written after the D2 repair -/
def changeEdgeTypeImpl (g : Graph) (s d : String) (nt : EdgeType) : Graph × Option Err :=
  match g.edges[(s, d)]? with
  | none => (g, some .edgeDoesNotExist)
  | some r =>
    if r.ty = nt then (g, none) else
    match deleteEdge g s d (some r.ty) with
    | .error e => (g, some e)
    | .ok g1 =>
      match addEdgeImplS g1 s d nt r.md true with
      | (g2, none) => (g2, none)
      | (g2, some e) =>
        -- restore: add_edge(source, destination, old type, meta, validate=False); re-raise
        match addEdgeImplS g2 s d r.ty r.md false with
        | (g3, none) => (g3, some e)
        | (g3, some e') => (g3, some e')

/-- `replace_edge` as written after the D3 repair -/
def replaceEdgeImpl (g : Graph) (s d ns nd : String) (ty? : Option EdgeType) (m? : Option Meta) : Graph × Option Err :=
  match g.edges[(s, d)]? with
  | none => (g, some .edgeDoesNotExist)
  | some r =>
    if g.hasEdge ns nd then (g, some .edgeExists) else
    match deleteEdge g s d none with
    | .error e => (g, some e)
    | .ok g1 =>
      match addEdgeImplS g1 ns nd (ty?.getD r.ty) (m?.getD r.md) true with
      | (g2, none) => (g2, none)
      | (g2, some e) =>
        match addEdgeImplS g2 s d r.ty r.md false with
        | (g3, none) => (g3, some e)
        | (g3, some e') => (g3, some e')

/-- the copy loops of `replace_node`; stops at the first rejected edge and reports the state reached -/
def copyEdgesImpl (new : String) (inbound : Bool) : Graph → List (EKey × EdgeRec) → Graph × Option Err
  | g, [] => (g, none)
  | g, (k, r) :: rest =>
    match (if inbound then addEdgeImplS g k.1 new r.ty r.md true else addEdgeImplS g new k.2 r.ty r.md true) with
    | (g', none) => copyEdgesImpl new inbound g' rest
    | (g', some e) => (g', some e)

/-- base-class `replace_node` as written after the D4 repair -/
def replaceNodeBaseImpl (g : Graph) (n : String) (new? : Option String) (vt? : Option VType) (m? : Option Meta) :
    Graph × Option Err :=
  match g.nodes[n]? with
  | none => (g, some .assertionError)
  | some r =>
    match new? with
    | none => lift g (replaceNodeBase g n none vt? m?)      -- in place: a single assignment, nothing to undo
    | some new =>
      if g.hasNode new then (g, some .assertionError) else
      match addNode g new (vt?.getD r.vtype) (m?.getD r.md) with
      | .error e => (g, some e)
      | .ok g1 =>
        match copyEdgesImpl new true g1 (g1.edgesTo n) with
        | (g2, some e) => (g2.delNodeRaw new, some e)        -- except: delete_node(new); raise
        | (g2, none) =>
          match copyEdgesImpl new false g2 (g2.edgesFrom n) with
          | (g3, some e) => (g3.delNodeRaw new, some e)
          | (g3, none) => (g3.delNodeRaw n, none)

def replaceNodeImpl (g : Graph) (n : String) (new? : Option String) (lag? : Option Int) (var? : Option String)
    (vt? : Option VType) (m? : Option Meta) : Graph × Option Err :=
  match g.cls with
  | .plain => replaceNodeBaseImpl g n new? vt? m?
  | .ts =>
    match new? with
    | some new => if lag?.isSome || var?.isSome then (g, some .assertionError) else replaceNodeBaseImpl g n (some new) vt? m?
    | none =>
      if lag?.isSome || var?.isSome then
        match Name.parse n with
        | none => (g, some .valueError)
        | some (dv, dl) =>
          match Name.format (var?.getD dv) (lag?.getD dl) with
          | none => (g, some .valueError)
          | some new => replaceNodeBaseImpl g n (some new) vt? m?
      else replaceNodeBaseImpl g n none vt? m?

def addTimeEdgeImpl (g : Graph) (sv : String) (st : Int) (dv : String) (dt : Int) (m : Meta) (validate : Bool) :
    Graph × Option Err :=
  match Name.format sv st, Name.format dv dt with
  | some s, some d => addEdgeImplS g s d .directed m validate
  | _, _ => (g, some .valueError)

end CG
