/-
Transcription of the topological-order routines of networkx 3.2.1 (`networkx/algorithms/dag.py`) that
`cai_causal_graph` delegates to, over `nodes : List α` (= `list(G.nodes)`, insertion order) and `E : List (α × α)`
(= `list(G.edges)`; any list whose restriction to one source lists that source's successors in adjacency order will do,
e.g. the edges in the order they were added).  No Mathlib.

```
def topological_generations(G):
    indegree_map = {v: d for v, d in G.in_degree() if d > 0}
    zero_indegree = [v for v, d in G.in_degree() if d == 0]
    while zero_indegree:
        this_generation = zero_indegree
        zero_indegree = []
        for node in this_generation:
            if node not in G: raise RuntimeError("Graph changed during iteration")
            for child in G.neighbors(node):
                try: indegree_map[child] -= 1
                except KeyError as err: raise RuntimeError("Graph changed during iteration") from err
                if indegree_map[child] == 0:
                    zero_indegree.append(child)
                    del indegree_map[child]
        yield this_generation
    if indegree_map: raise nx.NetworkXUnfeasible(...)

def topological_sort(G):
    for generation in nx.topological_generations(G): yield from generation

def has_cycle(G):
    try: deque(topological_sort(G), maxlen=0)
    except nx.NetworkXUnfeasible: return True
    else: return False

def is_directed_acyclic_graph(G): return G.is_directed() and not has_cycle(G)

def lexicographical_topological_sort(G, key=None):
    nodeid_map = {n: i for i, n in enumerate(G)}
    def create_tuple(node): return key(node), nodeid_map[node], node
    indegree_map = {v: d for v, d in G.in_degree() if d > 0}
    zero_indegree = [create_tuple(v) for v, d in G.in_degree() if d == 0]
    heapq.heapify(zero_indegree)
    while zero_indegree:
        _, _, node = heapq.heappop(zero_indegree)
        if node not in G: raise RuntimeError("Graph changed during iteration")
        for _, child in G.edges(node):
            try: indegree_map[child] -= 1
            except KeyError as err: raise RuntimeError("Graph changed during iteration") from err
            if indegree_map[child] == 0:
                heapq.heappush(zero_indegree, create_tuple(child))     # (TypeError re-raised: see below)
                del indegree_map[child]
        yield node
    if indegree_map: raise nx.NetworkXUnfeasible(...)

def all_topological_sorts(G):
    count = dict(G.in_degree())
    D = deque([v for v, d in G.in_degree() if d == 0])
    bases = []
    current_sort = []
    while True:
        assert all(count[v] == 0 for v in D)
        if len(current_sort) == len(G):
            yield list(current_sort)
            while len(current_sort) > 0:
                assert len(bases) == len(current_sort)
                q = current_sort.pop()
                for _, j in G.out_edges(q):
                    count[j] += 1
                    assert count[j] >= 0
                while len(D) > 0 and count[D[-1]] > 0: D.pop()
                D.appendleft(q)
                if D[-1] == bases[-1]: bases.pop()
                else: break
        else:
            if len(D) == 0: raise nx.NetworkXUnfeasible("Graph contains a cycle.")
            q = D.pop()
            for _, j in G.out_edges(q):
                count[j] -= 1
                assert count[j] >= 0
                if count[j] == 0: D.append(j)
            current_sort.append(q)
            if len(bases) < len(current_sort): bases.append(q)
        if len(bases) == 0: break
```

What is modelled literally

* `G.in_degree()` of a `DiGraph` yields `(v, len(G._pred[v]))` in node order: the number of DISTINCT predecessors (a
  self loop counts once) -- `inDegree`.  `G.neighbors(v)`, `G.edges(v)`, `G.out_edges(v)` all walk `G._succ[v]`, a dict
  in insertion order: the distinct successors of `v` in edge order -- `neighbors`.
* the dicts `indegree_map` / `count` are association lists (`lookup`, in-place `set`, `del`), counts are `Int`;
* `zero_indegree` / `this_generation` are lists, appended at the tail, walked from the head;
* generators: a run is the list of the values yielded followed by the exception that ended it, if any (`Run`).  A value
  is yielded only after the statements in front of the `yield` went through, so the generation / node being processed
  when `RuntimeError` is raised is not part of the run.  `list(...)` of a generator (`.toExcept`) is the list of values if
  no exception ended the run, else the exception;
* `has_cycle` swallows `NetworkXUnfeasible` only: a `RuntimeError` would propagate, hence
  `nxIsDirectedAcyclicGraph : Except NxErr Bool` (`G.is_directed()` is `True` for a `DiGraph`);
* the `RuntimeError` branches (`node not in G`, `KeyError` on `indegree_map[child]`) are there, as written;
  `CG.NxTopoProofs.nxTopologicalSort_total` / `nxIsDag_total` / `nxLexTopo_total` prove that they are unreachable when
  `nodes` has no repetition and the edges lie within `nodes` (what "the graph is not modified during iteration" amounts
  to);
* `all_topological_sorts`: one iteration of `while True` is `allStep`, on the state `(count, D, bases, current_sort)`,
  with the three `assert`s (→ `AssertionError`), the `KeyError` a missing `count[j]` would give, and the `IndexError`
  of `bases[-1]` on an empty list.  The deque `D` and the two stacks are stored REVERSED (head of the Lean list = right
  end of the Python container): `D.pop()` = tail, `D.append(j)` = cons, `D[-1]` = head, `D.appendleft(q)` = `++ [q]`;
  a yielded order is `cs.reverse`.  The inner clean-up loop is `cleanup` (structural in `current_sort`).

What is abstracted

* `heapq`: the heap is a list of entries `(key(node), nodeid_map[node], node)`; `heappop` removes the least entry in
  the order of Python tuples restricted to the first two components (`heapPop`: least key, then least node index).  This
  is the specification of a binary heap, not its array layout: the sequence of popped entries does not depend on the
  layout because two different entries never compare equal (node indices are distinct), and the third component is
  never compared for the same reason -- so the `TypeError` branch (uncomparable nodes) is not modelled.  Keys are `Int`.
* `nodeid_map[n]` is `nodes.idxOf n` (the dict keeps the LAST index of a repeated node; `G.nodes` has no repetition).
* `all_topological_sorts` is a `while True` whose termination is a consequence of its correctness, not of a syntactic
  measure.  `allRun` iterates `allStep` with an explicit budget; `nxAllTopologicalSorts` gives it
  `allFuel nodes.length` iterations (`T 0 = 1`, `T (r+1) = (r+1) * (1 + T r)`: one iteration per node of the search
  tree plus one per leaf) and answers `OutOfFuel` -- not a Python exception -- if that were not enough;
  `CG.NxTopoProofs.allTopoRun_acyclic` / `allTopoRun_cyclic` prove that this never happens (nor any of the `assert`s,
  `KeyError`, `IndexError`).  All other loops are fuel-free (measure: `indegree_map` entries plus waiting nodes).
-/
import CG.Model.EdgeList
set_option linter.unusedSectionVars false
set_option linter.unusedSimpArgs false
set_option linter.unusedVariables false

namespace CG.NxTopo
variable {α : Type} [DecidableEq α]

open CG.EL (succs preds)

inductive NxErr
  | NetworkXUnfeasible | RuntimeError | AssertionError | KeyError | IndexError | OutOfFuel
  deriving DecidableEq, Repr

def NxErr.name : NxErr → String
  | .NetworkXUnfeasible => "NetworkXUnfeasible"
  | .RuntimeError => "RuntimeError"
  | .AssertionError => "AssertionError"
  | .KeyError => "KeyError"
  | .IndexError => "IndexError"
  | .OutOfFuel => "OutOfFuel"

/-- `G.in_degree()[v] = len(G._pred[v])`: the number of distinct predecessors -/
def inDegree (E : List (α × α)) (v : α) : Nat := (preds E v).eraseDups.length

/-- `G.neighbors(v)` / `G.edges(v)` / `G.out_edges(v)`: the distinct successors of `v`, in edge order -/
def neighbors (E : List (α × α)) (v : α) : List α := (succs E v).eraseDups

/-! ### dicts with integer values -/

abbrev IMap (α : Type) := List (α × Int)

/-- `m[k] = d` for a key that is present (position kept, as in a dict) -/
def IMap.set (m : IMap α) (k : α) (d : Int) : IMap α := m.map (fun p => if p.1 = k then (k, d) else p)

/-- `del m[k]` -/
def IMap.del (m : IMap α) (k : α) : IMap α := m.filter (fun p => p.1 ≠ k)

theorem IMap.set_length (m : IMap α) (k : α) (d : Int) : (IMap.set m k d).length = m.length := by
  simp [IMap.set]

theorem IMap.del_length_lt {m : IMap α} {k : α} {d : Int} (h : m.lookup k = some d) :
    (IMap.del m k).length < m.length := by
  unfold IMap.del
  apply List.length_filter_lt_length_iff_exists.mpr
  induction m with
  | nil => simp at h
  | cons p m ih =>
    obtain ⟨a, b⟩ := p
    by_cases hk : k = a
    · exact ⟨(a, b), List.mem_cons_self, by simp [hk]⟩
    · have hk' : (k == a) = false := by simpa using hk
      rw [List.lookup_cons, hk'] at h
      obtain ⟨x, hx, hx'⟩ := ih h
      exact ⟨x, List.mem_cons_of_mem _ hx, hx'⟩

/-- a generator run: the values yielded, then the exception that ended the run (if any) -/
abbrev Run (β : Type) := List β × Option NxErr

/-- `list(generator)` -/
def Run.toExcept {β : Type} (r : Run β) : Except NxErr (List β) :=
  match r.2 with
  | none => .ok r.1
  | some e => .error e

/-- `{v: d for v, d in G.in_degree() if d > 0}` -/
def indegreeMap (nodes : List α) (E : List (α × α)) : IMap α :=
  nodes.filterMap (fun v => if inDegree E v > 0 then some (v, (inDegree E v : Int)) else none)

/-- `[v for v, d in G.in_degree() if d == 0]` -/
def zeroIndegree (nodes : List α) (E : List (α × α)) : List α := nodes.filter (fun v => inDegree E v == 0)

/-- the body of `for child in …`:
    `indegree_map[child] -= 1; if indegree_map[child] == 0: zero_indegree.append(child); del indegree_map[child]` -/
def decChild (m : IMap α) (zero : List α) (child : α) : Except NxErr (IMap α × List α) :=
  match m.lookup child with
  | none => .error .RuntimeError
  | some d => if d - 1 = 0 then .ok (IMap.del m child, zero ++ [child]) else .ok (IMap.set m child (d - 1), zero)

/-- `for child in G.neighbors(node): …` -/
def relaxChildren (m : IMap α) (zero : List α) : List α → Except NxErr (IMap α × List α)
  | [] => .ok (m, zero)
  | c :: cs =>
    match decChild m zero c with
    | .error e => .error e
    | .ok r => relaxChildren r.1 r.2 cs

theorem decChild_measure {m : IMap α} {zero : List α} {c : α} {r : IMap α × List α}
    (h : decChild m zero c = .ok r) : r.1.length + r.2.length ≤ m.length + zero.length := by
  unfold decChild at h
  split at h
  · cases h
  · rename_i d hd
    split at h
    · cases h
      have := IMap.del_length_lt hd
      simp only [List.length_append, List.length_cons, List.length_nil]
      omega
    · cases h
      simp [IMap.set_length]

theorem relaxChildren_measure : ∀ (cs : List α) {m : IMap α} {zero : List α} {r : IMap α × List α},
    relaxChildren m zero cs = .ok r → r.1.length + r.2.length ≤ m.length + zero.length
  | [], m, zero, r, h => by simp only [relaxChildren] at h; cases h; exact Nat.le_refl _
  | c :: cs, m, zero, r, h => by
    simp only [relaxChildren] at h
    split at h
    · cases h
    · rename_i r' hr'
      exact Nat.le_trans (relaxChildren_measure cs h) (decChild_measure hr')

/-! ### `topological_generations`, `topological_sort`, `is_directed_acyclic_graph` -/

/-- `for node in this_generation: …` -/
def processGeneration (nodes : List α) (E : List (α × α)) (m : IMap α) (zero : List α) :
    List α → Except NxErr (IMap α × List α)
  | [] => .ok (m, zero)
  | node :: rest =>
    if node ∉ nodes then .error .RuntimeError
    else match relaxChildren m zero (neighbors E node) with
      | .error e => .error e
      | .ok r => processGeneration nodes E r.1 r.2 rest

theorem processGeneration_measure (nodes : List α) (E : List (α × α)) :
    ∀ (gen : List α) {m : IMap α} {zero : List α} {r : IMap α × List α},
    processGeneration nodes E m zero gen = .ok r → r.1.length + r.2.length ≤ m.length + zero.length
  | [], m, zero, r, h => by simp only [processGeneration] at h; cases h; exact Nat.le_refl _
  | node :: rest, m, zero, r, h => by
    simp only [processGeneration] at h
    split at h
    · cases h
    · split at h
      · cases h
      · rename_i r' hr'
        exact Nat.le_trans (processGeneration_measure nodes E rest h) (relaxChildren_measure _ hr')

/-- the `while zero_indegree:` loop and the final `if indegree_map: raise` -/
def gensLoop (nodes : List α) (E : List (α × α)) (m : IMap α) (zero : List α) : Run (List α) :=
  if hz : zero = [] then ([], if m.isEmpty then none else some .NetworkXUnfeasible)
  else
    match hp : processGeneration nodes E m [] zero with
    | .error e => ([], some e)
    | .ok r =>
      let rest := gensLoop nodes E r.1 r.2
      (zero :: rest.1, rest.2)
termination_by m.length + zero.length
decreasing_by
  have h1 := processGeneration_measure nodes E zero hp
  have h2 : 0 < zero.length := List.length_pos_iff.mpr hz
  simp only [List.length_nil] at h1
  omega

/-- the generator `networkx.topological_generations(G)` -/
def topologicalGenerationsRun (nodes : List α) (E : List (α × α)) : Run (List α) :=
  gensLoop nodes E (indegreeMap nodes E) (zeroIndegree nodes E)

/-- `list(networkx.topological_generations(G))` -/
def nxTopologicalGenerations (nodes : List α) (E : List (α × α)) : Except NxErr (List (List α)) :=
  (topologicalGenerationsRun nodes E).toExcept

/-- the generator `networkx.topological_sort(G)`: `yield from` every generation -/
def topologicalSortRun (nodes : List α) (E : List (α × α)) : Run α :=
  let r := topologicalGenerationsRun nodes E
  (r.1.flatten, r.2)

/-- `list(networkx.topological_sort(G))` -/
def nxTopologicalSort (nodes : List α) (E : List (α × α)) : Except NxErr (List α) :=
  (topologicalSortRun nodes E).toExcept

/-- `networkx.has_cycle(G)`: consume `topological_sort`, catch `NetworkXUnfeasible` only -/
def nxHasCycle (nodes : List α) (E : List (α × α)) : Except NxErr Bool :=
  match (topologicalSortRun nodes E).2 with
  | none => .ok false
  | some .NetworkXUnfeasible => .ok true
  | some e => .error e

/-- `networkx.is_directed_acyclic_graph(G)` for a `DiGraph`: `G.is_directed() and not has_cycle(G)` -/
def nxIsDirectedAcyclicGraph (nodes : List α) (E : List (α × α)) : Except NxErr Bool :=
  (nxHasCycle nodes E).map (fun c => true && !c)

/-! ### `lexicographical_topological_sort` -/

/-- a heap entry `(key(node), nodeid_map[node], node)` -/
abbrev Entry (α : Type) := Int × Nat × α

/-- tuple order on the first two components -/
def Entry.le (a b : Entry α) : Bool := decide (a.1 < b.1) || (decide (a.1 = b.1) && decide (a.2.1 ≤ b.2.1))

/-- the least entry (the first one among equals) -/
def heapMin : List (Entry α) → Option (Entry α)
  | [] => none
  | e :: es => match heapMin es with
    | none => some e
    | some m => if Entry.le e m then some e else some m

/-- `heapq.heappop`: the least entry and the heap without it -/
def heapPop (h : List (Entry α)) : Option (Entry α × List (Entry α)) :=
  match heapMin h with
  | none => none
  | some e => some (e, h.erase e)

theorem heapMin_mem : ∀ {h : List (Entry α)} {e : Entry α}, heapMin h = some e → e ∈ h
  | [], e, hm => by simp [heapMin] at hm
  | x :: xs, e, hm => by
    simp only [heapMin] at hm
    split at hm
    · cases hm; exact List.mem_cons_self
    · rename_i m hm'
      split at hm
      · cases hm; exact List.mem_cons_self
      · cases hm; exact List.mem_cons_of_mem _ (heapMin_mem hm')

theorem heapPop_length {h h' : List (Entry α)} {e : Entry α} (hp : heapPop h = some (e, h')) :
    h'.length + 1 = h.length := by
  unfold heapPop at hp
  split at hp
  · cases hp
  · rename_i m hm
    cases hp
    have hmem := heapMin_mem hm
    rw [List.length_erase_of_mem hmem]
    have : 0 < h.length := List.length_pos_of_mem hmem
    omega

/-- `create_tuple(node)` -/
def createTuple (nodes : List α) (key : α → Int) (node : α) : Entry α := (key node, nodes.idxOf node, node)

/-- `heapq.heappush` of every child whose count reached zero, in the order the loop meets them -/
def pushAll (nodes : List α) (key : α → Int) (h : List (Entry α)) (newZero : List α) : List (Entry α) :=
  h ++ newZero.map (createTuple nodes key)

/-- the `while zero_indegree:` loop of `lexicographical_topological_sort` and the final `if indegree_map: raise`.
    The children whose count reaches zero are collected by `relaxChildren` and pushed right after the `for` loop; the
    heap is not read in between. -/
def lexLoop (nodes : List α) (E : List (α × α)) (key : α → Int) (m : IMap α) (h : List (Entry α)) : Run α :=
  match hpop : heapPop h with
  | none => ([], if m.isEmpty then none else some .NetworkXUnfeasible)
  | some (e, h') =>
    if e.2.2 ∉ nodes then ([], some .RuntimeError)
    else
      match hr : relaxChildren m [] (neighbors E e.2.2) with
      | .error err => ([], some err)
      | .ok r =>
        let rest := lexLoop nodes E key r.1 (pushAll nodes key h' r.2)
        (e.2.2 :: rest.1, rest.2)
termination_by m.length + h.length
decreasing_by
  have h1 := relaxChildren_measure _ hr
  have h2 := heapPop_length hpop
  simp only [pushAll, List.length_append, List.length_map, List.length_nil] at h1 ⊢
  omega

/-- the generator `networkx.lexicographical_topological_sort(G, key)` -/
def lexTopoRun (nodes : List α) (E : List (α × α)) (key : α → Int) : Run α :=
  lexLoop nodes E key (indegreeMap nodes E) ((zeroIndegree nodes E).map (createTuple nodes key))

/-- `list(networkx.lexicographical_topological_sort(G, key))` -/
def nxLexTopo (nodes : List α) (E : List (α × α)) (key : α → Int) : Except NxErr (List α) :=
  (lexTopoRun nodes E key).toExcept

/-! ### `all_topological_sorts` -/

/-- the state of the `while True` loop; `D`, `bases`, `cs` (= `current_sort`) are stored reversed -/
structure AllSt (α : Type) where
  count : IMap α
  D : List α
  bases : List α
  cs : List α
  deriving Repr

/-- `count[j] += δ; assert count[j] >= 0` -/
def bump (count : IMap α) (j : α) (δ : Int) : Except NxErr (IMap α × Int) :=
  match count.lookup j with
  | none => .error .KeyError
  | some d => if d + δ < 0 then .error .AssertionError else .ok (IMap.set count j (d + δ), d + δ)

/-- forward: `for _, j in G.out_edges(q): count[j] -= 1; assert count[j] >= 0; if count[j] == 0: D.append(j)` -/
def eraseEdges (count : IMap α) (D : List α) : List α → Except NxErr (IMap α × List α)
  | [] => .ok (count, D)
  | j :: js =>
    match bump count j (-1) with
    | .error e => .error e
    | .ok r => eraseEdges r.1 (if r.2 = 0 then j :: D else D) js

/-- backward: `for _, j in G.out_edges(q): count[j] += 1; assert count[j] >= 0` -/
def restoreEdges (count : IMap α) : List α → Except NxErr (IMap α)
  | [] => .ok count
  | j :: js =>
    match bump count j 1 with
    | .error e => .error e
    | .ok r => restoreEdges r.1 js

/-- `while len(D) > 0 and count[D[-1]] > 0: D.pop()` -/
def popPositive (count : IMap α) : List α → Except NxErr (List α)
  | [] => .ok []
  | d :: D =>
    match count.lookup d with
    | none => .error .KeyError
    | some c => if c > 0 then popPositive count D else .ok (d :: D)

/-- the clean-up loop `while len(current_sort) > 0: …`; returns the state at the `break` / at loop exit -/
def cleanup (E : List (α × α)) (count : IMap α) (D bases : List α) : List α → Except NxErr (AllSt α)
  | [] => .ok ⟨count, D, bases, []⟩
  | q :: cs =>
    if bases.length ≠ (q :: cs).length then .error .AssertionError
    else match restoreEdges count (neighbors E q) with
      | .error e => .error e
      | .ok count' =>
        match popPositive count' D with
        | .error e => .error e
        | .ok D' =>
          let D'' := D' ++ [q]
          match D''.head?, bases with
          | some d, b :: bases' => if d = b then cleanup E count' D'' bases' cs else .ok ⟨count', D'', bases, cs⟩
          | _, _ => .error .IndexError

/-- `assert all(count[v] == 0 for v in D)` -/
def assertZero (count : IMap α) : List α → Except NxErr Unit
  | [] => .ok ()
  | v :: D =>
    match count.lookup v with
    | none => .error .KeyError
    | some c => if c = 0 then assertZero count D else .error .AssertionError

/-- what one iteration of `while True` does -/
inductive AllStep (α : Type)
  | next (yielded : Option (List α)) (s : AllSt α)     -- falls through to the next iteration
  | stop (yielded : Option (List α))                   -- `if len(bases) == 0: break`
  | raise (yielded : Option (List α)) (e : NxErr)

/-- the test at the bottom of the loop body -/
def afterBody (yielded : Option (List α)) (s : AllSt α) : AllStep α :=
  if s.bases.length = 0 then .stop yielded else .next yielded s

/-- one iteration of `while True` (`n = len(G)`) -/
def allStep (n : Nat) (E : List (α × α)) (s : AllSt α) : AllStep α :=
  match assertZero s.count s.D with
  | .error e => .raise none e
  | .ok _ =>
    if s.cs.length = n then
      match cleanup E s.count s.D s.bases s.cs with
      | .error e => .raise (some s.cs.reverse) e
      | .ok s' => afterBody (some s.cs.reverse) s'
    else
      match s.D with
      | [] => .raise none .NetworkXUnfeasible
      | q :: D =>
        match eraseEdges s.count D (neighbors E q) with
        | .error e => .raise none e
        | .ok r =>
          let cs := q :: s.cs
          afterBody none ⟨r.1, r.2, if s.bases.length < cs.length then q :: s.bases else s.bases, cs⟩

/-- iterate `allStep`; `acc` holds the yielded orders, last first -/
def allRun (n : Nat) (E : List (α × α)) : Nat → AllSt α → List (List α) → Run (List α)
  | 0, _, acc => (acc.reverse, some .OutOfFuel)
  | fuel + 1, s, acc =>
    match allStep n E s with
    | .next y s' => allRun n E fuel s' (match y with | some o => o :: acc | none => acc)
    | .stop y => ((match y with | some o => o :: acc | none => acc).reverse, none)
    | .raise y e => ((match y with | some o => o :: acc | none => acc).reverse, some e)

/-- an upper bound for the number of iterations on a graph with `r` nodes -/
def allFuel : Nat → Nat
  | 0 => 1
  | r + 1 => (r + 1) * (1 + allFuel r)

/-- `count = dict(G.in_degree())`, `D = deque([v for v, d in G.in_degree() if d == 0])`, `bases = []`, `current_sort = []` -/
def allInit (nodes : List α) (E : List (α × α)) : AllSt α :=
  ⟨nodes.map (fun v => (v, (inDegree E v : Int))), (zeroIndegree nodes E).reverse, [], []⟩

/-- the generator `networkx.all_topological_sorts(G)` -/
def allTopoRun (nodes : List α) (E : List (α × α)) : Run (List α) :=
  allRun nodes.length E (allFuel nodes.length + 1) (allInit nodes E) []

/-- `list(networkx.all_topological_sorts(G))` -/
def nxAllTopologicalSorts (nodes : List α) (E : List (α × α)) : Except NxErr (List (List α)) :=
  (allTopoRun nodes E).toExcept

-- diamond with a tail: generations, flat order, lexicographic order with keys, all orders; a 2-cycle
#eval (nxTopologicalGenerations [5, 4, 3, 2, 1] [(1, 2), (1, 3), (2, 4), (3, 4), (4, 5)],
       nxTopologicalSort [5, 4, 3, 2, 1] [(1, 3), (1, 2), (2, 4), (3, 4), (4, 5)],
       nxLexTopo [5, 4, 3, 2, 1] [(1, 3), (1, 2), (2, 4), (3, 4), (4, 5)] (fun v => if v = 3 then 1 else 0),
       nxAllTopologicalSorts [5, 4, 3, 2, 1] [(1, 3), (1, 2), (2, 4), (3, 4), (4, 5)],
       nxIsDirectedAcyclicGraph [5, 4, 3, 2, 1] [(1, 3), (1, 2), (2, 4), (3, 4), (4, 5)])
#eval (nxTopologicalSort [1, 2, 3] [(1, 2), (2, 3), (3, 2)], nxIsDirectedAcyclicGraph [1, 2, 3] [(1, 2), (2, 3), (3, 2)],
       nxAllTopologicalSorts [1, 2, 3] [(1, 2), (2, 3), (3, 2)], nxAllTopologicalSorts ([] : List Nat) [],
       nxAllTopologicalSorts [1, 2, 3] [])

end CG.NxTopo
