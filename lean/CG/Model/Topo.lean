/-
Topological orders over an edge list (no Mathlib, linked into the driver).

`CausalGraph.get_topological_order` delegates to networkx (`topological_sort`, `all_topological_sorts`),
so the model side is definitional:

* `allTopo E nodes` enumerates every linear extension by repeatedly choosing an available node
  (no predecessor among the remaining nodes); fuel is fixed to `nodes.length`;
* `isTopoOrder E nodes o` is the validity predicate applied to the single order the implementation
  returns (permutation of the nodes, every edge between nodes points forward).

`TimeSeriesCausalGraph.get_topological_order` (default `respect_time_ordering=True`):

* single order: `networkx.lexicographical_topological_sort(key = time_lag)`; `kahnByLag` is Kahn's
  algorithm that always removes the available node of minimal key, ties broken by position in the
  remaining list (networkx breaks ties by node index in the digraph's iteration order; when `nodes` is that
  order the two coincide, but only validity and time-sortedness are claimed);
* `return_all=True`: the code maps `_get_time_topological_order` over all orders and keeps the results with
  `tmp is not None`.  `timeOrder` is that helper as written (adjacent pairs only, returns `None` when a lag
  decreases, otherwise the list itself) and `timeFilter` is the loop as written: every `some` is kept, so the
  empty graph yields `[[]]` (this is the code after the repair of D14, DESIGN.md section 7; before it the
  sentinel was `[]` and the empty order was dropped).
-/
import CG.Model.EdgeList
set_option linter.unusedSectionVars false
set_option linter.unusedSimpArgs false

namespace CG.Topo
variable {α : Type} [DecidableEq α]

/-- `x` has no predecessor inside `rem` -/
def availB (E : List (α × α)) (rem : List α) (x : α) : Bool := E.all (fun e => !(e.2 = x && e.1 ∈ rem))

/-- all orders of `rem` obtained by repeatedly removing an available node -/
def allTopoAux (E : List (α × α)) : Nat → List α → List (List α)
  | 0, rem => if rem = [] then [[]] else []
  | f + 1, rem =>
    if rem = [] then [[]]
    else (rem.filter (availB E rem)).flatMap (fun x => (allTopoAux E f (rem.erase x)).map (x :: ·))

/-- `networkx.all_topological_sorts` (as a set): every linear extension of `E` on `nodes` -/
def allTopo (E : List (α × α)) (nodes : List α) : List (List α) := allTopoAux E nodes.length nodes

/-- validity of an order returned by the implementation: a permutation of `nodes` in which every edge
    between two nodes points forward -/
def isTopoOrder (E : List (α × α)) (nodes o : List α) : Bool :=
  o.isPerm nodes && E.all (fun e => !(e.1 ∈ nodes && e.2 ∈ nodes) || decide (o.idxOf e.1 < o.idxOf e.2))

/-- first element of minimal key -/
def pickMin (key : α → Int) : List α → Option α
  | [] => none
  | x :: xs => match pickMin key xs with
    | none => some x
    | some m => if key x ≤ key m then some x else some m

def kahnAux (E : List (α × α)) (key : α → Int) : Nat → List α → Option (List α)
  | 0, rem => if rem = [] then some [] else none
  | f + 1, rem =>
    if rem = [] then some []
    else match pickMin key (rem.filter (availB E rem)) with
      | none => none
      | some x => (kahnAux E key f (rem.erase x)).map (x :: ·)

/-- lexicographic Kahn keyed by lag; `none` when no node is available (cyclic input) -/
def kahnByLag (E : List (α × α)) (key : α → Int) (nodes : List α) : Option (List α) :=
  kahnAux E key nodes.length nodes

/-- the scan of `_get_time_topological_order`: no adjacent pair with a decreasing lag -/
def lagsSorted (key : α → Int) : List α → Bool
  | [] => true
  | [_] => true
  | a :: b :: rest => if key a > key b then false else lagsSorted key (b :: rest)

/-- `_get_time_topological_order`: the list itself when time-sorted, otherwise `None` -/
def timeOrder (key : α → Int) (o : List α) : Option (List α) := if lagsSorted key o then some o else none

/-- the `return_all` loop: `tmp = _get_time_topological_order(o); if tmp is not None: append(tmp)` -/
def timeFilter (key : α → Int) (orders : List (List α)) : List (List α) :=
  orders.filterMap (timeOrder key)

/-- `TimeSeriesCausalGraph.get_topological_order(return_all=True)` (as a set) -/
def allTimeTopo (E : List (α × α)) (key : α → Int) (nodes : List α) : List (List α) :=
  timeFilter key (allTopo E nodes)

end CG.Topo
