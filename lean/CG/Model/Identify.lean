/-
Model of `cai_causal_graph/identify_utils.py`: `_verify_identify_inputs`, `identify_confounders`,
`identify_instruments`, `identify_mediators` over a node list and a directed edge list.  No Mathlib.

Transcription notes
* `_identify_confounders_no_checks_no_descendant_pruning_networkx` removes the out-edges of both nodes from the
  (shared, mutable) digraph, loops over the parents of `n1`, recurses on the *already pruned* graph and restores the
  removed edges only after the loop; every nested call therefore sees the pruning of all its callers, and two sibling
  calls see the same graph.  Here: the pruned edge list is passed down (`prune`), nothing has to be restored.
  The Python recursion climbs one parent per level, so on a DAG its depth is at most the number of nodes: fuel.
* `networkx.ancestors` / `descendants` are strict (the node itself is never a member): `ancestors`, `descendants`.
* `get_all_causal_paths` = `networkx.all_simple_paths` (depth-first in adjacency order) = `CG.Paths.paths` in the order
  of the edge list; `[]` when source = destination.
* results are Python sets turned into lists: the model returns lists (possibly with repetitions); the driver sorts
  and removes duplicates, the theorems speak about membership.
* `identify_mediators` is modelled as REPAIRED (defects D13 and D16): no `break` in the last filter loop, and the
  end points are removed as identifiers (`path.difference({source_id, destination_id})`); the code as it stands
  removes the *characters* of the two identifiers.
* inner calls of `identify_confounders` from the other two functions re-run `_verify_identify_inputs`; it cannot fire
  there (same graph, nodes known, candidate ≠ destination: see `CG.C19.instruments_ne_destination`), so the inner
  calls are the unchecked `identifyConfounders`.
-/
import CG.Model.EdgeList
import CG.Model.Paths

namespace CG.Ident
open CG.EL (reach rev preds succs)

inductive Err
  | typeError
  | nodeDoesNotExistError
  | valueError
  deriving DecidableEq, Repr

def Err.name : Err → String
  | .typeError => "TypeError"
  | .nodeDoesNotExistError => "NodeDoesNotExistError"
  | .valueError => "ValueError"

abbrev Edges := List (String × String)

/-- `networkx.is_directed_acyclic_graph`: no edge `a → b` with `b ⇝ a` -/
def acyclicB (E : Edges) : Bool := E.all (fun e => decide (e.1 ∉ reach E e.2))

/-- `networkx.ancestors(G, n)`: every node with a directed path to `n`, `n` itself excluded -/
def ancestors (E : Edges) (n : String) : List String := (reach (rev E) n).filter (fun a => decide (a ≠ n))

/-- `networkx.descendants(G, n)` -/
def descendants (E : Edges) (n : String) : List String := (reach E n).filter (fun a => decide (a ≠ n))

/-- `_verify_identify_inputs(graph, node_1, node_2)` for a `CausalGraph`: `none` = the inputs pass.
    `fullyDirected` is `CausalGraph._is_fully_directed()`; `E` are the directed edges. -/
def verifyInputs (fullyDirected : Bool) (nodes : List String) (E : Edges) (x y : String) : Option Err :=
  if !(fullyDirected && acyclicB E) then some .typeError
  else if x ∉ nodes then some .nodeDoesNotExistError
  else if y ∉ nodes then some .nodeDoesNotExistError
  else if x = y then some .valueError
  else none

/-- remove every edge leaving `n1` or `n2` -/
def prune (E : Edges) (n1 n2 : String) : Edges := E.filter (fun e => decide (e.1 ≠ n1) && decide (e.1 ≠ n2))

/-- `_identify_confounders_no_checks_no_descendant_pruning_networkx(clean_graph, n1, n2)` -/
def confoundersOneSided : Nat → Edges → String → String → List String
  | 0, _, _, _ => []
  | f + 1, E, n1, n2 =>
    (preds (prune E n1 n2) n1).flatMap fun p =>
      if p ∈ ancestors (prune E n1 n2) n2 then [p] else confoundersOneSided f (prune E n1 n2) p n2

/-- body of `identify_confounders` after the input checks: intersection of the two one-sided searches -/
def identifyConfounders (nodes : List String) (E : Edges) (x y : String) : List String :=
  (confoundersOneSided nodes.length E x y).filter (fun z => decide (z ∈ confoundersOneSided nodes.length E y x))

/-- the same answer as a duplicate-free list in the order of `nodes` (a canonical form of the returned set) -/
def confounderSet (nodes : List String) (E : Edges) (x y : String) : List String :=
  nodes.filter (fun z => decide (z ∈ identifyConfounders nodes E x y))

def identifyConfoundersChecked (fullyDirected : Bool) (nodes : List String) (E : Edges) (x y : String) :
    Except Err (List String) :=
  match verifyInputs fullyDirected nodes E x y with
  | some e => .error e
  | none => .ok (identifyConfounders nodes E x y)

/-- `CausalGraph.get_all_causal_paths(a, b)` -/
def allPaths (nodes : List String) (E : Edges) (a b : String) : List (List String) :=
  if a = b then [] else CG.Paths.paths E b nodes.length a []

/-- the scan `for i, causal_path in enumerate(paths): if i > max_num_paths: raise; if source not in path: break`:
    `true` iff the `ValueError` is raised -/
def overflow (s : String) (maxP : Int) : Nat → List (List String) → Bool
  | _, [] => false
  | i, p :: rest => if (i : Int) > maxP then true else if s ∉ p then false else overflow s maxP (i + 1) rest

/-- body of `identify_instruments` after the input checks -/
def identifyInstruments (nodes : List String) (E : Edges) (s t : String) (maxP : Int) : Except Err (List String) :=
  if t ∈ ancestors E s then .ok []
  else
    let confs := identifyConfounders nodes E s t
    let c0 := (ancestors E s).filter (fun i => decide (i ∉ confs))
    let c1 := c0.filter (fun i => confs.all (fun c => decide (i ∉ descendants E c) && decide (i ∉ ancestors E c)))
    if c1.any (fun i => overflow s maxP 0 (allPaths nodes E i t)) then .error .valueError
    else
      let c2 := c1.filter (fun i => (allPaths nodes E i t).all (fun p => decide (s ∈ p)))
      .ok (c2.filter (fun i => (identifyConfounders nodes E i t).isEmpty))

def identifyInstrumentsChecked (fullyDirected : Bool) (nodes : List String) (E : Edges) (s t : String) (maxP : Int) :
    Except Err (List String) :=
  match verifyInputs fullyDirected nodes E s t with
  | some e => .error e
  | none => identifyInstruments nodes E s t maxP

/-- `set.intersection(*sets)` for a non-empty list of sets -/
def interAll : List (List String) → List String
  | [] => []
  | p :: rest => p.filter (fun m => rest.all (fun q => decide (m ∈ q)))

/-- `path.difference({source_id, destination_id})` (repaired form, D16) -/
def strip (s t : String) (p : List String) : List String := p.filter (fun m => decide (m ≠ s) && decide (m ≠ t))

/-- body of `identify_mediators` after the input checks (repaired form: D13, D16) -/
def identifyMediators (nodes : List String) (E : Edges) (s t : String) (maxP : Int) : Except Err (List String) :=
  if t ∈ ancestors E s then .ok []
  else
    let confs := identifyConfounders nodes E s t
    let ps := allPaths nodes E s t
    -- `enumerate`: the index of the last path is `len - 1`; the error needs at least one path
    if ps ≠ [] ∧ ((ps.length : Int) - 1 > maxP) then .error .valueError
    else
      let long := ps.filter (fun p => decide (p.length > 2))
      if long.isEmpty then .ok []
      else
        let cands := interAll (long.map (strip s t))
        let pruned := E.filter (fun e => decide (e.1 ≠ s))
        .ok (cands.filter (fun m => confs.all (fun c => decide (m ∉ descendants pruned c))))

def identifyMediatorsChecked (fullyDirected : Bool) (nodes : List String) (E : Edges) (s t : String) (maxP : Int) :
    Except Err (List String) :=
  match verifyInputs fullyDirected nodes E s t with
  | some e => .error e
  | none => identifyMediators nodes E s t maxP

end CG.Ident
