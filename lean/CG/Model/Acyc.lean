/-
Cycle check of the implementation over an edge list (no Mathlib, linked into the driver).

`selfDep E id` mirrors `CausalGraph._assert_node_does_not_depend_on_itself` as written:

    checked = set(); to_check = [identifier]
    while to_check:
        current = to_check.pop()                      # pops from the END
        if current == identifier and len(checked) > 0: raise AssertionError
        if current not in checked:
            checked.add(current)
            for edge in inbound_edges(current): to_check.append(edge.source)

The stack `to_check` is a `List` whose HEAD is the END of the Python list (the next element popped).
Appending the sources `p1 … pk` of the inbound edges in list order therefore puts `pk` on top:
the new stack is `(preds E cur).reverse ++ todo`.  `true` means the Python raises.

No fuel: the loop terminates by the potential `todo.length + #{edges whose destination is unchecked}`.

`anySelfDep E nodes` is the deferred validation loop of `from_adjacency_matrix`
(`for node in nodes: graph._assert_node_does_not_depend_on_itself(node)`): the first node, in list
order, on which the check raises.  `acyclicB E nodes` is "no node of `nodes` depends on itself".
-/
import CG.Model.EdgeList
set_option linter.unusedSectionVars false
set_option linter.unusedSimpArgs false
set_option linter.unusedVariables false

namespace CG.Acyc
variable {α : Type} [DecidableEq α]

open CG.EL (Rel preds)

theorem mem_preds {E : List (α × α)} {a p : α} : p ∈ preds E a ↔ Rel E p a := by
  unfold preds Rel
  simp only [List.mem_map, List.mem_filter, decide_eq_true_eq]
  constructor
  · rintro ⟨⟨x, y⟩, ⟨h1, h2⟩, h3⟩; simp at h2 h3; subst h2 h3; exact h1
  · intro h; exact ⟨(p, a), ⟨h, rfl⟩, rfl⟩

/-- edges whose destination has not been checked yet -/
def pendingD (E : List (α × α)) (checked : List α) : Nat := E.countP (fun e => decide (e.2 ∉ checked))

theorem preds_length (E : List (α × α)) (a : α) :
    (preds E a).length = E.countP (fun e => decide (e.2 = a)) := by
  unfold preds; simp [List.countP_eq_length_filter]

theorem pendingD_cons (E : List (α × α)) (checked : List α) (a : α) (ha : a ∉ checked) :
    pendingD E (a :: checked) + (preds E a).length = pendingD E checked := by
  rw [preds_length]; unfold pendingD
  induction E with
  | nil => simp
  | cons e E ih =>
    simp only [List.countP_cons]
    by_cases h1 : e.2 = a
    · have h2 : e.2 ∉ checked := by rw [h1]; exact ha
      have h3 : ¬ (e.2 ∉ a :: checked) := by simp [h1]
      simp_all; omega
    · by_cases h2 : e.2 ∈ checked
      · have h3 : ¬ (e.2 ∉ a :: checked) := by simp [h2]
        simp_all
      · have h3 : e.2 ∉ a :: checked := by simp [h1, h2]
        simp_all; omega

/-- the `while` loop; `todo` head = end of the Python list `to_check`; `true` = the loop raises -/
def go (E : List (α × α)) (id : α) (todo checked : List α) : Bool :=
  match todo with
  | [] => false
  | cur :: todo =>
    if cur = id ∧ checked ≠ [] then true
    else if h : cur ∈ checked then go E id todo checked
    else go E id ((preds E cur).reverse ++ todo) (cur :: checked)
termination_by todo.length + pendingD E checked
decreasing_by
  · simp
  · have := pendingD_cons E checked cur h
    simp only [List.length_append, List.length_cons, List.length_reverse]; omega

/-- `true` iff `_assert_node_does_not_depend_on_itself(id)` raises `AssertionError` -/
def selfDep (E : List (α × α)) (id : α) : Bool := go E id [id] []

/-- the validation loop of `from_adjacency_matrix`: first node (list order) whose check raises -/
def anySelfDep (E : List (α × α)) (nodes : List α) : Option α := nodes.find? (selfDep E)

/-- no node of `nodes` depends on itself -/
def acyclicB (E : List (α × α)) (nodes : List α) : Bool := nodes.all (fun n => !selfDep E n)

end CG.Acyc
