/-
Markov boundary (`identify_markov_boundary`) and colliders (`identify_colliders`) of
`cai_causal_graph/identify_utils.py`, as total list functions.  No Mathlib.

* `markovBoundary E n`   parents ∪ children ∪ (parents of children minus `n`), over a directed edge list
* `identifyMarkovBoundary`, `skeletonBoundary`   the same with the argument checks of `_verify_identify_inputs`
* `colliders TE nodes unshieldedOnly`   over a *typed* edge list (any of the six edge types, stored orientation)
-/
import CG.Model.DSep
set_option linter.unusedSectionVars false
set_option linter.unusedSimpArgs false

namespace CG.MB
variable {α : Type} [DecidableEq α]

open CG.DSepDec (Err isDag)

/-- duplicate-free copy of a list (a Python `set` built from it) -/
def dedup : List α → List α
  | [] => []
  | a :: l => if a ∈ dedup l then dedup l else a :: dedup l

theorem mem_dedup {a : α} : ∀ {l : List α}, a ∈ dedup l ↔ a ∈ l
  | [] => by simp [dedup]
  | b :: l => by
    simp only [dedup]
    split
    · rename_i h
      rw [mem_dedup (l := l), List.mem_cons]
      constructor
      · exact Or.inr
      · rintro (rfl | h')
        · exact mem_dedup.mp h
        · exact h'
    · simp only [List.mem_cons, mem_dedup (l := l)]

theorem nodup_dedup : ∀ (l : List α), (dedup l).Nodup
  | [] => by simp [dedup]
  | b :: l => by
    simp only [dedup]
    split
    · exact nodup_dedup l
    · rename_i h
      exact List.nodup_cons.mpr ⟨h, nodup_dedup l⟩

/-! ## Markov boundary of a DAG -/

/-- `graph.get_parents(n)` on a fully directed graph -/
def parents (E : List (α × α)) (n : α) : List α := CG.EL.preds E n

/-- `graph.get_children(n)` on a fully directed graph -/
def children (E : List (α × α)) (n : α) : List α := CG.EL.succs E n

theorem mem_parents {E : List (α × α)} {n m : α} : m ∈ parents E n ↔ (m, n) ∈ E := by
  unfold parents CG.EL.preds
  simp only [List.mem_map, List.mem_filter, decide_eq_true_eq]
  constructor
  · rintro ⟨⟨x, y⟩, ⟨h1, h2⟩, h3⟩; simp at h2 h3; subst h2 h3; exact h1
  · intro h; exact ⟨(m, n), ⟨h, rfl⟩, rfl⟩

theorem mem_children {E : List (α × α)} {n m : α} : m ∈ children E n ↔ (n, m) ∈ E :=
  CG.EL.mem_succs

/-- `set(parents) | child_set | {p for c in child_set for p in parents(c) if p != n}` -/
def markovBoundary (E : List (α × α)) (n : α) : List α :=
  dedup (parents E n ++ children E n ++
    (children E n).flatMap (fun c => (parents E c).filter (fun p => p ≠ n)))

/-- `identify_markov_boundary(graph: CausalGraph, node)`: `TypeError` unless the graph is a DAG,
    `NodeDoesNotExistError` for an unknown node -/
def identifyMarkovBoundary (fd : Bool) (nodes : List α) (E : List (α × α)) (n : α) : Except Err (List α) :=
  if !isDag fd E then .error .TypeError
  else if n ∉ nodes then .error .NodeDoesNotExistError
  else .ok (markovBoundary E n)

/-! ## typed edges: neighbours, colliders, skeleton boundary -/

inductive EdgeKind
  | directed            -- `->`
  | undirected          -- `--`
  | bidirected          -- `<>`
  | unknown             -- `oo`
  | unknownDirected     -- `o>`
  | unknownUndirected   -- `o-`
  deriving DecidableEq, Repr

/-- `graph.get_neighbors(n)`: the other end of every edge of any type stored with `n` at either end -/
def neighbours (TE : List (α × α × EdgeKind)) (n : α) : List α :=
  (dedup ((TE.filter (fun e => e.1 = n)).map (fun e => e.2.1) ++
          (TE.filter (fun e => e.2.1 = n)).map (fun e => e.1))).filter (fun m => m ≠ n)

/-- `graph.get_edge(s, d)`: the edge stored under exactly this orientation -/
def edgeAt (TE : List (α × α × EdgeKind)) (s d : α) : Option EdgeKind :=
  (TE.find? (fun e => e.1 = s ∧ e.2.1 = d)).map (fun e => e.2.2)

/-- `graph.edge_exists(s, d)` (stored orientation only, any type) -/
def edgeExists (TE : List (α × α × EdgeKind)) (s d : α) : Bool := (edgeAt TE s d).isSome

/-- `[(e.source, e.destination) for e in graph.get_bidirected_edges()]` -/
def bidirectedPairs (TE : List (α × α × EdgeKind)) : List (α × α) :=
  (TE.filter (fun e => e.2.2 = EdgeKind.bidirected)).map (fun e => (e.1, e.2.1))

/-- the neighbours that send an arrowhead into `n` -/
def potentialParents (TE : List (α × α × EdgeKind)) (n : α) : List α :=
  (neighbours TE n).filter fun m =>
    (edgeExists TE m n && decide (edgeAt TE m n = some EdgeKind.directed)) ||
    (decide ((m, n) ∈ bidirectedPairs TE) || decide ((n, m) ∈ bidirectedPairs TE))

/-- some two distinct members are joined by an edge of any type in either stored orientation -/
def shielded (TE : List (α × α × EdgeKind)) (ps : List α) : Bool :=
  ps.any fun p1 => ps.any fun p2 => decide (p1 ≠ p2) && (edgeExists TE p1 p2 || edgeExists TE p2 p1)

/-- `identify_colliders(graph, unshielded_only)` -/
def colliders (TE : List (α × α × EdgeKind)) (nodes : List α) (unshieldedOnly : Bool) : List α :=
  nodes.filter fun n =>
    decide (2 ≤ (potentialParents TE n).length) &&
      (!unshieldedOnly || !shielded TE (potentialParents TE n))

/-- `identify_markov_boundary(graph: Skeleton, node)` -/
def skeletonBoundary (nodes : List α) (TE : List (α × α × EdgeKind)) (n : α) : Except Err (List α) :=
  if n ∉ nodes then .error .NodeDoesNotExistError else .ok (neighbours TE n)

/-- `_is_fully_directed()` -/
def fullyDirected (TE : List (α × α × EdgeKind)) : Bool := TE.all (fun e => e.2.2 = EdgeKind.directed)

/-- the (source, destination) pairs of a typed edge list -/
def pairs (TE : List (α × α × EdgeKind)) : List (α × α) := TE.map (fun e => (e.1, e.2.1))

end CG.MB
