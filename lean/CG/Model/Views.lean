/-
Read views of the graph, each computed the way the corresponding Python reader computes it (which index it
reads, which order it returns).  `C01.lean` proves each of them equal to its one-line definition over the
abstract graph and proves the documented sort orders.

No Mathlib: this file is linked into the driver.
-/
import CG.Model.Ops

namespace CG
open Std

/-- `get_node_names()` : sorted identifiers -/
def getNodeNames (g : Graph) : List String := g.nodes.keys

/-- `get_nodes()` : nodes sorted by identifier -/
def getNodes (g : Graph) : List (String × NodeRec) := g.nodes.toList

/-- `get_nodes(identifier)` : the node or nothing -/
def getNodes1 (g : Graph) (n : String) : List (String × NodeRec) :=
  match g.nodes[n]? with | some r => [(n, r)] | none => []

/-- `get_nodes([ids])` : in argument order, `ValueError` on the first missing one -/
def getNodesL (g : Graph) : List String → Except Err (List (String × NodeRec))
  | [] => .ok []
  | n :: ns =>
    match g.nodes[n]? with
    | none => .error .valueError
    | some r => (getNodesL g ns).map ((n, r) :: ·)

def nodeExists (g : Graph) (n : String) : Bool := g.nodes.contains n

def tyOk (ty? : Option EdgeType) (r : EdgeRec) : Bool :=
  match ty? with | none => true | some t => decide (r.ty = t)

/-- `get_edges(source?, destination?, edge_type=?)` in its four source / destination forms -/
def getEdges (g : Graph) (s? d? : Option String) (ty? : Option EdgeType) : List (EKey × EdgeRec) :=
  let base : List (EKey × EdgeRec) :=
    match s?, d? with
    | none, none => g.edges.toList
    | some s, some d => match g.edges[(s, d)]? with | some r => [((s, d), r)] | none => []
    | none, some d => g.edges.toList.filter (fun kv => kv.1.2 = d)
    | some s, none => g.edges.toList.filter (fun kv => kv.1.1 = s)
  base.filter (fun kv => tyOk ty? kv.2)

/-- `get_edge(source, destination, edge_type=?)` -/
def getEdge (g : Graph) (s d : String) (ty? : Option EdgeType) : Except Err EdgeRec :=
  match g.edges[(s, d)]? with
  | none => .error .edgeDoesNotExist
  | some r => if tyOk ty? r then .ok r else .error .edgeDoesNotExist

/-- `edge_exists(source, destination, edge_type=?)` -/
def edgeExists (g : Graph) (s d : String) (ty? : Option EdgeType) : Bool :=
  match g.edges[(s, d)]? with
  | none => false
  | some r => tyOk ty? r

def getEdgePairs (g : Graph) : List EKey := g.edges.keys

/-- `get_directed_edges()` and its five siblings -/
def edgesOfType (g : Graph) (t : EdgeType) : List (EKey × EdgeRec) := g.edges.toList.filter (fun kv => kv.2.ty = t)
/-- `get_nondirected_edges()` -/
def edgesNotOfType (g : Graph) (t : EdgeType) : List (EKey × EdgeRec) := g.edges.toList.filter (fun kv => kv.2.ty ≠ t)

/-- `get_parents(n)` : sources of the directed edges into `n` (a set in Python; sorted here) -/
def getParents (g : Graph) (n : String) : Except Err (List String) :=
  if !g.hasNode n then .error .assertionError else
  .ok ((g.edges.toList.filter (fun kv => kv.1.2 = n ∧ kv.2.ty = .directed)).map (·.1.1))

/-- `get_children(n)` : destinations of the directed edges out of `n` -/
def getChildren (g : Graph) (n : String) : Except Err (List String) :=
  if !g.hasNode n then .error .assertionError else
  .ok ((g.edges.toList.filter (fun kv => kv.1.1 = n ∧ kv.2.ty = .directed)).map (·.1.2))

/-- insertion into a sorted duplicate-free list -/
def insSorted (x : String) : List String → List String
  | [] => [x]
  | y :: ys => if x < y then x :: y :: ys else if x = y then y :: ys else y :: insSorted x ys

def sortDedup (xs : List String) : List String := xs.foldr insSorted []

/-- `get_neighbors(n)` : the other endpoint of every edge touching `n`, any type (a set in Python; sorted here) -/
def getNeighbors (g : Graph) (n : String) : Except Err (List String) :=
  if !g.hasNode n then .error .assertionError else
  .ok (sortDedup (((g.edges.toList.filter (fun kv => kv.1.1 = n)).map (·.1.2)
        ++ (g.edges.toList.filter (fun kv => kv.1.2 = n)).map (·.1.1)).filter (· ≠ n)))

/-- `get_inputs()` : nodes that are the stored destination of no edge (any type) -/
def getInputs (g : Graph) : List String :=
  g.nodes.keys.filter (fun n => (g.edges.toList.filter (fun kv => kv.1.2 = n)).isEmpty)

/-- `get_outputs()` : nodes that are the stored source of no edge (any type) -/
def getOutputs (g : Graph) : List String :=
  g.nodes.keys.filter (fun n => (g.edges.toList.filter (fun kv => kv.1.1 = n)).isEmpty)

/-! ### DAG test -/

def isFullyDirected (g : Graph) : Bool := g.edges.toList.all (fun kv => kv.2.ty = .directed)
def isFullyUndirected (g : Graph) : Bool := g.edges.toList.all (fun kv => kv.2.ty = .undirected)

/-- `is_dag()` : every edge directed and no node on a directed cycle -/
def isDag (g : Graph) : Bool :=
  isFullyDirected g && g.nodes.keys.all (fun n => !selfDepR g.dirEdges n)

/-! ### time-series lookups (scans; the code keeps incremental indexes) -/

def nodesAtLag (g : Graph) (l : Int) : List String := (g.nodes.toList.filter (fun kv => kv.2.lag = l)).map (·.1)
def nodesForVariable (g : Graph) (v : String) : List String := (g.nodes.toList.filter (fun kv => kv.2.var = v)).map (·.1)
def variables (g : Graph) : List String := sortDedup (g.nodes.toList.map (·.2.var))
def contemporaneous (g : Graph) (n : String) : Except Err (List String) :=
  match g.nodes[n]? with
  | none => .error .keyError
  | some r => .ok ((nodesAtLag g r.lag).filter (· ≠ n))

def lagsOf (g : Graph) : List Int := g.nodes.toList.map (·.2.lag)
def listMax : List Int → Option Int
  | [] => none
  | x :: xs => some (xs.foldl max x)
def listMin : List Int → Option Int
  | [] => none
  | x :: xs => some (xs.foldl min x)
/-- `max_forward_lag` : largest lag among nodes with lag ≥ 0 (`None` when there is none) -/
def maxForwardLag (g : Graph) : Option Int := listMax ((lagsOf g).filter (· ≥ 0))
/-- `max_backward_lag` : |smallest lag| among nodes with lag ≤ 0 -/
def maxBackwardLag (g : Graph) : Option Int := (listMin ((lagsOf g).filter (· ≤ 0))).map (fun x => -x)

end CG
