import CG.Driver.Codec
