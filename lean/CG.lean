import CG.Driver.Codec
import CG.Model.EdgeList
