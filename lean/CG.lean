import CG.Driver.Codec
import CG.Model.EdgeList
import CG.Model.Paths
import CG.Model.DSep
