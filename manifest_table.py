"""Source of MANIFEST.json (run gen_manifest.py after editing)."""

FIX_COMMITS = []   # filled below from /repo's history

NOTES = ('Every check: regenerate source-derived Lean tables, lake build (kernel re-checks all theorems), audit '
         '(#print axioms per property theorem; grep for sorry/axiom/native_decide), corpus, correspondence lane '
         '(model vs implementation), oracle on the implementation, verdict. Exit 2 = machinery failure.')

_COMMON_NOTE = ('Trusted: Lean 4.33.0 kernel; axioms propext, Classical.choice, Quot.sound only; the hand-written model '
                '(lean/CG/Model) is modelled, not verified, code - its tie to /repo is the correspondence lane '
                '(measured on generated inputs, exhaustive on small universes where stated) and the generated tables; '
                'third-party routines (networkx, numpy, re, json) are assumed to agree with the definitional models and '
                'that agreement is measured by the lane. ')

CLAIMED = {
    'C01': dict(
        technique='Lean 4 proof (invariant by induction over operations + refinement of the write-then-undo mechanism to the '
                  'atomic reference model + view characterisations) with differential correspondence against the code',
        text='Theorems about the model: the state invariant WF (endpoints exist, no self-loop, one edge per unordered pair, '
             'time-series clauses) is preserved by every public mutator for every history; the mechanism-level mirror of the '
             'code equals the atomic reference operation; every read view equals its one-line definition over the edge map '
             'and is sorted as documented. The model is run side by side with the real graph on random and error-directed '
             'histories and all views are compared after every call.',
        note=_COMMON_NOTE + 'The two edge indexes and per-node lists of the code are views of one edge map in the model.'),
    'C02': dict(
        technique='Lean 4 proof (cycle test = transitive closure, acyclicity preserved by validated steps, is_dag exact) with '
                  'differential correspondence and brute-force oracle',
        text='Theorems: the cycle test equals membership in the transitive closure; inserting an edge keeps acyclicity iff the '
             'destination does not reach the source; validated histories stay acyclic; is_dag is exact without any '
             'validation hypothesis. Lane: histories with cycle-closing edges by every route, all small matrices and '
             'dictionaries through every constructor, validate on/off.',
        note=_COMMON_NOTE),
    'C03': dict(
        technique='Lean 4 proof (rollback sequences restore the exact extensional state) with differential correspondence and '
                  'before/after snapshots on the implementation',
        text='Theorem: under WF every mechanism-level mutator (insert-then-check-then-delete, create-nodes-then-reject, '
             'delete-then-add-then-restore, copy-loop-then-delete-node) equals the lifted atomic reference operation, hence a '
             'raising single-element mutator leaves the state equal (extensional maps: equal lookups). Lane: error-directed '
             'histories, full snapshot before/after every raising call.',
        note=_COMMON_NOTE),
    'C06': dict(
        technique='Lean 4 proof (location-labelled object model with a monotone allocator: every export / derived graph is '
                  'allocated fresh and separated from the graph heap) with differential correspondence on id()-sharing '
                  'matrices of the real objects',
        text='Theorems: for every export and derive recipe transcribed from the code (ref / shallow / deep per cell) the result '
             'lies in the interval of labels allocated by the call and is separated from the graph heap and from every older '
             'export, in any order of first / later calls; metadata cells of distinct nodes and edges of a derived graph are '
             'pairwise separated; the source is unchanged. to_dict is shallow: proved separated only for flat metadata '
             '(to_dict_separated_partial), the full statement is refuted by a decided counter-example and is the known '
             'finding D9. Lane: graphs with nested mutable metadata, every export API first / again / after mutating the '
             'previous export, sharing matrix of the real objects vs the prediction, deep-mutation oracle.',
        note=_COMMON_NOTE + 'networkx graphs and numpy arrays are one opaque cell; metadata whose sub-objects are shared between '
                            'containers is outside the model; partial for to_dict (D9, documented shallow copy).'),
    'C10': dict(
        technique='Lean 4 proof (each query characterised against the transitive closure / simple paths / induced sub-graphs '
                  'for every DAG) with differential correspondence against networkx-backed answers, exhaustive on small DAGs',
        text='Theorems for every acyclic edge list: ancestors/descendants/is_ancestor/common_* iff transitive closure; '
             'all causal paths = all simple directed paths, no duplicates; the code\'s own memoised nodes-between recursion '
             'terminates and equals {n | s reaches n reaches t}; directed_path_exists (fuel = |nodes|) iff a directed path; '
             'sub-graphs are the induced ones; cross-consistency, order- and renaming-invariance; all linear extensions. '
             'Lane: all labelled DAGs <= 4 (quick) / <= 5 (thorough) nodes, all nodes and pairs, mixed graphs on 3 nodes, '
             'relabelings, shuffled construction.',
        note=_COMMON_NOTE + 'networkx ancestors/descendants/all_simple_paths/topological sorts are assumed to agree with the '
                            'definitional model; measured exhaustively on the small universes.'),
    'C11': dict(
        technique='Lean 4 proof (boolean d-separation procedure = path-blocking definition for every edge list; minimal '
                  'separators characterised) with differential correspondence against networkx, exhaustive on small DAGs',
        text='Theorems: is_d_separated (sets, after argument coercion and the DAG/presence assertions) is true iff every path '
             'between X and Y is blocked by Z (non-collider in Z, or collider with no descendant-or-self in Z); '
             'is_minimally_d_separated iff Z separates and no element can be dropped; symmetry; coercion facts; the '
             'assertions of get_d_separation_set. Lane: every labelled DAG <= 4 nodes + sampled 5-node DAGs (quick) / all '
             '29 281 DAGs on 5 nodes (thorough), all pairs, all conditioning subsets, three argument forms; '
             'get_d_separation_set validated by predicate.',
        note=_COMMON_NOTE + 'networkx d_separated / minimal_d_separator / is_minimal_d_separator are assumed to compute the '
                            'definitional notions (measured exhaustively); with networkx 3.2.1 is_minimal_d_separator already '
                            'checks separation, so the extra conjunct in the code is exercised with a 3.1-style stand-in.'),
    'C12': dict(
        technique='Lean 4 proof (regex executed by hand in priority order: parse/format round trip for all names and lags) with '
                  'differential correspondence against re and the graph lookups',
        text='Theorems for every non-empty marker-free variable name and every integer lag: parse(fmt v k) = (v,k), relag law, '
             'lag 0 is the bare name, fmt injective; lookups equal scans over the current nodes; stored time-series nodes '
             'satisfy parse(identifier) = (variable, lag) after every history (WF.tsName). The pattern text is re-extracted '
             'from utils.py each run; the Unicode digit table is regenerated from the running interpreter.',
        note=_COMMON_NOTE + 'CPython\'s 4300-digit int limit is not modelled.'),
    'C13': dict(
        technique='Lean 4 proof (time clause of the state invariant preserved by every mutator; lexicographic Kahn keyed by lag '
                  'yields a time-sorted linear extension; filtered enumeration = time-sorted linear extensions) with '
                  'differential correspondence and brute-force oracle',
        text='Theorems: after any history every edge of a time-series graph is stored earlier -> later (so no directed edge '
             'points backwards in time); add_edge / add_time_edge / change_edge_type / replace_edge / replace_node that would '
             'store a directed edge against time return ValueError (replace_node: exactly then); Kahn-by-lag returns a valid '
             'time-sorted order on every DAG whose edges respect time; return_all = exactly the time-sorted linear extensions '
             '(incl. the empty graph after the D14 repair). Lane: histories aimed at time violations, plain graphs with '
             'violating edges converted, random lagged DAGs.',
        note=_COMMON_NOTE + 'networkx tie-breaking is not modelled: the default order is validated by predicate.'),
    'C20': dict(
        technique='Lean 4 proof (Markov boundary shields and is minimal, against the same d-separation definition as C11; '
                  'collider characterisation) with differential correspondence, exhaustive on small graphs',
        text='Theorems: identify_markov_boundary = parents, children, co-parents; conditioning on it d-separates the node from '
             'every other node (needs only no 2-cycles) and no member can be dropped; for a Skeleton exactly the neighbours; '
             'identify_colliders = nodes with >= 2 arrowhead-sending neighbours (directed or bidirected, either stored '
             'orientation), unshielded variant = those pairwise non-adjacent; error classes. Lane: all DAGs <= 5 nodes, all '
             'mixed graphs on 3 nodes, sampled on 4-5.',
        note=_COMMON_NOTE),
}

_P = 'check under construction in this round (model/lane/theorems not yet integrated); not claimed until its central theorem is proved and its lane is clean'
NOT_CLAIMED = {k: _P for k in ['C04', 'C05', 'C07', 'C08', 'C09', 'C14', 'C15', 'C16', 'C17', 'C18',
                               'C19']}

try:
    import subprocess
    out = subprocess.run(['git', '-C', '/repo', 'log', '--format=%H %s'], capture_output=True, text=True).stdout
    FIX_COMMITS = [ln.split()[0] for ln in out.splitlines() if ln.split(' ', 1)[1].startswith('fix:')][::-1]
except Exception:  # noqa: BLE001
    pass
