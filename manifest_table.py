"""Source of MANIFEST.json (run gen_manifest.py after editing)."""

FIX_COMMITS = []   # filled below from /repo's history

NOTES = ('Every check: regenerate source-derived Lean tables, lake build (kernel re-checks all theorems), audit '
         '(#print axioms per property theorem; grep for sorry/axiom/native_decide), corpus, correspondence lane '
         '(model vs implementation), oracle on the implementation, verdict. Exit 2 = machinery failure.')

_COMMON_NOTE = ('Trusted: Lean 4.33.0 kernel; axioms propext, Classical.choice, Quot.sound only; the hand-written model '
                '(lean/CG/Model) is modelled, not verified, code - its tie to /repo is the correspondence lane '
                '(measured on generated inputs, exhaustive on small universes where stated) and the generated tables; '
                'third-party routines (networkx, numpy, re, json) are assumed to agree with the definitional models and '
                'that agreement is measured by the lane. ')

CLAIMED = {
    'C01': dict(
        technique='Lean 4 proof (invariant by induction over operations + refinement of the write-then-undo mechanism to the '
                  'atomic reference model + view characterisations) with differential correspondence against the code',
        text='Theorems about the model: the state invariant WF (endpoints exist, no self-loop, one edge per unordered pair, '
             'time-series clauses) is preserved by every public mutator for every history; the mechanism-level mirror of the '
             'code equals the atomic reference operation; every read view equals its one-line definition over the edge map '
             'and is sorted as documented. The model is run side by side with the real graph on random and error-directed '
             'histories and all views are compared after every call.',
        note=_COMMON_NOTE + 'The redundant containers of the code (both edge indexes, per-node edge lists, lag / variable indexes) '
                            'have their own index-level model (CG.Indexed) proved to refine the one-map model for every history '
                            '(CG.IndexRefine.history_refines, Mirror invariant, reader agreement); the private containers of the real '
                            'object are compared with it after every call as white-box lines (recorded, never a verdict).'),
    'C02': dict(
        technique='Lean 4 proof (cycle test = transitive closure, acyclicity preserved by validated steps, is_dag exact) with '
                  'differential correspondence and brute-force oracle',
        text='Theorems: the cycle test equals membership in the transitive closure; inserting an edge keeps acyclicity iff the '
             'destination does not reach the source; validated histories stay acyclic; is_dag is exact without any '
             'validation hypothesis. Lane: histories with cycle-closing edges by every route, all small matrices and '
             'dictionaries through every constructor, validate on/off.',
        note=_COMMON_NOTE),
    'C03': dict(
        technique='Lean 4 proof (rollback sequences restore the exact extensional state) with differential correspondence and '
                  'before/after snapshots on the implementation',
        text='Theorem: under WF every mechanism-level mutator (insert-then-check-then-delete, create-nodes-then-reject, '
             'delete-then-add-then-restore, copy-loop-then-delete-node) equals the lifted atomic reference operation, hence a '
             'raising single-element mutator leaves the state equal (extensional maps: equal lookups). Lane: error-directed '
             'histories, full snapshot before/after every raising call.',
        note=_COMMON_NOTE),
    'C04': dict(
        technique='Lean 4 proof (cache coherence invariant over the decorator-wrapper semantics for arbitrary interleavings + '
                  'decided obligations over a decorator/writer table regenerated from the source) with differential '
                  'correspondence against fresh never-queried copies',
        text='Theorems: Coherent (every memoised field is empty or holds what its reader would compute now) holds initially, is '
             'preserved by every reader and by every public mutator including raising paths (the wrapper does not reset on a '
             'raise, but every write is followed by the normal return of some decorated call), hence every cached reader on any '
             'history equals the reader on a fresh object. Generated obligations (decide over the table extracted with ast each '
             'run): every direct index writer is covered by a decorated method, cached fields are a subset of cleared fields in '
             'both classes, no mutator reaches a memoising reader. Lane: query-mutate-query with every mutator (ok / raise / '
             'raise after nested reset) and every cached reader, compared with from_dict(to_dict(g)).',
        note=_COMMON_NOTE + 'time-series computations (minimal / stationary) enter the cache model as parameters.'),
    'C05': dict(
        technique='Lean 4 proof (from_dict(to_dict g) = g as equality of extensional states; idempotence; class conversions '
                  'characterised) with differential correspondence through json.dumps/loads',
        text='Theorems: from_dict(to_dict(g)) = g (validate off; on under acyclicity; cyclic refused), include_meta=False erases '
             'user metadata only, second serialisation identical, to_dict is a function of the two maps (construction order '
             'irrelevant), Skeleton round trip, plain->time-series conversion succeeds iff every name parses and no directed '
             'edge runs against time and then preserves identifiers, variable and edge types, user metadata minus the two '
             'reserved keys, every time-respecting edge unchanged (others swapped); time-series->plain preserves everything; '
             'from_causal_graph. Enum texts are proved equal to a table regenerated from type_definitions.py each run. The JSON '
             'text layer: json.loads(json.dumps(v)) = v for every tree of str / int / bool / None / list / dict, also with '
             'sort_keys and other separators, dumps injective, strict error cases (transcription of CPython json, proved).',
        note=_COMMON_NOTE + 'CPython json (encoder, decoder, scanner) is transcribed (CG.PyJson) and proved to round-trip on every '
                            'float-free tree (CG.C05Json.loads_dumps, 31 audited theorems); it is compared with the real json on every '
                            'dictionary of the lane; metadata values are opaque canonical JSON texts in the graph model. The extra hypothesis '
                            'PlainNorm is discharged for every reachable state (plainNorm_run, fromDict_toDict_run).'),
    'C07': dict(
        technique='Lean 4 proof (__eq__ transcribed incl. the raising reversed-pair fallback; characterised as a structural '
                  'equivalence) with differential correspondence on edited pairs; direction-agnostic type list regenerated from source',
        text='Theorems: graph __eq__ never raises; it is true iff same identifiers and per unordered pair the same type with '
             'matching orientation unless the type is one of the generated direction-agnostic list (pinned to --, <>, oo); '
             'reflexive, symmetric, transitive; != is the negation; deep equality adds variable types and node/edge metadata and '
             'implies shallow; the same for Skeleton, Node, Edge. Lane: (g, edit g) pairs over ten edit kinds, both classes, both '
             'argument orders, thorough: all pairs on 2 nodes and edit-distance <= 2 on 3 nodes.',
        note=_COMMON_NOTE),
    'C08': dict(
        technique='Lean 4 proof (entry law, exact refusal conditions, matrix / networkx / skeleton round trips, malformed input '
                  'refused for all inputs) with differential correspondence, exhaustive on small matrices',
        text='Theorems: A[i][j]=1 iff directed i->j or undirected i--j under the sorted node order; to_numpy / to_networkx / GML '
             'refuse exactly the unrepresentable graphs (no edge dropped or retyped); from_adjacency_matrix(*to_numpy g) and the '
             'networkx / skeleton round trips rebuild the same nodes, directed edges and undirected pairs, both classes; '
             'non-2D / non-square / non-binary / wrong name count refused for every input; a validated constructor accepts '
             'exactly the acyclic inputs; lagged-matrix entry law; the lagged round trip: on the property\'s domain '
             'from_adjacency_matrices(*to_numpy_by_lag()) followed by the minimal graph has the node identifiers, directed edges '
             'and undirected pairs of the minimal graph and compares == to it (attributes are not carried by matrices), a cyclic '
             'minimal graph is refused on validated re-import; also for construct_minimal=False.',
        note=_COMMON_NOTE + 'GML text layer (networkx generate_gml / parse_gml / escape / unescape) transcribed and proved to round-trip '
                            '(CG.C08Gml.parse_generate; exactly the labels "()" and "[]" do not survive) and compared with networkx on '
                            'every GML export of the lane; networkx.to_numpy_array transcribed and proved (CG.NxReach); numpy indexing assumed.'),
    'C09': dict(
        technique='Lean 4 proof (skeleton as a function of the current state: one undirected edge per adjacent pair, symmetric '
                  'adjacency, orientation-agnostic queries, round trips) with differential correspondence through a handle taken '
                  'before the history',
        text='Theorems (under WF): skeleton nodes = graph nodes with variable types; exactly one -- edge per adjacent pair and '
             'nothing else; adjacency matrix symmetric with 1 iff adjacent (proved on the literal two-writes loop); edge_exists / '
             'get_edge / get_neighbors ignore orientation; dictionary and matrix round trips. Liveness is definitional (the '
             'skeleton is a function of the state). Lane: handle obtained before a random history, every reader re-read after '
             'every mutation, round trips incl. copy().',
        note=_COMMON_NOTE),
    'C06': dict(
        technique='Lean 4 proof (location-labelled object model with a monotone allocator: every export / derived graph is '
                  'allocated fresh and separated from the graph heap) with differential correspondence on id()-sharing '
                  'matrices of the real objects',
        text='Theorems: for every export and derive recipe transcribed from the code (ref / shallow / deep per cell) the result '
             'lies in the interval of labels allocated by the call and is separated from the graph heap and from every older '
             'export, in any order of first / later calls; metadata cells of distinct nodes and edges of a derived graph are '
             'pairwise separated; the source is unchanged. to_dict is shallow: proved separated only for flat metadata '
             '(to_dict_separated_partial), the full statement is refuted by a decided counter-example and is the known '
             'finding D9. Lane: graphs with nested mutable metadata, every export API first / again / after mutating the '
             'previous export, sharing matrix of the real objects vs the prediction, deep-mutation oracle.',
        note=_COMMON_NOTE + 'networkx graphs and numpy arrays are one opaque cell; metadata whose sub-objects are shared between '
                            'containers is outside the model; partial for to_dict (D9, documented shallow copy).'),
    'C10': dict(
        technique='Lean 4 proof (each query characterised against the transitive closure / simple paths / induced sub-graphs '
                  'for every DAG) with differential correspondence against networkx-backed answers, exhaustive on small DAGs',
        text='Theorems for every acyclic edge list: ancestors/descendants/is_ancestor/common_* iff transitive closure; '
             'all causal paths = all simple directed paths, no duplicates; the code\'s own memoised nodes-between recursion '
             'terminates and equals {n | s reaches n reaches t}; directed_path_exists (fuel = |nodes|) iff a directed path; '
             'sub-graphs are the induced ones; cross-consistency, order- and renaming-invariance; all linear extensions. '
             'Lane: all labelled DAGs <= 4 (quick) / <= 5 (thorough) nodes, all nodes and pairs, mixed graphs on 3 nodes, '
             'relabelings, shuffled construction.',
        note=_COMMON_NOTE + 'networkx ancestors / descendants / all_simple_paths / topological_sort / all_topological_sorts: the '
                            'routines of 3.2.1 are transcribed (CG/Model/NxReach.lean, NxTopo.lean) and PROVED to compute the '
                            'definitional notions on every graph (CG.NxReachProofs, CG.NxTopoProofs: 70 theorems); the lane '
                            'compares what the code returns, order included, with the transcriptions run on the code\'s own '
                            'to_networkx() export; trusted: that the transcribed lines are what networkx runs.'),
    'C11': dict(
        technique='Lean 4 proof (boolean d-separation procedure = path-blocking definition for every edge list; the algorithm '
                  'networkx runs - leaf pruning, out-edge deletion, weak connectivity - transcribed and proved equivalent on every '
                  'DAG; minimal separators characterised) with differential correspondence against networkx, exhaustive on small DAGs',
        text='Theorems: is_d_separated (sets, after argument coercion and the DAG/presence assertions) is true iff every path '
             'between X and Y is blocked by Z (non-collider in Z, or collider with no descendant-or-self in Z); '
             'is_minimally_d_separated iff Z separates and no element can be dropped; symmetry; coercion facts; the '
             'assertions of get_d_separation_set; the transcription of networkx.d_separated (3.2.1) equals the model on every '
             'query of every DAG (nx_eq_model; no disjointness needed), its deque loop leaves exactly the ancestral graph for '
             'any deque order, its union-find rounds equal weak connectivity. Lane: every labelled DAG <= 4 nodes + sampled 5-node DAGs (quick) / all '
             '29 281 DAGs on 5 nodes (thorough), all pairs, all conditioning subsets, three argument forms; '
             'get_d_separation_set validated by predicate and compared with the transcription of networkx.minimal_d_separator; '
             'that transcription (ancestors, moral graph of the ancestral sub-graph, BFS with marks) is proved to return a '
             'minimal d-separator for every non-adjacent pair of every DAG (nxMinimalDSeparator_isMinimal), and the '
             'transcription of is_minimal_d_separator is proved equal to the definitional predicate for ALL u, v, Z '
             '(nxIsMinimalDSeparator_eq), via the moralisation theorem and the Tian-Paz closure step.',
        note=_COMMON_NOTE + 'networkx.d_separated: trusted only to be the ~30 lines transcribed in CG/Model/NxDSep.lean (read, and '
                            'measured on every query); minimal_d_separator / is_minimal_d_separator / _bfs_with_marks / moral_graph: trusted only '
                            'to be the lines transcribed in CG/Model/NxMinSep.lean (measured on the queries of the lane); with networkx 3.2.1 is_minimal_d_separator already '
                            'checks separation, so the extra conjunct in the code is exercised with a 3.1-style stand-in.'),
    'C12': dict(
        technique='Lean 4 proof (regex executed by hand in priority order: parse/format round trip for all names and lags) with '
                  'differential correspondence against re and the graph lookups',
        text='Theorems for every non-empty marker-free variable name and every integer lag: parse(fmt v k) = (v,k), relag law, '
             'lag 0 is the bare name, fmt injective; lookups equal scans over the current nodes; stored time-series nodes '
             'satisfy parse(identifier) = (variable, lag) after every history (WF.tsName). The pattern text is re-extracted '
             'from utils.py each run; the Unicode digit table is regenerated from the running interpreter.',
        note=_COMMON_NOTE + 'CPython\'s 4300-digit int limit is not modelled.'),
    'C13': dict(
        technique='Lean 4 proof (time clause of the state invariant preserved by every mutator; lexicographic Kahn keyed by lag '
                  'yields a time-sorted linear extension; filtered enumeration = time-sorted linear extensions) with '
                  'differential correspondence and brute-force oracle',
        text='Theorems: after any history every edge of a time-series graph is stored earlier -> later (so no directed edge '
             'points backwards in time); add_edge / add_time_edge / change_edge_type / replace_edge / replace_node that would '
             'store a directed edge against time return ValueError (replace_node: exactly then); Kahn-by-lag returns a valid '
             'time-sorted order on every DAG whose edges respect time; return_all = exactly the time-sorted linear extensions '
             '(incl. the empty graph after the D14 repair). Lane: histories aimed at time violations, plain graphs with '
             'violating edges converted, random lagged DAGs.',
        note=_COMMON_NOTE + 'networkx tie-breaking is not modelled: the default order is validated by predicate.'),
    'C14': dict(
        technique='Lean 4 proof (minimal-graph loop characterised against the template set on canonical names; fixed point; '
                  'test = equality with the recomputed minimal graph) with differential correspondence on template sets',
        text='Theorems under WF + canonical names + consistent templates: get_minimal_graph never raises; its edges are exactly '
             'one per template placed with destination at lag 0 and source at minus the time difference; its nodes are the '
             'template endpoints plus each remaining variable once at lag 0; metadata and variable types are those of the '
             'variable / template (VarConsistent); the result again satisfies the hypotheses with the same templates and '
             'variables and applying the operation again gives the same nodes and typed edges; is_minimal_graph is the '
             'transcribed equality test. Idempotence is proved as equality of full states (minimal_idem) and is_minimal_graph holds of '
             'every minimal graph. The matrix view is covered by C08 (lagged entry law).',
        note=_COMMON_NOTE),
    'C15': dict(
        technique='Lean 4 proof (the four extension loops folded into a pure insertion model and characterised against the '
                  'unrolling of the template set over the window) with differential correspondence over all (b, f, iap) combinations',
        text='Theorem extend_eq_unroll under WF + canonical names + consistent templates, for every window and both values of '
             'include_all_parents: extend_graph never raises (in particular the unguarded add_edge of the forward loop never '
             'meets an existing pair), its edges are exactly the minimal-graph edges plus the template copies ending at each t '
             'of the extension range (with the cut-off when include_all_parents is False), its nodes exactly every variable at '
             'every lag of the window plus copy endpoints, and the result again satisfies the hypotheses; negative steps raise '
             'AssertionError. Corollaries (parents shift-invariant, minimal graph preserved, monotone in the window, acyclic '
             'extension via the potential argument, attributes under VarConsistent) are proved as well.',
        note=_COMMON_NOTE),
    'C16': dict(
        technique='Lean 4 proof (stationary graph = completion of the template set over the graph\'s own window, derived from the '
                  'C14 and C15 theorems; test = modelled __eq__ with the completion, DAG required) with differential correspondence',
        text='Theorems under WF + canonical names + consistent templates + latest lag 0: get_stationary_graph never raises (IndexError '
             'only on the graph without nodes), contains every node and edge of the input, spans the same lag window with every '
             'variable at every lag, contains exactly the template copies that fit in the window, is itself stationary, is the '
             'least stationary super-graph over that window, and applying it again gives an equal graph; is_stationary_graph is '
             'false for every non-DAG and true iff the graph is a DAG and nothing is missing (every variable at every lag, every '
             'fitting copy). The temporary equality of the model is proved equal to the modelled __eq__ (C07). Idempotence as '
             'equality of FULL states holds when all nodes of a variable carry the same attributes (stationary_idem_state); the '
             'unconditional statement is false and refuted by a kernel-checked counter-example that reproduces on the code (the '
             'second application may take a variable\'s attributes from another lagged copy); the property itself does not ask for it.',
        note=_COMMON_NOTE + 'windows with a positive latest lag are outside the property (the code widens the window there).'),
    'C17': dict(
        technique='Lean 4 proof (collapse loop invariant over the sorted edge list: total on every time-series DAG, nodes = '
                  'variables, edge cases characterised) with differential correspondence on lagged DAGs with forced feedback',
        text='Theorems under WF + canonical names + is_dag: get_summary_graph succeeds and returns a well-formed plain graph '
             'with the graph metadata; its nodes are exactly the variables (floating ones included); no self-link; two '
             'distinct variables are adjacent iff some edge of the input links them; X -> Y iff links go only from X to Y; '
             'bidirected iff links go both ways; no other type. The repaired code (fix: commit for D11) is what is modelled.',
        note=_COMMON_NOTE),
    'C18': dict(
        technique='Lean 4 proof (confounder search transcribed with cumulative pruning: subset of common ancestors, symmetry, '
                  'input refusal; sufficiency refuted by a proved counter-example) with differential correspondence, exhaustive '
                  'on small DAGs',
        text='Theorems for every edge list: every returned node is a strict ancestor of both nodes; the answer is symmetric; '
             'empty iff no common ancestor after pruning (DAG); non-DAG / unknown node / x = y refused in the code\'s order. The '
             'sufficiency clause of the property is FALSE on the unchanged code (known finding D12): sufficiency_false is proved '
             'at the 6-edge witness; the lane matches every sufficiency failure against three minimal cores.',
        note=_COMMON_NOTE + 'partial: the sufficient-adjustment-set clause does not hold (D12, recorded, not repaired: any repair '
                            'changes documented outputs).'),
    'C19': dict(
        technique='Lean 4 proof (mediators = exact set characterisation; instruments: ancestor, no path avoiding the source, '
                  'no confounding, and the full d-separation criterion) with differential correspondence over several hash seeds',
        text='Theorems: identify_mediators returns exactly the nodes strictly inside every directed path of length >= 2 that no '
             'confounder reaches avoiding the source; empty when reversed; identify_instruments: every instrument is a strict '
             'ancestor of the source, every directed path to the destination passes through the source, it shares no '
             'confounder with the destination, and it is d-separated from the destination once the edges leaving the source '
             'are removed (instruments_dsep, proved in full); the max_num_paths error is characterised. Lane: all DAGs <= 4 + '
             'samples (quick) / all on 5 + 6-node shapes (thorough), PYTHONHASHSEED 0-3.',
        note=_COMMON_NOTE),
    'C20': dict(
        technique='Lean 4 proof (Markov boundary shields and is minimal, against the same d-separation definition as C11; '
                  'collider characterisation) with differential correspondence, exhaustive on small graphs',
        text='Theorems: identify_markov_boundary = parents, children, co-parents; conditioning on it d-separates the node from '
             'every other node (needs only no 2-cycles) and no member can be dropped; for a Skeleton exactly the neighbours; '
             'identify_colliders = nodes with >= 2 arrowhead-sending neighbours (directed or bidirected, either stored '
             'orientation), unshielded variant = those pairwise non-adjacent; error classes. Lane: all DAGs <= 5 nodes, all '
             'mixed graphs on 3 nodes, sampled on 4-5.',
        note=_COMMON_NOTE),
}

_P = 'check under construction in this round (model/lane/theorems not yet integrated); not claimed until its central theorem is proved and its lane is clean'
_P2 = ('model (lean/CG/Model/TS.lean) and lane exist and are clean (./check runs), but the property theorems are still being '
       'proved; not claimed until the central theorem is proved')
NOT_CLAIMED = {}

try:
    import subprocess
    out = subprocess.run(['git', '-C', '/repo', 'log', '--format=%H %s'], capture_output=True, text=True).stdout
    FIX_COMMITS = [ln.split()[0] for ln in out.splitlines() if ln.split(' ', 1)[1].startswith('fix:')][::-1]
except Exception:  # noqa: BLE001
    pass
