#!/usr/bin/env python3
"""Writes MANIFEST.json from the table below (kept as a script so that the 20 entries stay uniform)."""
import json
import os

HERE = os.path.dirname(os.path.abspath(__file__))

CLAIMED = {
    # id: (technique, text, note, design_ref)
}

NOT_YET = {}


def load():
    import importlib.util
    spec = importlib.util.spec_from_file_location('manifest_table', os.path.join(HERE, 'manifest_table.py'))
    m = importlib.util.module_from_spec(spec)
    spec.loader.exec_module(m)
    return m


def main():
    t = load()
    checks = []
    for pid in sorted(t.CLAIMED):
        c = t.CLAIMED[pid]
        checks.append({
            'property_id': pid,
            'quick_cmd': f'./check {pid} --tier quick',
            'thorough_cmd': f'./check {pid} --tier thorough',
            'evidence_file': f'evidence/{pid}.json',
            'replay_cmd_template': f'./check {pid} --replay {{path}}',
            'engine': 'lean4-model+correspondence',
            'level_claimed': {'category': 'proof', 'text': c['text'], 'design_ref': c.get('design_ref', 'DESIGN.md section 8, ' + pid)},
            'level_note': c['note'],
            'technique': c['technique'],
        })
    man = {
        'version': 1,
        'setup_cmd': 'cd lean && lake build CG cgdriver && cd .. && /venv/bin/python -m harness.smoke',
        'hooks': {
            'guard': 'CAI_CAUSAL_GRAPH_VERIF',
            'enable': 'no hook is needed: the harness calls the public API of /repo in-process (REPO env, default /repo, is put '
                      'first on sys.path) and reads source text with ast',
            'baseline_off_cmd': 'cd /repo && /venv/bin/python -m pytest -ra -q -p no:cacheprovider --timeout=900 '
                                '--continue-on-collection-errors',
            'source_commits': t.FIX_COMMITS,
            'add_only': False,
        },
        'engines': [{
            'name': 'lean4-model+correspondence', 'path': 'lean/ + harness/',
            'serves_properties': sorted(t.CLAIMED),
            'kind_free_text': 'Lean 4 theorems about a hand-written executable model (lean/CG); the model is tied to /repo on '
                              'every run by a differential correspondence check (compiled Lean driver vs the real Python '
                              'in-process) and by tables regenerated from the source text (lean/CG/Generated)',
        }],
        'checks': checks,
        'notes': t.NOTES,
        'not_applicable': [{'property_id': k, 'reason': v} for k, v in sorted(t.NOT_CLAIMED.items())],
    }
    with open(os.path.join(HERE, 'MANIFEST.json'), 'w') as f:
        json.dump(man, f, indent=1)
    print('wrote MANIFEST.json with', len(checks), 'checks;', len(man['not_applicable']), 'not claimed')


if __name__ == '__main__':
    main()
