import itertools, sys, random, logging
logging.disable(logging.CRITICAL)
exec(open('p5.py').read().split("seed=int(sys.argv[1])")[0])
from cai_causal_graph import CausalGraph
from cai_causal_graph.identify_utils import identify_colliders
# colliders on mixed graphs: 4 nodes, edge options none, ->, <-, <> both orientations, --
names=['a','b','c','d']; pairs=list(itertools.combinations(names,2))
opts=[None,('->',0),('->',1),('<>',0),('<>',1),('--',0)]
bad={}; cnt=0
for choice in itertools.product(opts,repeat=6):
    g=CausalGraph(); g.add_nodes_from(names); ok=True
    for (a,b),c in zip(pairs,choice):
        if c is None: continue
        s,d=(a,b) if c[1]==0 else (b,a)
        try: g.add_edge(s,d,edge_type=EdgeType(c[0]))
        except Exception: ok=False;break
    if not ok: continue
    cnt+=1
    heads={n:set() for n in names}; adj=set()
    for (a,b),c in zip(pairs,choice):
        if c is None: continue
        adj.add(frozenset((a,b)))
        s,d=(a,b) if c[1]==0 else (b,a)
        if c[0]=='->': heads[d].add(s)
        if c[0]=='<>': heads[d].add(s); heads[s].add(d)
    col={n for n in names if len(heads[n])>=2}
    uns={n for n in col if not any(frozenset((p,q)) in adj for p,q in itertools.combinations(heads[n],2))}
    if sorted(identify_colliders(g))!=sorted(col): bad.setdefault('col',[]).append(choice)
    if sorted(identify_colliders(g,unshielded_only=True))!=sorted(uns): bad.setdefault('uns',[]).append(choice)
print('colliders graphs',cnt,{k:len(v) for k,v in bad.items()})
for k,v in bad.items(): print(k,v[0])
# TS lagged matrices round trip
rng=random.Random(3); bad={}; n=0
import numpy as np
for it in range(3000):
    vars_, vinfo, templates = gen(rng, dag_only=False, maxvars=3, maxdelta=2)
    # restrict: only -> and --, -- only contemporaneous
    t2={}
    for (s,d,delta),(t,m) in templates.items():
        if t==EdgeType.DIRECTED_EDGE or (t==EdgeType.UNDIRECTED_EDGE and delta==0): t2[(s,d,delta)]=(t,m)
    if not t2: continue
    try: g=build(rng, vars_, vinfo, t2, (-rng.randint(0,3), rng.randint(0,1)))
    except Exception as ex: bad.setdefault('build '+type(ex).__name__,[]).append(1); continue
    if not g.edges: continue
    n+=1
    try:
        mats,names_=g.to_numpy_by_lag()
        r=TimeSeriesCausalGraph.from_adjacency_matrices(mats,names_)
        m=g.get_minimal_graph()
        if r!=m: bad.setdefault('lagrt',[]).append(([ (e.source.identifier,str(e.get_edge_type()),e.destination.identifier) for e in g.edges],[x.identifier for x in g.nodes],r.edges,r.nodes,m.edges,m.nodes))
    except Exception as ex: bad.setdefault('lagrt '+type(ex).__name__,[]).append(([ (e.source.identifier,str(e.get_edge_type()),e.destination.identifier) for e in g.edges],str(ex)[:80]))
print('lag matrices',n,{k:len(v) for k,v in bad.items()})
for k,v in bad.items(): print(k,v[0])
