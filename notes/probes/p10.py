from cai_causal_graph import CausalGraph, TimeSeriesCausalGraph, EdgeType, Skeleton
import numpy as np
def rt(names, edges, t=EdgeType.DIRECTED_EDGE):
    g=CausalGraph(); g.add_nodes_from(names)
    for a,b in edges: g.add_edge(a,b,edge_type=t)
    out={}
    for k,f in [('np',lambda: CausalGraph.from_adjacency_matrix(*g.to_numpy())),('nx',lambda: CausalGraph.from_networkx(g.to_networkx())),('gml',lambda: CausalGraph.from_gml_string(g.to_gml_string())),('sk',lambda: Skeleton.from_gml_string(g.skeleton.to_gml_string())==g.skeleton)]:
        try:
            r=f(); out[k]=(r==g) if k!='sk' else r
        except Exception as ex: out[k]=type(ex).__name__+':'+str(ex)[:60]
    return out
for names in [['a','b','c'],['a b','c\nd','e"f'],['1','2','3'],['é','ü&','<x>'],['a','A',' '],['', 'x', 'y'],['[',']','\\'],['NAN','inf','-1'],['a','b','a ']]:
    print(names, rt(names,[(names[0],names[1])]), rt(names,[(names[0],names[1])],EdgeType.UNDIRECTED_EDGE))
