import itertools, networkx as nx, sys, random
from cai_causal_graph import CausalGraph
from cai_causal_graph.identify_utils import *
n=6
names=[chr(97+i) for i in range(n)]
pairs=list(itertools.combinations(range(n),2))
part=int(sys.argv[1]); nparts=int(sys.argv[2])
bad=0; first=None; tot=0; nonempty=0
for mask in range(part, 2**len(pairs), nparts):
    G=nx.DiGraph(); G.add_nodes_from(names)
    for k,(i,j) in enumerate(pairs):
        if mask>>k&1: G.add_edge(names[i],names[j])
    cg=CausalGraph(); cg.add_nodes_from(names)
    for u,v in G.edges: cg.add_edge(u,v)
    for x,y in itertools.permutations(names,2):
        if y in nx.ancestors(G,x): continue
        try:
            I=identify_instruments(cg,x,y,max_num_paths=10**9)
        except Exception as ex:
            print('EXC',ex); continue
        tot+=1
        if I: nonempty+=1
        H=G.copy(); H.remove_edges_from(list(G.out_edges(x)))
        for i in I:
            if i not in nx.ancestors(G,x) or not nx.d_separated(H,{i},{y},set()):
                bad+=1
                if first is None: first=(sorted(G.edges),x,y,I,i)
print(part,'tot',tot,'nonempty',nonempty,'bad',bad,first)
