/-! Spike: enumeration of all topological orders = the linear extensions. Core Lean only. -/
namespace Topo
variable {α : Type} [DecidableEq α]

theorem idxOf_cons_ne' {a b : α} (l : List α) (h : a ≠ b) : (a :: l).idxOf b = l.idxOf b + 1 := by
  rw [List.idxOf_cons]
  have : (a == b) = false := by simpa using h
  simp [this]

/-- `x` has no predecessor inside `rem` -/
def availB (E : List (α × α)) (rem : List α) (x : α) : Bool := E.all (fun e => !(e.2 = x && e.1 ∈ rem))

theorem availB_iff (E : List (α × α)) (rem : List α) (x : α) :
    availB E rem x = true ↔ ∀ p, (p, x) ∈ E → p ∉ rem := by
  unfold availB
  simp only [List.all_eq_true, Bool.not_eq_true', Bool.and_eq_false_iff, decide_eq_false_iff_not]
  constructor
  · intro h p hp hrem
    rcases h (p, x) hp with h' | h'
    · exact h' rfl
    · exact h' hrem
  · intro h e he
    by_cases hx : e.2 = x
    · right; intro hrem; exact h e.1 (by rw [← hx]; exact he) hrem
    · left; exact hx

def allTopo (E : List (α × α)) : Nat → List α → List (List α)
  | 0, rem => if rem = [] then [[]] else []
  | f + 1, rem =>
    if rem = [] then [[]]
    else (rem.filter (availB E rem)).flatMap (fun x => (allTopo E f (rem.erase x)).map (x :: ·))

/-- specification: `o` is a permutation of `nodes` and every edge inside `nodes` points forward -/
def LinExt (E : List (α × α)) (nodes o : List α) : Prop :=
  o.Perm nodes ∧ ∀ a b, (a, b) ∈ E → a ∈ nodes → b ∈ nodes → o.idxOf a < o.idxOf b

theorem allTopo_sound (E : List (α × α)) :
    ∀ (f : Nat) (rem : List α), rem.Nodup → ∀ o ∈ allTopo E f rem, LinExt E rem o := by
  intro f
  induction f with
  | zero =>
    intro rem _ o ho
    simp only [allTopo] at ho
    split at ho
    · rename_i h; subst h; simp at ho; subst ho; exact ⟨List.Perm.refl _, by simp⟩
    · simp at ho
  | succ f ih =>
    intro rem hnd o ho
    simp only [allTopo] at ho
    split at ho
    · rename_i h; subst h; simp at ho; subst ho; exact ⟨List.Perm.refl _, by simp⟩
    · simp only [List.mem_flatMap, List.mem_filter, List.mem_map] at ho
      obtain ⟨x, ⟨hx, hav⟩, o', ho', rfl⟩ := ho
      have hav' := (availB_iff E rem x).mp hav
      obtain ⟨hperm, hord⟩ := ih (rem.erase x) (hnd.erase x) o' ho'
      refine ⟨(List.Perm.cons x hperm).trans (List.perm_cons_erase hx).symm, ?_⟩
      intro a b hab ha hb
      have hbx : b ≠ x := by intro h; subst h; exact hav' a hab ha
      have hb' : b ∈ rem.erase x := (List.mem_erase_of_ne hbx).mpr hb
      by_cases hax : a = x
      · subst hax
        rw [List.idxOf_cons_self, idxOf_cons_ne' _ (Ne.symm hbx)]
        omega
      · have ha' : a ∈ rem.erase x := (List.mem_erase_of_ne hax).mpr ha
        rw [idxOf_cons_ne' _ (Ne.symm hax), idxOf_cons_ne' _ (Ne.symm hbx)]
        have := hord a b hab ha' hb'
        omega

theorem allTopo_complete (E : List (α × α)) :
    ∀ (f : Nat) (rem o : List α), rem.Nodup → rem.length ≤ f → LinExt E rem o → o ∈ allTopo E f rem := by
  intro f
  induction f with
  | zero =>
    intro rem o _ hlen ⟨hperm, _⟩
    have : rem = [] := List.eq_nil_of_length_eq_zero (by omega)
    subst this
    have : o = [] := List.Perm.eq_nil hperm
    subst this; simp [allTopo]
  | succ f ih =>
    intro rem o hnd hlen ⟨hperm, hord⟩
    simp only [allTopo]
    split
    · rename_i h; subst h
      have : o = [] := List.Perm.eq_nil hperm
      subst this; simp
    · rename_i hne
      cases o with
      | nil => exact absurd (List.Perm.nil_eq hperm).symm hne
      | cons x o' =>
        have hx : x ∈ rem := hperm.subset List.mem_cons_self
        have hond : (x :: o').Nodup := hperm.nodup_iff.mpr hnd
        have hxo' : x ∉ o' := (List.nodup_cons.mp hond).1
        simp only [List.mem_flatMap, List.mem_filter, List.mem_map]
        refine ⟨x, ⟨hx, (availB_iff E rem x).mpr ?_⟩, o', ?_, rfl⟩
        · intro p hp hprem
          have := hord p x hp hprem hx
          rw [List.idxOf_cons_self] at this
          omega
        · apply ih (rem.erase x) o' (hnd.erase x) (by rw [List.length_erase_of_mem hx]; omega)
          refine ⟨?_, ?_⟩
          · have := (List.perm_cons_erase hx)
            exact (List.Perm.cons_inv (hperm.trans this))
          · intro a b hab ha hb
            have ha' : a ∈ rem := List.mem_of_mem_erase ha
            have hb' : b ∈ rem := List.mem_of_mem_erase hb
            have hax : a ≠ x := by intro h; subst h; exact (List.Nodup.mem_erase_iff hnd).mp ha |>.1 rfl
            have hbx : b ≠ x := by intro h; subst h; exact (List.Nodup.mem_erase_iff hnd).mp hb |>.1 rfl
            have := hord a b hab ha' hb'
            rw [idxOf_cons_ne' _ (Ne.symm hax), idxOf_cons_ne' _ (Ne.symm hbx)] at this
            omega

#print axioms allTopo_sound
#print axioms allTopo_complete
#eval allTopo [(1,2),(1,3)] 5 [1,2,3,4]
end Topo
