import Std.Data.ExtTreeMap
open Std
attribute [local instance] lexOrd

structure EdgeRec where
  src : String
  dst : String
  ty : Nat
deriving DecidableEq, Repr

abbrev EMap := ExtTreeMap (String × String) EdgeRec

/-- `get_edges(source=s)`: all edges whose key has first component `s`, in key order -/
def edgesFrom (m : EMap) (s : String) : List ((String × String) × EdgeRec) :=
  m.toList.filter (fun kv => kv.1.1 = s)

theorem mem_edgesFrom (m : EMap) (s : String) (k : String × String) (e : EdgeRec) :
    (k, e) ∈ edgesFrom m s ↔ m[k]? = some e ∧ k.1 = s := by
  unfold edgesFrom
  simp only [List.mem_filter, decide_eq_true_eq]
  rw [ExtTreeMap.mem_toList_iff_getElem?_eq_some]

theorem edgesFrom_sorted (m : EMap) (s : String) :
    (edgesFrom m s).Pairwise (fun a b => compare a.1 b.1 = .lt) := by
  unfold edgesFrom
  exact List.Pairwise.filter _ ExtTreeMap.ordered_keys_toList

/-- lexicographic order on pairs with equal first component is the order of the second -/
theorem compare_pair_same_fst (s d1 d2 : String) :
    compare (s, d1) (s, d2) = compare d1 d2 := by
  have h : compare s s = .eq := ReflCmp.compare_self
  simp only [compare, compareLex, compareOn, Ordering.then] at h ⊢
  rw [h]

#print axioms mem_edgesFrom
#print axioms edgesFrom_sorted
def m : EMap := (∅ : EMap).insert ("b","a") ⟨"b","a",1⟩ |>.insert ("a","z") ⟨"a","z",2⟩ |>.insert ("a","b") ⟨"a","b",3⟩
#eval (edgesFrom m "a").map (·.1)
