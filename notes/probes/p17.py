import itertools, networkx as nx, sys, random
from cai_causal_graph import CausalGraph
from cai_causal_graph.identify_utils import *
seed=int(sys.argv[1]); N=int(sys.argv[2])
rng=random.Random(seed)
bad=0; first=None; tot=0; nonempty=0; badc=0; firstc=None
for it in range(N):
    n=rng.choice([7,8,9])
    names=[chr(97+i) for i in range(n)]
    p=rng.choice([0.2,0.3,0.4,0.5])
    G=nx.DiGraph(); G.add_nodes_from(names)
    for i in range(n):
        for j in range(i+1,n):
            if rng.random()<p: G.add_edge(names[i],names[j])
    cg=CausalGraph(); cg.add_nodes_from(names)
    for u,v in G.edges: cg.add_edge(u,v)
    for _ in range(6):
        x,y=rng.sample(names,2)
        if y in nx.ancestors(G,x): continue
        try: I=identify_instruments(cg,x,y,max_num_paths=10**9)
        except Exception as ex: print('EXC',ex); continue
        tot+=1
        if I: nonempty+=1
        H=G.copy(); H.remove_edges_from(list(G.out_edges(x)))
        for i in I:
            if i not in nx.ancestors(G,x) or not nx.d_separated(H,{i},{y},set()):
                bad+=1
                if first is None: first=(sorted(G.edges),x,y,I,i)
        # lemma: empty confounders => no back-door trek (d-sep by empty set in H)
        Z=identify_confounders(cg,x,y)
        if not Z and not nx.d_separated(H,{x},{y},set()):
            badc+=1
            if firstc is None: firstc=(sorted(G.edges),x,y)
print(seed,'tot',tot,'nonempty',nonempty,'bad',bad,first,'| empty-confounders-but-trek',badc,firstc)
