from cai_causal_graph import CausalGraph, TimeSeriesCausalGraph, EdgeType
import numpy as np
# C06 first-call aliasing
g = CausalGraph(); g.add_edge('a','b')
n1 = g.to_networkx(); n1.add_edge('b','zzz')
print('nx alias first call:', 'zzz' in g.to_networkx().nodes)
g = CausalGraph(); g.add_edge('a','b')
m = g.adjacency_matrix; m[0,0]=7
print('adj alias first call:', g.adjacency_matrix[0,0])
# extended graph shared meta
t = TimeSeriesCausalGraph(); t.add_edge('X lag(n=1)','X', meta={'w':[1]})
e = t.extend_graph(backward_steps=2, forward_steps=2)
ms = [id(x.meta) for x in e.edges]; print('ext edge meta ids', len(ms), len(set(ms)))
ms = [id(x.meta) for x in e.nodes]; print('ext node meta ids', len(ms), len(set(ms)))
# nested
print([id(x.meta['w']) for x in e.edges])
# get_nodes_at_lag raw list
l = t.get_nodes_at_lag(0); l.clear(); print('lag list alias:', t.get_nodes_at_lag(0))
t = TimeSeriesCausalGraph(); t.add_edge('X lag(n=1)','X', meta={'w':[1]})
d = t.to_dict(); d['edges']['X lag(n=1)']['X']['meta']['w'].append(2); print('to_dict nested alias:', t.get_edge('X lag(n=1)','X').meta)
# C12 in-place replace
t = TimeSeriesCausalGraph(); t.add_node('X lag(n=1)')
t.replace_node('X lag(n=1)', meta={'color':'red'})
try: print(t.get_node('X lag(n=1)').time_lag)
except Exception as ex: print('C12 err', type(ex).__name__, ex)
try: print(t.variables)
except Exception as ex: print('C12 err', type(ex).__name__, ex)
t = TimeSeriesCausalGraph(); t.add_node('X lag(n=1)')
t.replace_node('X lag(n=1)', meta={'time_lag': 5, 'variable_name':'Q'})
print(t.get_node('X lag(n=1)').time_lag, t.variables, t.get_nodes_at_lag(5), t.get_nodes_at_lag(-1))
# replace by time_lag
t = TimeSeriesCausalGraph(); t.add_edge('X lag(n=1)','Y')
t.replace_node('X lag(n=1)', time_lag=-3); print(t.nodes, t.get_nodes_at_lag(-3), t.get_nodes_at_lag(-1), t.variables)
# copy/minimal etc
s = t.get_summary_graph(); print(s.nodes, [type(n) for n in s.nodes])
