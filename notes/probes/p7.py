import itertools, networkx as nx, sys
from cai_causal_graph import CausalGraph
n=int(sys.argv[1])
names=[chr(97+i) for i in range(n)]
pairs=list(itertools.combinations(range(n),2))
def blocked_def(G, x, y, Z):
    U = G.to_undirected()
    for p in nx.all_simple_paths(U, x, y):
        blocked=False
        for i in range(1,len(p)-1):
            a,b,c=p[i-1],p[i],p[i+1]
            coll = G.has_edge(a,b) and G.has_edge(c,b)
            if coll:
                if not (({b}|nx.descendants(G,b)) & Z): blocked=True;break
            else:
                if b in Z: blocked=True;break
        if not blocked: return False
    return True
bad={}
cnt=0
for choice in itertools.product(range(3), repeat=len(pairs)):
    G=nx.DiGraph(); G.add_nodes_from(names)
    for (i,j),c in zip(pairs,choice):
        if c==1: G.add_edge(names[i],names[j])
        elif c==2: G.add_edge(names[j],names[i])
    if not nx.is_directed_acyclic_graph(G): continue
    cnt+=1
    cg=CausalGraph(); cg.add_nodes_from(names)
    for u,v in G.edges: cg.add_edge(u,v)
    for x,y in itertools.combinations(names,2):
        rest=[v for v in names if v not in (x,y)]
        seps={}
        for r in range(len(rest)+1):
            for Z in itertools.combinations(rest,r):
                Z=set(Z)
                d=blocked_def(G,x,y,Z); seps[frozenset(Z)]=d
                if cg.is_d_separated(x,y,Z)!=d: bad.setdefault('dsep',[]).append((sorted(G.edges),x,y,Z))
        for Z,d in seps.items():
            minimal = d and all(not seps[Z-{z}] for z in Z)
            if cg.is_minimally_d_separated(x,y,set(Z))!=minimal: bad.setdefault('ismin',[]).append((sorted(G.edges),x,y,set(Z),minimal))
        if not G.has_edge(x,y) and not G.has_edge(y,x):
            S=cg.get_d_separation_set(x,y)
            S=frozenset(S)
            if not (seps[S] and all(not seps[S-{z}] for z in S)): bad.setdefault('getsep',[]).append((sorted(G.edges),x,y,set(S)))
print(cnt,{k:len(v) for k,v in bad.items()})
for k,v in bad.items(): print(k,v[0])
