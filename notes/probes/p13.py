import sys, random, logging
logging.disable(logging.CRITICAL)
exec(open('p5.py').read().split("seed=int(sys.argv[1])")[0])
from cai_causal_graph import CausalGraph
rng=random.Random(5); bad=0; n=0; fb=0; cyc=0
for it in range(3000):
    vars_, vinfo, templates = gen(rng, dag_only=True, maxvars=4, maxdelta=2)
    g = build(rng, vars_, vinfo, templates, (-3,1))
    if not g.is_dag() or len(g.nodes)==0: continue
    n+=1
    s = g.get_summary_graph()
    assert type(s) is CausalGraph
    links={}
    for e in g.edges:
        a,b=e.source.variable_name,e.destination.variable_name
        if a!=b: links.setdefault(frozenset((a,b)),set()).add((a,b))
    exp={}
    for k,dirs in links.items():
        if len(dirs)==2: exp[k]='<>'; fb+=1
        else: exp[k]='->'+list(dirs)[0][0]
    got={}
    for e in s.edges:
        k=frozenset(e.get_edge_pair())
        got[k]=str(e.get_edge_type()) if str(e.get_edge_type())=='<>' else '->'+e.source.identifier
    if got!=exp or sorted(x.identifier for x in s.nodes)!=sorted(g.variables): bad+=1; print(got,exp)
    if not s.is_dag() and all(str(e.get_edge_type())=='->' for e in s.edges): cyc+=1
print(n,bad,'feedback',fb,'cyclic directed summaries',cyc)
