/-! Spike: location-labelled objects, ref / shallow / deep copy with a monotone allocator,
    freshness of deep copies (C06 core). Core Lean only. -/
namespace Alias

inductive Obj where
  | atom : Obj
  | box : Nat → List Obj → Obj

mutual
def labels : Obj → List Nat
  | .atom => []
  | .box l kids => l :: labelsL kids
def labelsL : List Obj → List Nat
  | [] => []
  | o :: os => labels o ++ labelsL os
end

mutual
/-- deep copy: every box gets a fresh label; returns the copy and the next free label -/
def deep : Obj → Nat → Obj × Nat
  | .atom, n => (.atom, n)
  | .box _ kids, n =>
    let (kids', n') := deepL kids (n + 1)
    (.box n kids', n')
def deepL : List Obj → Nat → List Obj × Nat
  | [], n => ([], n)
  | o :: os, n =>
    let (o', n1) := deep o n
    let (os', n2) := deepL os n1
    (o' :: os', n2)
end

/-- shallow copy: fresh top label, same children -/
def shallow : Obj → Nat → Obj × Nat
  | .atom, n => (.atom, n)
  | .box _ kids, n => (.box n kids, n + 1)

mutual
theorem deep_fresh : ∀ (o : Obj) (n : Nat), n ≤ (deep o n).2 ∧ ∀ l ∈ labels (deep o n).1, n ≤ l ∧ l < (deep o n).2
  | .atom, n => by simp [deep, labels]
  | .box _ kids, n => by
    have ih := deepL_fresh kids (n + 1)
    simp only [deep, labels]
    refine ⟨by omega, ?_⟩
    intro l hl
    rcases List.mem_cons.mp hl with h | h
    · subst h; omega
    · have := ih.2 l h; omega
theorem deepL_fresh : ∀ (os : List Obj) (n : Nat), n ≤ (deepL os n).2 ∧ ∀ l ∈ labelsL (deepL os n).1, n ≤ l ∧ l < (deepL os n).2
  | [], n => by simp [deepL, labelsL]
  | o :: os, n => by
    have h1 := deep_fresh o n
    have h2 := deepL_fresh os (deep o n).2
    simp only [deepL, labelsL]
    refine ⟨by omega, ?_⟩
    intro l hl
    rcases List.mem_append.mp hl with h | h
    · have := h1.2 l h; omega
    · have := h2.2 l h; omega
end

/-- all labels of `o` are below `n` -/
def Below (n : Nat) (o : Obj) : Prop := ∀ l ∈ labels o, l < n

/-- separation: a deep copy made at allocator state `n` shares no label with anything below `n` -/
theorem deep_separated (o src : Obj) (n : Nat) (hsrc : Below n src) :
    ∀ l, l ∈ labels (deep o n).1 → l ∉ labels src := by
  intro l hl hs
  have := (deep_fresh o n).2 l hl
  have := hsrc l hs
  omega

/-- a shallow copy of a box with a nested box shares that nested label (the D9 shape) -/
example : ∃ l, l ∈ labels (shallow (.box 0 [.box 1 []]) 2).1 ∧ l ∈ labels (.box 0 [.box 1 []]) := by
  refine ⟨1, ?_, ?_⟩ <;> simp [shallow, labels, labelsL]

#print axioms deep_separated
end Alias
