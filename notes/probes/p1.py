import warnings, json
from cai_causal_graph import CausalGraph, TimeSeriesCausalGraph, EdgeType
from cai_causal_graph.exceptions import CausalGraphErrors as E

def snap(g):
    return (sorted((n.identifier, str(n.variable_type), json.dumps(n.meta, sort_keys=True, default=str)) for n in g.nodes),
            sorted((e.source.identifier, e.destination.identifier, str(e.get_edge_type())) for e in g.edges),
            {n.identifier: (sorted(g.get_parents(n)), sorted(g.get_children(n)), sorted(g.get_neighbors(n))) for n in g.nodes})

# C01 TS overwrite
g = TimeSeriesCausalGraph()
g.add_edge('X lag(n=1)', 'X')
print(snap(g))
try:
    g.add_edge('X', 'X lag(n=1)', edge_type=EdgeType.UNDIRECTED_EDGE)
    print('no error!', snap(g))
except Exception as ex:
    print('err', type(ex))

# C03 change_edge_type
g = CausalGraph(); g.add_edge('a','b'); g.add_edge('b','c'); g.add_edge('c','a', edge_type=EdgeType.UNDIRECTED_EDGE)
s0 = snap(g)
try:
    g.change_edge_type('c','a', EdgeType.DIRECTED_EDGE)
except Exception as ex: print('err', type(ex).__name__, snap(g)==s0, snap(g)[1])
# replace_edge
g = CausalGraph(); g.add_edge('a','b'); g.add_edge('b','c'); g.add_edge('x','y')
s0 = snap(g)
try:
    g.replace_edge('x','y','c','a')
except Exception as ex: print('err', type(ex).__name__, snap(g)==s0, snap(g)[1])
# TS add edge against time
g = TimeSeriesCausalGraph()
s0 = snap(g)
try:
    g.add_edge('X', 'Y lag(n=1)')
except Exception as ex: print('err', type(ex).__name__, snap(g)==s0, snap(g)[0])
# TS replace_node moving in time
g = TimeSeriesCausalGraph(); g.add_edge('X lag(n=1)','Y'); g.add_edge('Y','Z')
s0 = snap(g)
try:
    g.replace_node('Y', 'Y lag(n=2)')
except Exception as ex: print('err', type(ex).__name__, snap(g)==s0, snap(g))
# replace_node variable type loss
from cai_causal_graph import NodeVariableType
g = CausalGraph(); g.add_node('a', variable_type=NodeVariableType.BINARY, meta={'k':1}); g.add_edge('a','b')
g.replace_node('a', meta={'z':2}); print(g.get_node('a').variable_type, g.get_node('a').meta)
g.replace_node('a', 'c'); print(g.get_node('c').variable_type, g.get_node('c').meta, snap(g)[1])
