import ast, sys
files={'CausalGraph':'/repo/cai_causal_graph/causal_graph.py','TimeSeriesCausalGraph':'/repo/cai_causal_graph/time_series_causal_graph.py'}
STATE={'_nodes_by_identifier','_edges_by_source','_edges_by_destination','_lag_to_nodes','_variable_name_to_nodes'}
NODE_WRITERS={'_add_inbound_edge','_add_outbound_edge','_delete_inbound_edge','_delete_outbound_edge','invalidate'}
info={}
for cls,f in files.items():
    tree=ast.parse(open(f).read())
    for n in tree.body:
        if isinstance(n,ast.ClassDef) and n.name==cls:
            for m in n.body:
                if isinstance(m,ast.FunctionDef):
                    dec=any((isinstance(d,ast.Name) and d.id=='reset_cached_attributes_decorator') for d in m.decorator_list)
                    writes=False; calls=set(); cached_assign=set()
                    for x in ast.walk(m):
                        # self._state[...] = / .pop / del / [..].append
                        if isinstance(x,(ast.Assign,ast.AugAssign,ast.Delete)):
                            tg = x.targets if not isinstance(x,ast.AugAssign) else [x.target]
                            for t in tg:
                                for y in ast.walk(t):
                                    if isinstance(y,ast.Attribute) and isinstance(y.value,ast.Name) and y.value.id=='self' and y.attr in STATE and isinstance(t,(ast.Subscript,)):
                                        writes=True
                                if isinstance(t,ast.Attribute) and isinstance(t.value,ast.Name) and t.value.id=='self' and t.attr.startswith('_') :
                                    cached_assign.add(t.attr)
                        if isinstance(x,ast.Call) and isinstance(x.func,ast.Attribute):
                            if x.func.attr in ('pop','append','remove','clear','update','setdefault'):
                                for y in ast.walk(x.func.value):
                                    if isinstance(y,ast.Attribute) and isinstance(y.value,ast.Name) and y.value.id=='self' and y.attr in STATE: writes=True
                            if x.func.attr in NODE_WRITERS: writes=True
                            if isinstance(x.func.value,ast.Name) and x.func.value.id=='self': calls.add(x.func.attr)
                            if isinstance(x.func.value,ast.Call) and isinstance(x.func.value.func,ast.Name) and x.func.value.func.id=='super': calls.add('super.'+x.func.attr)
                        # node.meta = / node.variable_type =
                        if isinstance(x,ast.Assign):
                            for t in x.targets:
                                if isinstance(t,ast.Attribute) and t.attr in ('meta','variable_type') and not (isinstance(t.value,ast.Name) and t.value.id=='self'): writes=True
                    info[(cls,m.name)]=dict(dec=dec,writes=writes,calls=calls,assign=cached_assign)
for k,v in info.items():
    if v['writes'] or v['dec']: print(k, 'dec' if v['dec'] else '   ', 'W' if v['writes'] else ' ', sorted(c for c in v['calls'] if ('CausalGraph',c) in info and (info[('CausalGraph',c)]['writes'] or info[('CausalGraph',c)]['dec']))[:8])
print('reset lists:')
for cls in files:
    print(cls, sorted(info[(cls,'_reset_cached_attributes')]['assign']))
print('assigned in non-init readers:')
for (cls,m),v in info.items():
    a={x for x in v['assign'] if x.startswith('_is_') or x in ('_networkx','_adjacency','_variables')}
    if a and m not in ('__init__','_reset_cached_attributes'): print(cls,m,sorted(a))
