import Std.Data.ExtTreeMap
open Std

attribute [local instance] lexOrd

inductive EdgeType | directed | undirected | bidirected | unknown | unknownDirected | unknownUndirected
deriving DecidableEq, Repr

structure EdgeRec where
  src : String
  dst : String
  ty : EdgeType
deriving DecidableEq, Repr

abbrev EMap := ExtTreeMap (String × String) EdgeRec

structure G where
  nodes : ExtTreeMap String Unit
  bySrc : EMap
  byDst : EMap

inductive Err | dup | rev | selfLoop | missing
deriving DecidableEq, Repr

def G.addNodeIfMissing (g : G) (n : String) : G :=
  if n ∈ g.nodes then g else { g with nodes := g.nodes.insert n () }

def G.addEdge (g : G) (s d : String) (ty : EdgeType) : Except Err G :=
  if s = d then .error .selfLoop else
  let g1 := (g.addNodeIfMissing s).addNodeIfMissing d
  if (s, d) ∈ g1.bySrc then .error .dup else
  if (d, s) ∈ g1.bySrc then .error .rev else
  .ok { g1 with bySrc := g1.bySrc.insert (s, d) ⟨s, d, ty⟩, byDst := g1.byDst.insert (d, s) ⟨s, d, ty⟩ }

def G.delEdge (g : G) (s d : String) : Except Err G :=
  if (s, d) ∈ g.bySrc then .ok { g with bySrc := g.bySrc.erase (s, d), byDst := g.byDst.erase (d, s) } else .error .missing

structure GInv (g : G) : Prop where
  mirror : ∀ s d : String, g.bySrc[(s, d)]? = g.byDst[(d, s)]?
  keyed : ∀ (s d : String) (e : EdgeRec), g.bySrc[(s, d)]? = some e → e.src = s ∧ e.dst = d
  ends : ∀ s d : String, (s, d) ∈ g.bySrc → s ∈ g.nodes ∧ d ∈ g.nodes
  onePer : ∀ s d : String, (s, d) ∈ g.bySrc → (d, s) ∉ g.bySrc
  noLoop : ∀ s : String, (s, s) ∉ g.bySrc

theorem addNodeIfMissing_bySrc (g : G) (n) : (g.addNodeIfMissing n).bySrc = g.bySrc := by
  unfold G.addNodeIfMissing; split <;> rfl
theorem addNodeIfMissing_byDst (g : G) (n) : (g.addNodeIfMissing n).byDst = g.byDst := by
  unfold G.addNodeIfMissing; split <;> rfl
theorem mem_addNodeIfMissing (g : G) (n m) : m ∈ (g.addNodeIfMissing n).nodes ↔ m = n ∨ m ∈ g.nodes := by
  unfold G.addNodeIfMissing; split <;> simp <;> grind

theorem addEdge_inv (g g' : G) (s d ty) (h : GInv g) (hok : g.addEdge s d ty = .ok g') : GInv g' := by
  unfold G.addEdge at hok
  split at hok; · cases hok
  simp only at hok
  split at hok; · cases hok
  split at hok; · cases hok
  cases hok
  rename_i hsd hdup hrev
  simp only [addNodeIfMissing_bySrc] at hdup hrev
  obtain ⟨h1, h2, h3, h4, h5⟩ := h
  constructor
  · intro a b
    simp only [addNodeIfMissing_bySrc, addNodeIfMissing_byDst, ExtTreeMap.getElem?_insert]
    have := h1 a b
    simp only [compare_eq_iff_eq, Prod.mk.injEq]
    grind
  · intro a b e
    simp only [addNodeIfMissing_bySrc, ExtTreeMap.getElem?_insert, compare_eq_iff_eq, Prod.mk.injEq]
    have := h2 a b e
    grind
  · intro a b
    simp only [addNodeIfMissing_bySrc, ExtTreeMap.mem_insert, compare_eq_iff_eq, Prod.mk.injEq, mem_addNodeIfMissing]
    have := h3 a b
    grind
  · intro a b
    simp only [addNodeIfMissing_bySrc, ExtTreeMap.mem_insert, compare_eq_iff_eq, Prod.mk.injEq]
    have := h4 a b
    grind
  · intro a
    simp only [addNodeIfMissing_bySrc, ExtTreeMap.mem_insert, compare_eq_iff_eq, Prod.mk.injEq]
    have := h5 a
    grind

-- rollback: add then delete gives back the same edge maps (C03 shape)
theorem add_del (g g' : G) (s d ty) (h : GInv g) (hok : g.addEdge s d ty = .ok g') :
    ∃ g'', g'.delEdge s d = .ok g'' ∧ g''.bySrc = g.bySrc ∧ g''.byDst = g.byDst := by
  unfold G.addEdge at hok
  split at hok; · cases hok
  simp only at hok
  split at hok; · cases hok
  split at hok; · cases hok
  cases hok
  rename_i hsd hdup hrev
  simp only [addNodeIfMissing_bySrc] at hdup hrev
  have hmem : (s, d) ∈ (ExtTreeMap.insert ((g.addNodeIfMissing s).addNodeIfMissing d).bySrc (s, d) ⟨s, d, ty⟩) := by
    simp
  unfold G.delEdge
  simp only [hmem, if_true]
  refine ⟨_, rfl, ?_, ?_⟩
  · simp only [addNodeIfMissing_bySrc]
    ext k v
    simp only [ExtTreeMap.getElem?_erase, ExtTreeMap.getElem?_insert, compare_eq_iff_eq]
    grind
  · simp only [addNodeIfMissing_byDst]
    have : (d, s) ∉ g.byDst := by
      intro hc
      have := h.mirror s d
      grind
    ext k v
    simp only [ExtTreeMap.getElem?_erase, ExtTreeMap.getElem?_insert, compare_eq_iff_eq]
    grind
#print axioms addEdge_inv
#print axioms add_del
