import Std.Data.ExtTreeMap
open Std
attribute [local instance] lexOrd

abbrev EMap := ExtTreeMap (String × String) Nat

def eraseAll (m : EMap) (ks : List (String × String)) : EMap := ks.foldl (fun acc k => acc.erase k) m

theorem getElem?_eraseAll (m : EMap) (ks : List (String × String)) (k : String × String) :
    (eraseAll m ks)[k]? = if k ∈ ks then none else m[k]? := by
  unfold eraseAll
  induction ks generalizing m with
  | nil => simp
  | cons a ks ih =>
    simp only [List.foldl_cons, ih, ExtTreeMap.getElem?_erase, compare_eq_iff_eq, List.mem_cons]
    grind

/-- cascade of `delete_node`: erase every edge incident to `n` (keys collected first, as the code does) -/
def delIncident (m : EMap) (n : String) : EMap :=
  eraseAll m ((m.toList.filter (fun kv => kv.1.1 = n ∨ kv.1.2 = n)).map (·.1))

theorem getElem?_delIncident (m : EMap) (n : String) (k : String × String) :
    (delIncident m n)[k]? = if k.1 = n ∨ k.2 = n then none else m[k]? := by
  unfold delIncident
  rw [getElem?_eraseAll]
  by_cases hinc : k.1 = n ∨ k.2 = n
  · simp only [hinc, if_true]
    cases hk : m[k]? with
    | none => simp
    | some v =>
      have : k ∈ (m.toList.filter (fun kv => kv.1.1 = n ∨ kv.1.2 = n)).map (·.1) := by
        simp only [List.mem_map, List.mem_filter]
        exact ⟨(k, v), ⟨ExtTreeMap.mem_toList_iff_getElem?_eq_some.mpr hk, by simpa using hinc⟩, rfl⟩
      rw [if_pos this]
  · simp only [hinc, if_false]
    have : k ∉ (m.toList.filter (fun kv => kv.1.1 = n ∨ kv.1.2 = n)).map (·.1) := by
      simp only [List.mem_map, List.mem_filter, not_exists, not_and]
      rintro ⟨k', v⟩ ⟨_, h2⟩ rfl
      simp at h2; exact hinc h2
    rw [if_neg this]

#print axioms getElem?_delIncident
