/-! Spike: "an acyclic minimal graph always extends to an acyclic graph" (C15 / C02 anchor),
    on the abstract time-series layer: nodes are (variable, time) pairs, directed edges are copies of
    templates (s, d, δ) with δ ≥ 0 placed at arbitrary positions. Core Lean only. -/
namespace Extend

inductive TC {α : Type} (R : α → α → Prop) : α → α → Prop
  | single {a b} : R a b → TC R a b
  | tail {a b c} : TC R a b → R b c → TC R a c

structure Tmpl (V : Type) where
  s : V
  d : V
  δ : Nat

variable {V : Type}

/-- the unrolled directed-edge relation: any copy of any template, at any position allowed by `P` -/
def Unrolled (ts : List (Tmpl V)) (P : Tmpl V → Int → Prop) (a b : V × Int) : Prop :=
  ∃ t ∈ ts, ∃ x : Int, P t x ∧ a = (t.s, x - t.δ) ∧ b = (t.d, x)

/-- the contemporaneous template relation on variables -/
def Contemp (ts : List (Tmpl V)) (v w : V) : Prop := ∃ t ∈ ts, t.δ = 0 ∧ t.s = v ∧ t.d = w

theorem step_time {ts : List (Tmpl V)} {P} {a b : V × Int} (h : Unrolled ts P a b) : a.2 ≤ b.2 := by
  obtain ⟨t, _, x, _, rfl, rfl⟩ := h
  simp; omega

theorem tc_time {ts : List (Tmpl V)} {P} {a b : V × Int} (h : TC (Unrolled ts P) a b) : a.2 ≤ b.2 := by
  induction h with
  | single h => exact step_time h
  | tail _ h ih => have := step_time h; omega

theorem step_contemp {ts : List (Tmpl V)} {P} {a b : V × Int} (h : Unrolled ts P a b) (ht : a.2 = b.2) :
    Contemp ts a.1 b.1 := by
  obtain ⟨t, hmem, x, _, rfl, rfl⟩ := h
  simp at ht
  exact ⟨t, hmem, by omega, rfl, rfl⟩

theorem tc_contemp {ts : List (Tmpl V)} {P} {a b : V × Int} (h : TC (Unrolled ts P) a b) (ht : a.2 = b.2) :
    TC (Contemp ts) a.1 b.1 := by
  induction h with
  | single h => exact .single (step_contemp h ht)
  | tail hab hbc ih =>
    rename_i m c
    have h1 := tc_time hab
    have h2 := step_time hbc
    have e1 : a.2 = m.2 := by omega
    have e2 : m.2 = c.2 := by omega
    exact .tail (ih e1) (step_contemp hbc e2)

/-- if the contemporaneous templates are acyclic on variables, every unrolling is acyclic -/
theorem unrolled_acyclic (ts : List (Tmpl V)) (P) (hac : ∀ v, ¬ TC (Contemp ts) v v) :
    ∀ n : V × Int, ¬ TC (Unrolled ts P) n n := by
  intro n h
  exact hac n.1 (tc_contemp h rfl)

#print axioms unrolled_acyclic
end Extend
