/-! Spike 2: characterisation lemmas for the name-grammar model (List Char). -/
namespace Name
abbrev Str := List Char

def isDig (c : Char) : Bool := c.isDigit

def takeDigits : Str → Str × Str
  | [] => ([], [])
  | c :: cs => if isDig c then let (d, r) := takeDigits cs; (c :: d, r) else ([], c :: cs)

def stripPrefix? : Str → Str → Option Str
  | [], s => some s
  | _ :: _, [] => none
  | p :: ps, c :: cs => if p = c then stripPrefix? ps cs else none

theorem stripPrefix?_eq_some {p s r : Str} : stripPrefix? p s = some r ↔ s = p ++ r := by
  induction p generalizing s with
  | nil => simp [stripPrefix?, eq_comm]
  | cons a p ih =>
    cases s with
    | nil => simp [stripPrefix?]
    | cons c cs =>
      simp only [stripPrefix?]
      split
      · rename_i h; subst h; simp [ih]
      · rename_i h; simp; intro h'; exact absurd h'.symm h

theorem takeDigits_spec (s : Str) :
    s = (takeDigits s).1 ++ (takeDigits s).2 ∧ (∀ c ∈ (takeDigits s).1, isDig c = true) ∧
    (∀ c r, (takeDigits s).2 = c :: r → isDig c = false) := by
  induction s with
  | nil => simp [takeDigits]
  | cons c cs ih =>
    simp only [takeDigits]
    split
    · rename_i h
      obtain ⟨h1, h2, h3⟩ := ih
      refine ⟨?_, ?_, ?_⟩
      · simp; exact h1
      · intro x hx; simp at hx; rcases hx with rfl | hx; exact h; exact h2 x hx
      · exact h3
    · rename_i h
      refine ⟨by simp, by simp, ?_⟩
      intro x r hx; simp at hx; rw [← hx.1]; simpa using h

/-- takeDigits on `d ++ rest` where `d` all digits and rest does not start with a digit -/
theorem takeDigits_append {d rest : Str} (hd : ∀ c ∈ d, isDig c = true)
    (hr : ∀ c r, rest = c :: r → isDig c = false) : takeDigits (d ++ rest) = (d, rest) := by
  induction d with
  | nil =>
    cases rest with
    | nil => simp [takeDigits]
    | cons c r => simp [takeDigits, hr c r rfl]
  | cons c d ih =>
    have hc := hd c (List.mem_cons_self)
    have := ih (fun x hx => hd x (List.mem_cons_of_mem _ hx))
    simp [takeDigits, hc, this]

def marker (word d : Str) : Str := ' ' :: word ++ "(n=".toList ++ d ++ [')']

def matchMarker (word : Str) (s : Str) : Option (Str × Str) :=
  match stripPrefix? (' ' :: word ++ "(n=".toList) s with
  | none => none
  | some r =>
    match takeDigits r with
    | ([], _) => none
    | (d, ')' :: rest) => some (d, rest)
    | _ => none

theorem matchMarker_some {word s d rest : Str} (h : matchMarker word s = some (d, rest)) :
    s = marker word d ++ rest ∧ d ≠ [] ∧ ∀ c ∈ d, isDig c = true := by
  unfold matchMarker at h
  split at h
  · cases h
  · rename_i r hr
    have hs := stripPrefix?_eq_some.mp hr
    have ⟨t1, t2, _⟩ := takeDigits_spec r
    split at h
    · cases h
    · rename_i d' rest' hd' heq
      cases h
      rw [heq] at t1 t2
      simp only at t1 t2
      refine ⟨?_, ?_, t2⟩
      · rw [hs, t1]; simp [marker]
      · intro hd; subst hd; exact hd' rfl
    · cases h

theorem matchMarker_marker {word d rest : Str} (hd : d ≠ []) (hdig : ∀ c ∈ d, isDig c = true) :
    matchMarker word (marker word d ++ rest) = some (d, rest) := by
  unfold matchMarker
  have h1 : stripPrefix? (' ' :: word ++ "(n=".toList) (marker word d ++ rest) = some (d ++ ')' :: rest) := by
    rw [stripPrefix?_eq_some]; simp [marker]
  rw [h1]
  have h2 : takeDigits (d ++ ')' :: rest) = (d, ')' :: rest) :=
    takeDigits_append hdig (by intro c r h; cases h; decide)
  simp only [h2]


/-! ### the regex tail, the search, and the round-trip theorem -/

def lagW : Str := "lag".toList
def futW : Str := "future".toList

def atEnd (s : Str) : Bool := s == [] || s == ['\n']

def tryFuture (lag : Option Str) (p : Str) : Option (Option Str × Option Str) :=
  match matchMarker futW p with
  | some (d, q) => if atEnd q then some (lag, some d) else if atEnd p then some (lag, none) else none
  | none => if atEnd p then some (lag, none) else none

def matchTail (s : Str) : Option (Option Str × Option Str) :=
  match matchMarker lagW s with
  | some (d, p) =>
    match tryFuture (some d) p with
    | some r => some r
    | none => tryFuture none s
  | none => tryFuture none s

def newlineRun : Str → Nat
  | '\n' :: cs => newlineRun cs + 1
  | _ => 0

def tryNewlines (s : Str) : Nat → Option (Nat × (Option Str × Option Str))
  | 0 => (matchTail s).map (fun r => (0, r))
  | k + 1 =>
    match matchTail (s.drop (k + 1)) with
    | some r => some (k + 1, r)
    | none => tryNewlines s k

def search : Str → Str → Option (Str × Option Str × Option Str)
  | _, [] => none
  | pre, c :: cs =>
    match tryNewlines cs (newlineRun cs) with
    | some (k, (l, f)) => some (pre ++ c :: cs.take k, l, f)
    | none => search (pre ++ [c]) cs

/-- `x` contains no `word(n=digits)` marker, for `word ∈ {lag, future}` -/
def NoMarker (x : Str) : Prop :=
  ∀ (word : Str), word = lagW ∨ word = futW → ∀ (pre d post : Str), d ≠ [] → (∀ c ∈ d, isDig c = true) →
    x ≠ pre ++ (word ++ "(n=".toList ++ d ++ [')']) ++ post

/-- the three canonical suffixes -/
inductive Suf : Str → Option Str → Option Str → Prop
  | none : Suf [] none none
  | lag (d) : d ≠ [] → (∀ c ∈ d, isDig c = true) → Suf (marker lagW d) (some d) none
  | fut (d) : d ≠ [] → (∀ c ∈ d, isDig c = true) → Suf (marker futW d) none (some d)

theorem isDig_not_space {c : Char} (h : isDig c = true) : c ≠ ' ' := by
  intro hc; subst hc; revert h; decide

theorem marker_tail_no_space {word d : Str} (hw : word = lagW ∨ word = futW)
    (hd : ∀ c ∈ d, isDig c = true) : ∀ c ∈ (marker word d).tail, c ≠ ' ' := by
  intro c hc
  have hc' : c ∈ word ++ "(n=".toList ++ d ++ [')'] := hc
  simp only [List.mem_append, List.mem_singleton] at hc'
  rcases hc' with ((hc | hc) | hc) | hc
  · rcases hw with rfl | rfl
    · simp [lagW] at hc; rcases hc with rfl | rfl | rfl <;> decide
    · simp [futW] at hc; rcases hc with rfl | rfl | rfl | rfl | rfl | rfl <;> decide
  · simp at hc; rcases hc with rfl | rfl | rfl <;> decide
  · exact isDig_not_space (hd c hc)
  · subst hc; decide

theorem suf_shape {suf : Str} {l f : Option Str} (h : Suf suf l f) : suf = [] ∨ ∃ w, suf = ' ' :: w := by
  cases h <;> simp [marker]

/-- a marker cannot be matched at the head of `x ++ suf` when `x` is non-empty and marker-free -/
theorem matchMarker_none_of_noMarker {word x suf : Str} {l f : Option Str}
    (hw : word = lagW ∨ word = futW) (hx : x ≠ []) (hnm : NoMarker x) (hs : Suf suf l f) :
    matchMarker word (x ++ suf) = none := by
  cases hmm : matchMarker word (x ++ suf) with
  | none => rfl
  | some r =>
    exfalso
    obtain ⟨d, p⟩ := r
    obtain ⟨heq, hd, hdig⟩ := matchMarker_some hmm
    rcases List.append_eq_append_iff.mp heq with ⟨a', h1, h2⟩ | ⟨c', h1, h2⟩
    · -- marker word d = x ++ a'  and  suf = a' ++ p
      cases a' with
      | nil =>
        simp at h1
        exact hnm word hw [' '] d [] hd hdig (by rw [← h1]; simp [marker])
      | cons a0 a'' =>
        -- suf starts with a0, so a0 = ' '
        have ha0 : a0 = ' ' := by
          rcases suf_shape hs with h | ⟨w, h⟩
          · rw [h] at h2; simp at h2
          · rw [h] at h2; simp at h2; exact h2.1.symm
        subst ha0
        -- but ' ' occurs in the tail of the marker
        cases x with
        | nil => exact hx rfl
        | cons x0 x' =>
          have : ' ' ∈ (marker word d).tail := by
            rw [h1]; simp
          exact marker_tail_no_space hw hdig _ this rfl
    · -- x = marker word d ++ c'
      exact hnm word hw [' '] d c' hd hdig (by rw [h1]; simp [marker])

theorem atEnd_append_false {x suf : Str} {l f : Option Str} (hx : x ≠ []) (hxn : x ≠ ['\n'])
    (hs : Suf suf l f) : atEnd (x ++ suf) = false := by
  rcases suf_shape hs with h | ⟨w, h⟩
  · subst h
    simp only [List.append_nil, atEnd, Bool.or_eq_false_iff, beq_eq_false_iff_ne, ne_eq]
    exact ⟨hx, hxn⟩
  · subst h
    cases x with
    | nil => exact absurd rfl hx
    | cons x0 x' =>
      simp only [atEnd, Bool.or_eq_false_iff, beq_eq_false_iff_ne, ne_eq]
      constructor
      · simp
      · cases x' <;> simp

theorem matchTail_none {x suf : Str} {l f : Option Str} (hx : x ≠ []) (hxn : x ≠ ['\n'])
    (hnm : NoMarker x) (hs : Suf suf l f) : matchTail (x ++ suf) = none := by
  unfold matchTail
  rw [matchMarker_none_of_noMarker (Or.inl rfl) hx hnm hs]
  simp only [tryFuture]
  rw [matchMarker_none_of_noMarker (Or.inr rfl) hx hnm hs]
  simp [atEnd_append_false hx hxn hs]

theorem matchMarker_nil (word : Str) : matchMarker word [] = none := by
  simp [matchMarker, stripPrefix?]

theorem lag_ne_future_marker {d p : Str} : matchMarker lagW (marker futW d ++ p) = none := by
  simp [matchMarker, marker, lagW, futW, stripPrefix?]

theorem matchTail_suf {suf : Str} {l f : Option Str} (hs : Suf suf l f) : matchTail suf = some (l, f) := by
  cases hs with
  | none => simp [matchTail, tryFuture, matchMarker_nil, atEnd]
  | lag d hd hdig =>
    have := matchMarker_marker (word := lagW) (rest := []) hd hdig
    simp only [List.append_nil] at this
    simp [matchTail, this, tryFuture, matchMarker_nil, atEnd]
  | fut d hd hdig =>
    have h1 := matchMarker_marker (word := futW) (rest := []) hd hdig
    have h2 := lag_ne_future_marker (d := d) (p := [])
    simp only [List.append_nil] at h1 h2
    simp [matchTail, h1, h2, tryFuture, atEnd]


theorem NoMarker.drop {x : Str} (h : NoMarker x) (k : Nat) : NoMarker (x.drop k) := by
  intro word hw pre d post hd hdig heq
  apply h word hw (x.take k ++ pre) d post hd hdig
  have := List.take_append_drop k x
  rw [heq] at this
  exact this.symm.trans (by simp)

theorem newlineRun_le (s : Str) : newlineRun s ≤ s.length := by
  induction s with
  | nil => simp [newlineRun]
  | cons c cs ih =>
    by_cases h : c = '\n'
    · subst h; simp [newlineRun]; exact ih
    · have : newlineRun (c :: cs) = 0 := by
        unfold newlineRun; split
        · rename_i heq; cases heq; exact absurd rfl h
        · rfl
      omega

theorem suf_newlineRun {suf : Str} {l f : Option Str} (hs : Suf suf l f) : newlineRun suf = 0 := by
  rcases suf_shape hs with h | ⟨w, h⟩ <;> subst h <;> simp [newlineRun]

/-- all-newline case -/
theorem run_full {cs suf : Str} {l f : Option Str} (hs : Suf suf l f) (h : newlineRun cs = cs.length) :
    newlineRun (cs ++ suf) = cs.length := by
  induction cs with
  | nil => simpa using suf_newlineRun hs
  | cons c cs ih =>
    by_cases hc : c = '\n'
    · subst hc; simp [newlineRun] at h ⊢; exact ih h
    · have : newlineRun (c :: cs) = 0 := by
        unfold newlineRun; split
        · rename_i heq; cases heq; exact absurd rfl hc
        · rfl
      simp [this] at h

/-- not-all-newline case -/
theorem run_partial {cs : Str} (suf : Str) (h : newlineRun cs < cs.length) :
    newlineRun (cs ++ suf) = newlineRun cs ∧
    ∀ k, k ≤ newlineRun cs → cs.drop k ≠ [] ∧ cs.drop k ≠ ['\n'] := by
  induction cs with
  | nil => simp at h
  | cons c cs ih =>
    by_cases hc : c = '\n'
    · subst hc
      simp only [newlineRun, List.length_cons, Nat.add_lt_add_iff_right] at h
      obtain ⟨ih1, ih2⟩ := ih h
      refine ⟨by simp [newlineRun, ih1], ?_⟩
      intro k hk
      cases k with
      | zero =>
        simp only [List.drop_zero, ne_eq, reduceCtorEq, not_false_eq_true, List.cons.injEq, true_and]
        intro hcs; subst hcs; simp [newlineRun] at h
      | succ k =>
        simp only [newlineRun] at hk
        simpa using ih2 k (by omega)
    · have h0 : ∀ t, newlineRun (c :: t) = 0 := by
        intro t; unfold newlineRun; split
        · rename_i heq; cases heq; exact absurd rfl hc
        · rfl
      refine ⟨by simp [h0], ?_⟩
      intro k hk
      rw [h0] at hk
      have : k = 0 := by omega
      subst this
      simp only [List.drop_zero, ne_eq, reduceCtorEq, not_false_eq_true, List.cons.injEq, true_and]
      intro h'; exact hc h'.1

theorem tryNewlines_none {cs suf : Str} {l f : Option Str} (hs : Suf suf l f) (hnm : NoMarker cs)
    (hall : ∀ k, k ≤ j → cs.drop k ≠ [] ∧ cs.drop k ≠ ['\n']) :
    ∀ k, k ≤ j → tryNewlines (cs ++ suf) k = none := by
  intro k
  induction k with
  | zero =>
    intro _
    have := hall 0 (Nat.zero_le _)
    simp only [List.drop_zero] at this
    simp [tryNewlines, matchTail_none this.1 this.2 hnm hs]
  | succ k ih =>
    intro hk
    have h := hall (k + 1) hk
    have hlen : k + 1 ≤ cs.length := by
      rcases Nat.lt_or_ge cs.length (k + 1) with hc | hc
      · exact absurd (List.drop_eq_nil_of_le (by omega)) h.1
      · exact hc
    have hd : (cs ++ suf).drop (k + 1) = cs.drop (k + 1) ++ suf := by
      rw [List.drop_append_of_le_length hlen]
    simp only [tryNewlines, hd, matchTail_none h.1 h.2 (hnm.drop _) hs]
    exact ih (by omega)

theorem tryNewlines_full {cs suf : Str} {l f : Option Str} (hs : Suf suf l f) :
    tryNewlines (cs ++ suf) cs.length = some (cs.length, (l, f)) := by
  cases hlen : cs.length with
  | zero =>
    have : cs = [] := List.eq_nil_of_length_eq_zero hlen
    subst this
    simp [tryNewlines, matchTail_suf hs]
  | succ k =>
    have : (cs ++ suf).drop (k + 1) = suf := by
      rw [← hlen]; simp
    simp [tryNewlines, this, matchTail_suf hs]

theorem search_fmt {suf : Str} {l f : Option Str} (hs : Suf suf l f) :
    ∀ (u pre : Str), u ≠ [] → NoMarker u → search pre (u ++ suf) = some (pre ++ u, l, f) := by
  intro u
  induction u with
  | nil => intro pre h; exact absurd rfl h
  | cons c cs ih =>
    intro pre _ hnm
    have hnmcs : NoMarker cs := by simpa using hnm.drop 1
    simp only [List.cons_append, search]
    rcases Nat.lt_or_ge (newlineRun cs) cs.length with hlt | hge
    · obtain ⟨h1, h2⟩ := run_partial suf hlt
      rw [h1, tryNewlines_none (j := newlineRun cs) hs hnmcs h2 _ (Nat.le_refl _)]
      have hcs : cs ≠ [] := by intro h; subst h; simp at hlt
      simp only
      rw [ih (pre ++ [c]) hcs hnmcs]
      simp
    · have heq : newlineRun cs = cs.length := Nat.le_antisymm (newlineRun_le cs) hge
      rw [run_full hs heq, tryNewlines_full hs]
      simp

#print axioms search_fmt
end Name
