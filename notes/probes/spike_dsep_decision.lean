/-! Spike: verified reachability over an edge list, fuel-free (termination by potential),
    sound and complete w.r.t. the reflexive-transitive closure. Core Lean only. -/

namespace Reach
variable {α : Type} [DecidableEq α]

inductive RTC (R : α → α → Prop) : α → α → Prop
  | refl (a) : RTC R a a
  | tail {a b c} : RTC R a b → R b c → RTC R a c

theorem RTC.head {R : α → α → Prop} {a b c : α} (h : R a b) (h' : RTC R b c) : RTC R a c := by
  induction h' with
  | refl => exact .tail (.refl _) h
  | tail _ hbc ih => exact .tail ih hbc

def Rel (E : List (α × α)) (a b : α) : Prop := (a, b) ∈ E

def succs (E : List (α × α)) (a : α) : List α := (E.filter (fun e => e.1 = a)).map (·.2)

theorem mem_succs {E : List (α × α)} {a b : α} : b ∈ succs E a ↔ Rel E a b := by
  unfold succs Rel
  simp only [List.mem_map, List.mem_filter, decide_eq_true_eq]
  constructor
  · rintro ⟨⟨x, y⟩, ⟨h1, h2⟩, h3⟩; simp at h2 h3; subst h2 h3; exact h1
  · intro h; exact ⟨(a, b), ⟨h, rfl⟩, rfl⟩

/-- edges whose source has not been marked yet -/
def pending (E : List (α × α)) (seen : List α) : Nat := E.countP (fun e => decide (e.1 ∉ seen))

theorem succs_length (E : List (α × α)) (a : α) : (succs E a).length = E.countP (fun e => decide (e.1 = a)) := by
  unfold succs; simp [List.countP_eq_length_filter]

theorem pending_cons (E : List (α × α)) (seen : List α) (a : α) (ha : a ∉ seen) :
    pending E (a :: seen) + (succs E a).length = pending E seen := by
  rw [succs_length]
  unfold pending
  induction E with
  | nil => simp
  | cons e E ih =>
    simp only [List.countP_cons]
    by_cases h1 : e.1 = a
    · have h2 : e.1 ∉ seen := by rw [h1]; exact ha
      have h3 : ¬ (e.1 ∉ a :: seen) := by simp [h1]
      simp only [h1, h2, h3, decide_true, decide_false, if_true, if_false] at ih ⊢
      simp_all
      omega
    · by_cases h2 : e.1 ∈ seen
      · have h3 : ¬ (e.1 ∉ a :: seen) := by simp [h2]
        simp_all
      · have h3 : e.1 ∉ a :: seen := by simp [h1, h2]
        simp_all
        omega

/-- worklist search; returns the final `seen` list -/
def go (E : List (α × α)) (todo seen : List α) : List α :=
  match todo with
  | [] => seen
  | a :: todo =>
    if h : a ∈ seen then go E todo seen
    else go E (succs E a ++ todo) (a :: seen)
termination_by todo.length + pending E seen
decreasing_by
  · simp
  · have := pending_cons E seen a h
    simp only [List.length_append, List.length_cons]
    omega

/-- soundness -/
theorem go_sound (E : List (α × α)) (P : α → Prop) (hclosed : ∀ a b, P a → Rel E a b → P b)
    (todo seen : List α) (ht : ∀ a ∈ todo, P a) (hs : ∀ a ∈ seen, P a) : ∀ b ∈ go E todo seen, P b := by
  induction todo, seen using go.induct (E := E) with
  | case1 seen => intro b hb; rw [go] at hb; exact hs b hb
  | case2 seen a todo h ih =>
    intro b hb; rw [go] at hb; simp only [h, dite_true] at hb
    exact ih (fun x hx => ht x (List.mem_cons_of_mem _ hx)) hs b hb
  | case3 seen a todo h ih =>
    intro b hb; rw [go] at hb; simp only [h, dite_false] at hb
    refine ih ?_ ?_ b hb
    · intro x hx
      rcases List.mem_append.mp hx with h' | h'
      · exact hclosed a x (ht a List.mem_cons_self) (mem_succs.mp h')
      · exact ht x (List.mem_cons_of_mem _ h')
    · intro x hx
      rcases List.mem_cons.mp hx with h' | h'
      · subst h'; exact ht _ List.mem_cons_self
      · exact hs x h'

/-- monotonic: seen ⊆ result, todo ⊆ result, and the result is closed for every node whose
    successors were already accounted for -/
theorem go_complete (E : List (α × α)) (todo seen : List α)
    (hinv : ∀ a ∈ seen, ∀ b, Rel E a b → b ∈ seen ∨ b ∈ todo) :
    (∀ a ∈ seen, a ∈ go E todo seen) ∧ (∀ a ∈ todo, a ∈ go E todo seen) ∧
    (∀ a ∈ go E todo seen, ∀ b, Rel E a b → b ∈ go E todo seen) := by
  induction todo, seen using go.induct (E := E) with
  | case1 seen =>
    rw [go]
    refine ⟨fun a h => h, by simp, ?_⟩
    intro a ha b hab
    rcases hinv a ha b hab with h | h
    · exact h
    · simp at h
  | case2 seen a todo h ih =>
    rw [go]; simp only [h, dite_true]
    have := ih (by
      intro x hx b hxb
      rcases hinv x hx b hxb with h' | h'
      · exact Or.inl h'
      · rcases List.mem_cons.mp h' with h'' | h''
        · subst h''; exact Or.inl h
        · exact Or.inr h'')
    refine ⟨this.1, ?_, this.2.2⟩
    intro x hx
    rcases List.mem_cons.mp hx with h' | h'
    · subst h'; exact this.1 _ h
    · exact this.2.1 x h'
  | case3 seen a todo h ih =>
    rw [go]; simp only [h, dite_false]
    have := ih (by
      intro x hx b hxb
      rcases List.mem_cons.mp hx with h' | h'
      · subst h'; exact Or.inr (List.mem_append_left _ (mem_succs.mpr hxb))
      · rcases hinv x h' b hxb with h'' | h''
        · exact Or.inl (List.mem_cons_of_mem _ h'')
        · rcases List.mem_cons.mp h'' with h3 | h3
          · subst h3; exact Or.inl List.mem_cons_self
          · exact Or.inr (List.mem_append_right _ h3))
    refine ⟨fun x hx => this.1 x (List.mem_cons_of_mem _ hx), ?_, this.2.2⟩
    intro x hx
    rcases List.mem_cons.mp hx with h' | h'
    · subst h'; exact this.1 _ List.mem_cons_self
    · exact this.2.1 x (List.mem_append_right _ h')

def reach (E : List (α × α)) (a : α) : List α := go E [a] []

theorem mem_reach_iff (E : List (α × α)) (a b : α) : b ∈ reach E a ↔ RTC (Rel E) a b := by
  unfold reach
  constructor
  · intro h
    exact go_sound E (RTC (Rel E) a) (fun x y hx hxy => .tail hx hxy) [a] []
      (by intro x hx; simp at hx; subst hx; exact .refl _) (by simp) b h
  · intro h
    have hc := go_complete E [a] [] (by simp)
    induction h with
    | refl => exact hc.2.1 a (by simp)
    | tail _ hbc ih => exact hc.2.2 _ ih _ hbc

end Reach

/-! Spike: enumeration of all simple directed paths, sound and complete (fuel = length bound). -/
namespace Paths
variable {α : Type} [DecidableEq α]

def Rel (E : List (α × α)) (a b : α) : Prop := (a, b) ∈ E
def succs (E : List (α × α)) (a : α) : List α := (E.filter (fun e => e.1 = a)).map (·.2)

theorem mem_succs {E : List (α × α)} {a b : α} : b ∈ succs E a ↔ Rel E a b := by
  unfold succs Rel
  simp only [List.mem_map, List.mem_filter, decide_eq_true_eq]
  constructor
  · rintro ⟨⟨x, y⟩, ⟨h1, h2⟩, h3⟩; simp at h2 h3; subst h2 h3; exact h1
  · intro h; exact ⟨(a, b), ⟨h, rfl⟩, rfl⟩

/-- `p` is a directed walk from `a` to `b` -/
inductive Walk (E : List (α × α)) : α → α → List α → Prop
  | single (a) : Walk E a a [a]
  | cons {a s b p} : Rel E a s → Walk E s b p → Walk E a b (a :: p)

def paths (E : List (α × α)) (b : α) : Nat → α → List α → List (List α)
  | 0, _, _ => []
  | f + 1, a, vis =>
    if a = b then [[a]]
    else ((succs E a).filter (fun s => s ∉ a :: vis)).flatMap
      (fun s => (paths E b f s (a :: vis)).map (a :: ·))

/-- specification: simple path avoiding `vis`, of length at most `f` -/
def Good (E : List (α × α)) (a b : α) (vis : List α) (f : Nat) (p : List α) : Prop :=
  Walk E a b p ∧ p.Nodup ∧ (∀ x ∈ p, x ∉ vis) ∧ p.length ≤ f

theorem walk_head_mem {E : List (α × α)} {a b : α} {p : List α} (h : Walk E a b p) : a ∈ p := by
  cases h <;> simp

theorem paths_sound (E : List (α × α)) (b : α) :
    ∀ (f : Nat) (a : α) (vis : List α), a ∉ vis → ∀ p ∈ paths E b f a vis, Good E a b vis f p := by
  intro f
  induction f with
  | zero => intro a vis _ p hp; simp [paths] at hp
  | succ f ih =>
    intro a vis hav p hp
    simp only [paths] at hp
    split at hp
    · rename_i hab; subst hab
      simp at hp; subst hp
      exact ⟨.single _, by simp, by simpa using hav, by simp⟩
    · rename_i hab
      simp only [List.mem_flatMap, List.mem_filter, List.mem_map, decide_eq_true_eq] at hp
      obtain ⟨s, ⟨hs, hsv⟩, q, hq, rfl⟩ := hp
      have hsv' : s ∉ a :: vis := hsv
      obtain ⟨hw, hnd, hvis, hlen⟩ := ih s (a :: vis) hsv' q hq
      refine ⟨.cons (mem_succs.mp hs) hw, ?_, ?_, by simp; omega⟩
      · refine List.nodup_cons.mpr ⟨?_, hnd⟩
        intro haq; exact (hvis a haq) (List.mem_cons_self)
      · intro x hx
        rcases List.mem_cons.mp hx with h | h
        · subst h; exact hav
        · exact fun hxv => hvis x h (List.mem_cons_of_mem _ hxv)

theorem paths_complete (E : List (α × α)) (b : α) :
    ∀ (f : Nat) (a : α) (vis : List α) (p : List α), Good E a b vis f p → p ∈ paths E b f a vis := by
  intro f
  induction f with
  | zero =>
    intro a vis p ⟨hw, _, _, hlen⟩
    cases hw <;> simp at hlen
  | succ f ih =>
    intro a vis p ⟨hw, hnd, hvis, hlen⟩
    simp only [paths]
    cases hw with
    | single => simp
    | cons hr hw' =>
      rename_i s q
      have hab : a ≠ b := by
        intro h; subst h
        -- then a is the last element of q too, contradicting Nodup
        have : a ∈ q := by
          clear ih hlen hvis hr
          induction hw' with
          | single => simp
          | cons _ _ ih' => exact List.mem_cons_of_mem _ (ih' (by simp_all) )
        exact (List.nodup_cons.mp hnd).1 this
      simp only [hab, if_false, List.mem_flatMap, List.mem_filter, List.mem_map, decide_eq_true_eq]
      have hsq : s ∈ q := walk_head_mem hw'
      have hnd' := List.nodup_cons.mp hnd
      refine ⟨s, ⟨mem_succs.mpr hr, ?_⟩, q, ?_, rfl⟩
      · intro h
        rcases List.mem_cons.mp h with h | h
        · subst h; exact hnd'.1 hsq
        · exact hvis s (List.mem_cons_of_mem _ hsq) h
      · apply ih
        refine ⟨hw', hnd'.2, ?_, by simp at hlen; omega⟩
        intro x hx hxv
        rcases List.mem_cons.mp hxv with h | h
        · subst h; exact hnd'.1 hx
        · exact hvis x (List.mem_cons_of_mem _ hx) h

end Paths


/-! ### d-separation: boolean decision procedure = path-blocking definition -/
namespace DSepDec
variable {α : Type} [DecidableEq α]

abbrev Rel (E : List (α × α)) (a b : α) : Prop := (a, b) ∈ E

/-- symmetrised edge list (the skeleton) -/
def sym (E : List (α × α)) : List (α × α) := E ++ E.map (fun e => (e.2, e.1))

theorem mem_sym {E : List (α × α)} {a b : α} : (a, b) ∈ sym E ↔ (a, b) ∈ E ∨ (b, a) ∈ E := by
  unfold sym
  simp only [List.mem_append, List.mem_map]
  constructor
  · rintro (h | ⟨⟨x, y⟩, h1, h2⟩)
    · exact Or.inl h
    · simp at h2; obtain ⟨rfl, rfl⟩ := h2; exact Or.inr h1
  · rintro (h | h)
    · exact Or.inl h
    · exact Or.inr ⟨(b, a), h, rfl⟩

/-- specification -/
def BlocksAt (E : List (α × α)) (Z : List α) (a b c : α) : Prop :=
  ((Rel E a b ∧ Rel E c b) ∧ ∀ d, Reach.RTC (Reach.Rel E) b d → d ∉ Z) ∨ (¬ (Rel E a b ∧ Rel E c b) ∧ b ∈ Z)

def Blocked (E : List (α × α)) (Z : List α) : List α → Prop
  | a :: b :: c :: rest => BlocksAt E Z a b c ∨ Blocked E Z (b :: c :: rest)
  | _ => False

def DSep (E : List (α × α)) (x y : α) (Z : List α) : Prop :=
  ∀ p, Paths.Walk (sym E) x y p → p.Nodup → Blocked E Z p

/-- decision procedure -/
def blocksAtB (E : List (α × α)) (Z : List α) (a b c : α) : Bool :=
  if (a, b) ∈ E ∧ (c, b) ∈ E then (Reach.reach E b).all (fun d => d ∉ Z) else decide (b ∈ Z)

def blockedB (E : List (α × α)) (Z : List α) : List α → Bool
  | a :: b :: c :: rest => blocksAtB E Z a b c || blockedB E Z (b :: c :: rest)
  | _ => false

theorem blocksAtB_iff (E : List (α × α)) (Z : List α) (a b c : α) :
    blocksAtB E Z a b c = true ↔ BlocksAt E Z a b c := by
  unfold blocksAtB BlocksAt
  by_cases h : (a, b) ∈ E ∧ (c, b) ∈ E
  · simp only [h, and_self, if_true, List.all_eq_true, decide_eq_true_eq, true_and, not_true_eq_false,
      false_and, or_false]
    constructor
    · intro hall d hd; exact hall d ((Reach.mem_reach_iff E b d).mpr hd)
    · intro hall d hd; exact hall d ((Reach.mem_reach_iff E b d).mp hd)
  · simp [h]

theorem blockedB_iff (E : List (α × α)) (Z : List α) : ∀ p, blockedB E Z p = true ↔ Blocked E Z p
  | [] => by simp [blockedB, Blocked]
  | [_] => by simp [blockedB, Blocked]
  | [_, _] => by simp [blockedB, Blocked]
  | a :: b :: c :: rest => by
    simp only [blockedB, Blocked, Bool.or_eq_true, blocksAtB_iff, blockedB_iff E Z (b :: c :: rest)]

/-- all vertices that can occur on a path from `x` -/
def verts (E : List (α × α)) (x : α) : List α := x :: (E.map (·.1) ++ E.map (·.2))

def dsepB (E : List (α × α)) (x y : α) (Z : List α) : Bool :=
  (Paths.paths (sym E) y ((verts E x).length + 1) x []).all (blockedB E Z)

theorem walk_subset_verts {E : List (α × α)} {x y : α} {p : List α} (h : Paths.Walk (sym E) x y p) :
    ∀ v ∈ p, v ∈ verts E x := by
  induction h with
  | single a => intro v hv; simp at hv; subst hv; simp [verts]
  | @cons a s b q hr _ ih =>
    intro v hv
    rcases List.mem_cons.mp hv with h | h
    · subst h; simp [verts]
    · have := ih v h
      have hs : s ∈ E.map (·.1) ++ E.map (·.2) := by
        rcases mem_sym.mp hr with h' | h'
        · exact List.mem_append_right _ (List.mem_map.mpr ⟨(a, s), h', rfl⟩)
        · exact List.mem_append_left _ (List.mem_map.mpr ⟨(s, a), h', rfl⟩)
      simp only [verts, List.mem_cons] at this ⊢
      rcases this with h'' | h''
      · subst h''; exact Or.inr hs
      · exact Or.inr h''

theorem dsepB_iff (E : List (α × α)) (x y : α) (Z : List α) : dsepB E x y Z = true ↔ DSep E x y Z := by
  unfold dsepB DSep
  simp only [List.all_eq_true]
  constructor
  · intro h p hw hnd
    have hlen : p.length ≤ (verts E x).length :=
      List.Nodup.length_le_of_subset hnd (walk_subset_verts hw)
    have hmem := Paths.paths_complete (sym E) y ((verts E x).length + 1) x [] p ⟨hw, hnd, by simp, by omega⟩
    exact (blockedB_iff E Z p).mp (h p hmem)
  · intro h p hp
    obtain ⟨hw, hnd, _, _⟩ := Paths.paths_sound (sym E) y ((verts E x).length + 1) x [] (by simp) p hp
    exact (blockedB_iff E Z p).mpr (h p hw hnd)

#print axioms dsepB_iff
-- chain a → b → c : a ⟂ c | b, not a ⟂ c | ∅ ; collider a → b ← c : a ⟂ c | ∅, not a ⟂ c | b
#eval (dsepB [(1,2),(2,3)] 1 3 [2], dsepB [(1,2),(2,3)] 1 3 [], dsepB [(1,2),(3,2)] 1 3 [], dsepB [(1,2),(3,2)] 1 3 [2], dsepB [(1,2),(3,2),(2,4)] 1 3 [4])
end DSepDec
