import itertools, random, json, sys, logging
logging.disable(logging.CRITICAL)
import numpy as np
from cai_causal_graph import CausalGraph, TimeSeriesCausalGraph, EdgeType, NodeVariableType, Skeleton
ET=list(EdgeType); SYM={EdgeType.UNDIRECTED_EDGE,EdgeType.BIDIRECTED_EDGE,EdgeType.UNKNOWN_EDGE}
names=['a','b','c']
pairs=list(itertools.combinations(names,2))
opts=[None]+[(t,o) for t in ET for o in (0,1)]
def build(choice, cls=CausalGraph, order=None, nodes=names):
    g=cls(); 
    for n in nodes: g.add_node(n)
    items=[(p,c) for p,c in zip(pairs,choice) if c is not None]
    if order: items=[items[i] for i in order if i<len(items)]
    for (a,b),(t,o) in items:
        s,d=(a,b) if o==0 else (b,a)
        g.add_edge(s,d,edge_type=t,validate=False)
    return g
def spec_eq(c1,c2):
    for x,y in zip(c1,c2):
        if (x is None)!=(y is None): return False
        if x is None: continue
        if x[0]!=y[0]: return False
        if x[0] not in SYM and x[1]!=y[1]: return False
    return True
allc=list(itertools.product(opts,repeat=3))
print(len(allc))
rng=random.Random(1)
bad={}
# C07: sample pairs + all pairs at edit distance<=1
graphs={c:build(c) for c in allc}
cnt=0
for c1 in allc:
    cands=set()
    for i in range(3):
        for o in opts:
            c2=list(c1); c2[i]=o; cands.add(tuple(c2))
    cands|={rng.choice(allc) for _ in range(5)}
    for c2 in cands:
        g,h=graphs[c1],graphs[c2]
        cnt+=1
        try:
            r=(g==h); r2=(h==g); rn=(g!=h)
        except Exception as ex:
            bad.setdefault('raise '+type(ex).__name__,[]).append((c1,c2)); continue
        e=spec_eq(c1,c2)
        if r!=e or r2!=e or rn==r: bad.setdefault('eq',[]).append((c1,c2,r,r2,e))
        # skeleton eq: same adjacency
        se=all((x is None)==(y is None) for x,y in zip(c1,c2))
        try:
            sr=(g.skeleton==h.skeleton)
            if sr!=se: bad.setdefault('skeq',[]).append((c1,c2,sr,se))
        except Exception as ex: bad.setdefault('skraise '+type(ex).__name__,[]).append((c1,c2))
print('C07 pairs',cnt,{k:len(v) for k,v in bad.items()}); 
for k,v in bad.items(): print(k,v[0])
# C09 + C05 + C08 on each graph
bad={}
for c,g in graphs.items():
    sk=g.skeleton
    adj={frozenset(p) for p,x in zip(pairs,c) if x is not None}
    A=sk.adjacency_matrix
    for i,a in enumerate(names):
        for j,b in enumerate(names):
            if A[i,j]!=(1 if frozenset((a,b)) in adj else 0): bad.setdefault('skadj',[]).append(c)
            if a!=b and sk.edge_exists(a,b)!=(frozenset((a,b)) in adj): bad.setdefault('skexists',[]).append(c)
        if sorted(sk.get_neighbors(a))!=sorted(b for b in names if frozenset((a,b)) in adj): bad.setdefault('sknb',[]).append(c)
    for f in (lambda: Skeleton.from_dict(sk.to_dict()), lambda: Skeleton.from_adjacency_matrix(*sk.to_numpy()), lambda: Skeleton.from_networkx(sk.to_networkx()), lambda: Skeleton.from_gml_string(sk.to_gml_string())):
        try:
            if f()!=sk: bad.setdefault('skrt',[]).append(c)
        except Exception as ex: bad.setdefault('skrt '+type(ex).__name__,[]).append(c)
    # C05
    d=json.loads(json.dumps(g.to_dict()))
    g2=CausalGraph.from_dict(d,validate=False)
    if not g2.__eq__(g,True) or g2.to_dict()!=g.to_dict() or [e.get_edge_pair() for e in g2.edges]!=[e.get_edge_pair() for e in g.edges]: bad.setdefault('dict',[]).append(c)
    # C08
    types={x[0] for x in c if x}
    if types<={EdgeType.DIRECTED_EDGE,EdgeType.UNDIRECTED_EDGE}:
        try:
            M,nm=g.to_numpy()
            g3=CausalGraph.from_adjacency_matrix(M,nm,validate=False)
            if g3!=g: bad.setdefault('np',[]).append(c)
        except Exception as ex: bad.setdefault('np '+type(ex).__name__,[]).append(c)
    else:
        try: g.to_numpy(); bad.setdefault('np-not-refused',[]).append(c)
        except TypeError: pass
    fd=types<={EdgeType.DIRECTED_EDGE}; fu=types<={EdgeType.UNDIRECTED_EDGE}
    for nmf,f in (('nx',lambda: CausalGraph.from_networkx(g.to_networkx(),validate=False)),('gml',lambda: CausalGraph.from_gml_string(g.to_gml_string(),validate=False))):
        try:
            r=f()
            if not (fd or fu): bad.setdefault(nmf+'-not-refused',[]).append(c)
            elif r!=g: bad.setdefault(nmf,[]).append(c)
        except Exception as ex:
            if fd or fu: bad.setdefault(nmf+' '+type(ex).__name__,[]).append(c)
print('C05/C08/C09',{k:len(v) for k,v in bad.items()})
for k,v in bad.items(): print(k,v[0])
