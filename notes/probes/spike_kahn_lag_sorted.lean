/-! Spike: Kahn's algorithm picking the available node of minimal key (lag). If keys never decrease along
    edges (the C13 invariant) and the relation is acyclic, the run succeeds and the keys of the output are sorted.
    Core Lean only. -/
namespace KahnLag
variable {α : Type} [DecidableEq α]

inductive RTC (R : α → α → Prop) : α → α → Prop
  | refl (a) : RTC R a a
  | tail {a b c} : RTC R a b → R b c → RTC R a c
inductive TC (R : α → α → Prop) : α → α → Prop
  | single {a b} : R a b → TC R a b
  | tail {a b c} : TC R a b → R b c → TC R a c

omit [DecidableEq α] in
theorem TC.of_step_rtc {R : α → α → Prop} {a b c : α} (h : R a b) (h' : RTC R b c) : TC R a c := by
  induction h' with
  | refl => exact .single h
  | tail _ hbc ih => exact .tail ih hbc
omit [DecidableEq α] in
theorem RTC.head {R : α → α → Prop} {a b c : α} (h : R a b) (h' : RTC R b c) : RTC R a c := by
  induction h' with
  | refl => exact .tail (.refl _) h
  | tail _ hbc ih => exact .tail ih hbc

def Rel (E : List (α × α)) (a b : α) : Prop := (a, b) ∈ E

/-- climbing predecessors inside `rem` from `y` ends at a source of `rem` that reaches `y` -/
theorem exists_source_above_aux (E : List (α × α)) (hac : ∀ n, ¬ TC (Rel E) n n) (rem : List α) (y : α) :
    ∀ (n : Nat) (x : α) (chain : List α), x ∈ rem → (x :: chain).Nodup → (∀ v ∈ x :: chain, v ∈ rem) →
      (∀ v ∈ x :: chain, RTC (Rel E) x v) → RTC (Rel E) x y → (x :: chain).length + n > rem.length →
      ∃ s ∈ rem, (∀ p ∈ rem, ¬ Rel E p s) ∧ RTC (Rel E) s y := by
  intro n
  induction n with
  | zero =>
    intro x chain _ hnd hsub _ _ hlen
    have := List.Nodup.length_le_of_subset hnd (fun v hv => hsub v hv)
    omega
  | succ n ih =>
    intro x chain hx hnd hsub hreach hxy hlen
    by_cases hsrc : ∀ p ∈ rem, ¬ Rel E p x
    · exact ⟨x, hx, hsrc, hxy⟩
    · have ⟨p, hp, hpx⟩ : ∃ p ∈ rem, Rel E p x := by
        apply Classical.byContradiction
        intro h; apply hsrc; intro p hp hpx; exact h ⟨p, hp, hpx⟩
      have hpnot : p ∉ x :: chain := fun hmem => hac p (TC.of_step_rtc hpx (hreach p hmem))
      refine ih p (x :: chain) hp (List.nodup_cons.mpr ⟨hpnot, hnd⟩) ?_ ?_ (RTC.head hpx hxy)
        (by simp at hlen ⊢; omega)
      · intro v hv
        rcases List.mem_cons.mp hv with h | h
        · subst h; exact hp
        · exact hsub v h
      · intro v hv
        rcases List.mem_cons.mp hv with h | h
        · subst h; exact .refl _
        · exact RTC.head hpx (hreach v h)

theorem exists_source_above (E : List (α × α)) (hac : ∀ n, ¬ TC (Rel E) n n) (rem : List α) (y : α)
    (hy : y ∈ rem) : ∃ s ∈ rem, (∀ p ∈ rem, ¬ Rel E p s) ∧ RTC (Rel E) s y :=
  exists_source_above_aux E hac rem y (rem.length + 1) y [] hy (by simp) (by simpa using hy)
    (by intro v hv; simp at hv; subst hv; exact .refl _) (.refl _) (by simp; omega)

def availB (E : List (α × α)) (rem : List α) (x : α) : Bool := E.all (fun e => !(e.2 = x && e.1 ∈ rem))

theorem availB_iff (E : List (α × α)) (rem : List α) (x : α) :
    availB E rem x = true ↔ ∀ p ∈ rem, ¬ Rel E p x := by
  unfold availB Rel
  simp only [List.all_eq_true, Bool.not_eq_true', Bool.and_eq_false_iff, decide_eq_false_iff_not]
  constructor
  · intro h p hrem hp
    rcases h (p, x) hp with h' | h'
    · exact h' rfl
    · exact h' hrem
  · intro h e he
    by_cases hx : e.2 = x
    · right; intro hrem; exact h e.1 hrem (by rw [← hx]; exact he)
    · left; exact hx

/-- first element of minimal key -/
def pickMin (key : α → Int) : List α → Option α
  | [] => none
  | x :: xs => match pickMin key xs with
    | none => some x
    | some m => if key x ≤ key m then some x else some m

theorem pickMin_spec (key : α → Int) : ∀ (l : List α), l ≠ [] →
    ∃ m, pickMin key l = some m ∧ m ∈ l ∧ ∀ y ∈ l, key m ≤ key y
  | [], h => absurd rfl h
  | x :: xs, _ => by
    cases xs with
    | nil => exact ⟨x, by simp [pickMin], by simp, by simp⟩
    | cons z zs =>
      obtain ⟨m, hm, hmem, hmin⟩ := pickMin_spec key (z :: zs) (by simp)
      simp only [pickMin] at hm ⊢
      rw [hm]
      by_cases hle : key x ≤ key m
      · refine ⟨x, by simp [hle], by simp, ?_⟩
        intro y hy
        rcases List.mem_cons.mp hy with h | h
        · subst h; exact Int.le_refl _
        · exact Int.le_trans hle (hmin y h)
      · refine ⟨m, by simp [hle], List.mem_cons_of_mem _ hmem, ?_⟩
        intro y hy
        rcases List.mem_cons.mp hy with h | h
        · subst h; omega
        · exact hmin y h

def kahn (E : List (α × α)) (key : α → Int) : Nat → List α → Option (List α)
  | 0, rem => if rem = [] then some [] else none
  | f + 1, rem =>
    if rem = [] then some []
    else match pickMin key (rem.filter (availB E rem)) with
      | none => none
      | some x => (kahn E key f (rem.erase x)).map (x :: ·)

omit [DecidableEq α] in
theorem key_mono_rtc {E : List (α × α)} {key : α → Int} (hmono : ∀ a b, Rel E a b → key a ≤ key b)
    {a b : α} (h : RTC (Rel E) a b) : key a ≤ key b := by
  induction h with
  | refl => exact Int.le_refl _
  | tail _ hbc ih => exact Int.le_trans ih (hmono _ _ hbc)

theorem kahn_sorted (E : List (α × α)) (key : α → Int) (hac : ∀ n, ¬ TC (Rel E) n n)
    (hmono : ∀ a b, Rel E a b → key a ≤ key b) :
    ∀ (f : Nat) (rem : List α), rem.length ≤ f →
      ∃ o, kahn E key f rem = some o ∧ (∀ y ∈ o, y ∈ rem) ∧ o.Pairwise (fun a b => key a ≤ key b) := by
  intro f
  induction f with
  | zero =>
    intro rem hlen
    have : rem = [] := List.eq_nil_of_length_eq_zero (by omega)
    subst this; exact ⟨[], by simp [kahn], by simp, by simp⟩
  | succ f ih =>
    intro rem hlen
    simp only [kahn]
    split
    · exact ⟨[], rfl, by simp, by simp⟩
    · rename_i hne
      -- some node is available
      obtain ⟨y0, hy0⟩ : ∃ y, y ∈ rem := by
        cases rem with
        | nil => exact absurd rfl hne
        | cons y _ => exact ⟨y, by simp⟩
      obtain ⟨s0, hs0, hsrc0, _⟩ := exists_source_above E hac rem y0 hy0
      have havne : rem.filter (availB E rem) ≠ [] := by
        intro h
        have : s0 ∈ rem.filter (availB E rem) := List.mem_filter.mpr ⟨hs0, (availB_iff E rem s0).mpr hsrc0⟩
        rw [h] at this; simp at this
      obtain ⟨x, hx, hxmem, hxmin⟩ := pickMin_spec key _ havne
      rw [hx]
      have hxrem : x ∈ rem := (List.mem_filter.mp hxmem).1
      -- x has minimal key among ALL remaining nodes
      have hglob : ∀ y ∈ rem, key x ≤ key y := by
        intro y hy
        obtain ⟨s, hs, hsrc, hsy⟩ := exists_source_above E hac rem y hy
        have h1 := hxmin s (List.mem_filter.mpr ⟨hs, (availB_iff E rem s).mpr hsrc⟩)
        exact Int.le_trans h1 (key_mono_rtc hmono hsy)
      obtain ⟨o', ho', hsub, hsorted⟩ := ih (rem.erase x) (by rw [List.length_erase_of_mem hxrem]; omega)
      refine ⟨x :: o', by simp [ho'], ?_, ?_⟩
      · intro y hy
        rcases List.mem_cons.mp hy with h | h
        · subst h; exact hxrem
        · exact List.mem_of_mem_erase (hsub y h)
      · exact List.pairwise_cons.mpr ⟨fun y hy => hglob y (List.mem_of_mem_erase (hsub y hy)), hsorted⟩

#print axioms kahn_sorted
#eval kahn [("Y1","Y"),("X","Y")] (fun s => if s = "Y1" then -1 else 0) 5 ["X","Y","Y1"]
end KahnLag
