import sys, random, logging, itertools
logging.disable(logging.CRITICAL)
exec(open('p5.py').read().split("seed=int(sys.argv[1])")[0])
import networkx as nx
seed=int(sys.argv[1]); N=int(sys.argv[2])
rng=random.Random(seed)
fails={}
def fail(k, info): fails.setdefault(k, []).append(info)
stat=0; nonstat=0; dagc=0; fb=0
for it in range(N):
    vars_, vinfo, templates = gen(rng, dag_only=True)
    lo = -rng.randint(0,3); hi = 0
    try:
        g = build(rng, vars_, vinfo, templates, (lo,hi), partial=rng.random()<0.6)
    except Exception as ex:
        fail('build', (type(ex).__name__, str(ex)[:80])); continue
    if len(g.nodes)==0: continue
    desc = [(e.source.identifier, str(e.get_edge_type()), e.destination.identifier) for e in g.edges], [n.identifier for n in g.nodes]
    if not g.is_dag(): fail('notdag', desc); continue
    dagc+=1
    lags=[n.time_lag for n in g.nodes]
    if max(lags)==0:
        try:
            s = g.get_stationary_graph()
            sn, se = shape(s); gn, ge = shape(g)
            T = tmpl_of(g); L=min(lags)
            exp_nodes = {(v,l) for v in g.variables for l in range(L,1)}
            exp_edges = {}
            for (a,b,delta),t in T.items():
                for x in range(L,1):
                    if x-delta>=L: exp_edges[((a,x-delta),(b,x))]=t
            # statement-level checks
            if not gn<=sn or not set(ge.items())<=set(se.items()): fail('stat_contains', (desc, gn-sn, set(ge)-set(se)))
            if sn != exp_nodes: fail('stat_nodes', (desc, sn^exp_nodes))
            if se != exp_edges: fail('stat_edges', (desc, set(se)^set(exp_edges)))
            if not s.is_stationary_graph(): fail('stat_is_stat', desc)
            exp_is = (gn==exp_nodes and ge==exp_edges)
            if g.is_stationary_graph() != exp_is: fail('is_stat', (desc, g.is_stationary_graph(), exp_is))
            stat += exp_is; nonstat += (not exp_is)
        except Exception as ex:
            fail('stat_exc', (type(ex).__name__, str(ex)[:100], desc))
    # C17
    try:
        sg = g.get_summary_graph()
    except Exception as ex:
        fail('sum_exc_'+type(ex).__name__, desc); continue
    # C13 topological
    to = g.get_topological_order()
    pos={n:i for i,n in enumerate(to)}
    if any(pos[e.source.identifier]>pos[e.destination.identifier] for e in g.edges): fail('topo_invalid', desc)
    ls=[g.get_node(n).time_lag for n in to]
    if ls!=sorted(ls): fail('topo_time', (desc,to))
    if len(g.nodes)<=6:
        allo = g.get_topological_order(return_all=True)
        ref=[o for o in nx.all_topological_sorts(g.to_networkx()) if [g.get_node(n).time_lag for n in o]==sorted(g.get_node(n).time_lag for n in o)]
        if sorted(map(tuple,allo))!=sorted(map(tuple,ref)): fail('topo_all', desc)
print('dags',dagc,'stat',stat,'nonstat',nonstat,'fails', {k:len(v) for k,v in fails.items()})
for k,v in fails.items(): print(k, v[0])
