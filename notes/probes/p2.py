import itertools, networkx as nx, sys
from cai_causal_graph import CausalGraph, TimeSeriesCausalGraph, EdgeType
from cai_causal_graph.identify_utils import *

# C17
g = TimeSeriesCausalGraph(); g.add_edge('X lag(n=1)','Y'); g.add_edge('Y lag(n=1)','X')
try: print(g.get_summary_graph().edges)
except Exception as ex: print('C17 err', type(ex).__name__)
g = TimeSeriesCausalGraph(); g.add_edge('X lag(n=1)','Y'); g.add_edge('Y lag(n=1)','Z'); g.add_edge('Z lag(n=1)','X')
try: print(g.get_summary_graph().edges)
except Exception as ex: print('C17 err', type(ex).__name__)

def all_dags(n):
    names = [chr(97+i) for i in range(n)]
    pairs = list(itertools.combinations(range(n),2))
    seen=0
    for perm in itertools.permutations(range(n)):
        pass
    # enumerate labelled DAGs: all subsets of ordered pairs that are acyclic
    opairs = [(i,j) for i in range(n) for j in range(n) if i!=j]
    # use orientation choice per unordered pair: 0 none, 1 i->j, 2 j->i
    for choice in itertools.product(range(3), repeat=len(pairs)):
        G = nx.DiGraph(); G.add_nodes_from(names)
        for (i,j),c in zip(pairs,choice):
            if c==1: G.add_edge(names[i],names[j])
            elif c==2: G.add_edge(names[j],names[i])
        if nx.is_directed_acyclic_graph(G):
            yield G

def to_cg(G):
    cg = CausalGraph(); cg.add_nodes_from(sorted(G.nodes))
    for u,v in G.edges: cg.add_edge(u,v)
    return cg

n = int(sys.argv[1])
bad18=0; tot=0; bad_sub=0; bad_sym=0; first=None
bad19i=0; bad19m=0; firsti=None; firstm=None
cnt=0
for G in all_dags(n):
    cnt+=1
    cg = to_cg(G)
    for x,y in itertools.permutations(sorted(G.nodes),2):
        if y in nx.ancestors(G,x): 
            continue
        tot+=1
        Z = set(identify_confounders(cg,x,y))
        ca = nx.ancestors(G,x)&nx.ancestors(G,y)
        if not Z<=ca: bad_sub+=1
        if Z != set(identify_confounders(cg,y,x)): bad_sym+=1
        H = G.copy(); H.remove_edges_from(list(G.out_edges(x)))
        if not nx.d_separated(H,{x},{y},Z):
            bad18+=1
            if first is None: first=(sorted(G.edges),x,y,Z)
        # instruments
        I = identify_instruments(cg,x,y)
        for i in I:
            if i not in nx.ancestors(G,x) or not nx.d_separated(H,{i},{y},set()):
                bad19i+=1
                if firsti is None: firsti=(sorted(G.edges),x,y,I)
        # mediators
        M = set(identify_mediators(cg,x,y))
        paths = [p for p in nx.all_simple_paths(G,x,y) if len(p)>2]
        if paths:
            cand = set.intersection(*[set(p)-{x,y} for p in paths])
            exp = {m for m in cand if not any(m in nx.descendants(H,c) for c in Z)}
        else: exp=set()
        if M!=exp:
            bad19m+=1
            if firstm is None: firstm=(sorted(G.edges),x,y,M,exp)
print('dags',cnt,'pairs',tot,'C18 insufficient',bad18,'notsubset',bad_sub,'asym',bad_sym,first)
print('C19 instr bad',bad19i,firsti)
print('C19 med bad',bad19m,firstm)
