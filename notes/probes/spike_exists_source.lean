/-! Spike: in a finite acyclic relation every non-empty node list has a source (no predecessor in the list).
    Core Lean only (pigeonhole = `List.Nodup.length_le_of_subset`). -/
namespace Source
variable {α : Type} [DecidableEq α]

inductive RTC (R : α → α → Prop) : α → α → Prop
  | refl (a) : RTC R a a
  | tail {a b c} : RTC R a b → R b c → RTC R a c

inductive TC (R : α → α → Prop) : α → α → Prop
  | single {a b} : R a b → TC R a b
  | tail {a b c} : TC R a b → R b c → TC R a c

omit [DecidableEq α] in
theorem TC.of_step_rtc {R : α → α → Prop} {a b c : α} (h : R a b) (h' : RTC R b c) : TC R a c := by
  induction h' with
  | refl => exact .single h
  | tail _ hbc ih => exact .tail ih hbc

omit [DecidableEq α] in
theorem RTC.head {R : α → α → Prop} {a b c : α} (h : R a b) (h' : RTC R b c) : RTC R a c := by
  induction h' with
  | refl => exact .tail (.refl _) h
  | tail _ hbc ih => exact .tail ih hbc

def Rel (E : List (α × α)) (a b : α) : Prop := (a, b) ∈ E

theorem exists_source_aux (E : List (α × α)) (hac : ∀ n, ¬ TC (Rel E) n n) (rem : List α) :
    ∀ (n : Nat) (x : α) (chain : List α), x ∈ rem → (x :: chain).Nodup → (∀ v ∈ x :: chain, v ∈ rem) →
      (∀ v ∈ x :: chain, RTC (Rel E) x v) → (x :: chain).length + n > rem.length →
      ∃ s ∈ rem, ∀ p ∈ rem, ¬ Rel E p s := by
  intro n
  induction n with
  | zero =>
    intro x chain _ hnd hsub _ hlen
    have := List.Nodup.length_le_of_subset hnd (fun v hv => hsub v hv)
    omega
  | succ n ih =>
    intro x chain hx hnd hsub hreach hlen
    by_cases hsrc : ∀ p ∈ rem, ¬ Rel E p x
    · exact ⟨x, hx, hsrc⟩
    · have ⟨p, hp, hpx⟩ : ∃ p ∈ rem, Rel E p x := by
        apply Classical.byContradiction
        intro h; apply hsrc; intro p hp hpx; exact h ⟨p, hp, hpx⟩
      have hpnot : p ∉ x :: chain := by
        intro hmem
        exact hac p (TC.of_step_rtc hpx (hreach p hmem))
      refine ih p (x :: chain) hp (List.nodup_cons.mpr ⟨hpnot, hnd⟩) ?_ ?_ (by simp at hlen ⊢; omega)
      · intro v hv
        rcases List.mem_cons.mp hv with h | h
        · subst h; exact hp
        · exact hsub v h
      · intro v hv
        rcases List.mem_cons.mp hv with h | h
        · subst h; exact .refl _
        · exact RTC.head hpx (hreach v h)

theorem exists_source (E : List (α × α)) (hac : ∀ n, ¬ TC (Rel E) n n) (rem : List α) (hne : rem ≠ []) :
    ∃ s ∈ rem, ∀ p ∈ rem, ¬ Rel E p s := by
  cases rem with
  | nil => exact absurd rfl hne
  | cons x rest =>
    refine exists_source_aux E hac (x :: rest) (rest.length + 1) x [] (by simp) (by simp) (by simp) ?_ (by simp)
    intro v hv; simp at hv; subst hv; exact .refl _

#print axioms exists_source
end Source
