import re, random, itertools, sys
from cai_causal_graph.utils import get_variable_name_and_lag as real, get_name_with_lag as realfmt

def is_digit(c): return c.isdigit() and c in '0123456789'  # ASCII model
def match_marker(s, i, word):
    # match ' '+word+'(n=' digits+ ')' at i ; return (end, value) or None
    pre = ' ' + word + '(n='
    if not s.startswith(pre, i): return None
    j = i+len(pre); k=j
    while k < len(s) and is_digit(s[k]): k+=1
    if k==j or k>=len(s) or s[k] != ')': return None
    return k+1, int(s[j:k])
def count_markers(s, word):
    pre = word+'(n='; n=0; i=0
    # non-overlapping findall
    while True:
        i = s.find(pre, i)
        if i<0: break
        j=i+len(pre); k=j
        while k<len(s) and is_digit(s[k]): k+=1
        if k>j and k<len(s) and s[k]==')':
            n+=1; i=k+1
        else: i+=1
    return n
def at_end(s,i): return i==len(s) or (i==len(s)-1 and s[i]=='\n')
def model(s):
    # priority search
    res=None
    for i in range(1, len(s)+1):          # .+? shortest first (DOTALL)
        # \n* greedy
        m=i
        while m<len(s) and s[m]=='\n': m+=1
        for j in range(m, i-1, -1):
            # optional lag (prefer present), optional future (prefer present)
            opts=[]
            L = match_marker(s,j,'lag')
            for lagm in ([L] if L else [])+[None]:
                p = lagm[0] if lagm else j
                F = match_marker(s,p,'future')
                for fm in ([F] if F else [])+[None]:
                    q = fm[0] if fm else p
                    if at_end(s,q):
                        res=(s[:j], lagm[1] if lagm else None, fm[1] if fm else None); break
                if res: break
            if res: break
        if res: break
    if res is None: return 'ValueError'
    if count_markers(s,'lag')+count_markers(s,'future')>1: return 'ValueError'
    v,l,f=res
    if l: return (v,-l)
    if f: return (v,f)
    return (v,0)
def R(s):
    try: return real(s)
    except ValueError: return 'ValueError'
toks=['a',' ','\n','lag(n=1)',' lag(n=2)',' future(n=3)','future(n=','lag',')','0',' lag(n=0)',' lag(n=)','b lag(n=12)x']
bad=0;n=0
for L in range(0,5):
    for combo in itertools.product(toks, repeat=L):
        s=''.join(combo); n+=1
        if model(s)!=R(s):
            bad+=1
            if bad<10: print(repr(s), model(s), R(s))
print(n,bad)
rng=random.Random(1)
alpha='ab \n()=n0129lgfutre'
for _ in range(200000):
    s=''.join(rng.choice(alpha) for _ in range(rng.randint(0,14)))
    if rng.random()<0.5: s+=rng.choice([' lag(n=3)',' future(n=10)',' lag(n=1) future(n=2)','\n',' lag(n=1)\n'])
    n+=1
    if model(s)!=R(s):
        bad+=1
        if bad<10: print(repr(s), model(s), R(s))
print(n,bad)
print(R('x lag(n=٣)'), R('x lag(n=0)'), R('x future(n=0)'), R('x lag(n=007)'), repr(realfmt('x lag(n=007)', -7)))
