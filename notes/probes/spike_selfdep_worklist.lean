/-! Spike: `_assert_node_does_not_depend_on_itself` mirrored (stack worklist over inbound edges, `checked` set,
    early exit when the start node is popped again), proved equivalent to "the node lies on a directed cycle". -/
namespace SelfDep
variable {α : Type} [DecidableEq α]

inductive RTC (R : α → α → Prop) : α → α → Prop
  | refl (a) : RTC R a a
  | tail {a b c} : RTC R a b → R b c → RTC R a c
inductive TC (R : α → α → Prop) : α → α → Prop
  | single {a b} : R a b → TC R a b
  | tail {a b c} : TC R a b → R b c → TC R a c

omit [DecidableEq α] in
theorem RTC.head {R : α → α → Prop} {a b c : α} (h : R a b) (h' : RTC R b c) : RTC R a c := by
  induction h' with
  | refl => exact .tail (.refl _) h
  | tail _ hbc ih => exact .tail ih hbc
omit [DecidableEq α] in
theorem TC.of_step_rtc {R : α → α → Prop} {a b c : α} (h : R a b) (h' : RTC R b c) : TC R a c := by
  induction h' with
  | refl => exact .single h
  | tail _ hbc ih => exact .tail ih hbc
omit [DecidableEq α] in
theorem TC.split {R : α → α → Prop} {a c : α} (h : TC R a c) : ∃ b, R a b ∧ RTC R b c := by
  induction h with
  | single h => exact ⟨_, h, .refl _⟩
  | tail _ hbc ih => obtain ⟨b, h1, h2⟩ := ih; exact ⟨b, h1, .tail h2 hbc⟩

def Rel (E : List (α × α)) (a b : α) : Prop := (a, b) ∈ E
def preds (E : List (α × α)) (a : α) : List α := (E.filter (fun e => e.2 = a)).map (·.1)

theorem mem_preds {E : List (α × α)} {a p : α} : p ∈ preds E a ↔ Rel E p a := by
  unfold preds Rel
  simp only [List.mem_map, List.mem_filter, decide_eq_true_eq]
  constructor
  · rintro ⟨⟨x, y⟩, ⟨h1, h2⟩, h3⟩; simp at h2 h3; subst h2 h3; exact h1
  · intro h; exact ⟨(p, a), ⟨h, rfl⟩, rfl⟩

def pending (E : List (α × α)) (seen : List α) : Nat := E.countP (fun e => decide (e.2 ∉ seen))

theorem preds_length (E : List (α × α)) (a : α) : (preds E a).length = E.countP (fun e => decide (e.2 = a)) := by
  unfold preds; simp [List.countP_eq_length_filter]

theorem pending_cons (E : List (α × α)) (seen : List α) (a : α) (ha : a ∉ seen) :
    pending E (a :: seen) + (preds E a).length = pending E seen := by
  rw [preds_length]; unfold pending
  induction E with
  | nil => simp
  | cons e E ih =>
    simp only [List.countP_cons]
    by_cases h1 : e.2 = a
    · have h2 : e.2 ∉ seen := by rw [h1]; exact ha
      have h3 : ¬ (e.2 ∉ a :: seen) := by simp [h1]
      simp_all; omega
    · by_cases h2 : e.2 ∈ seen
      · have h3 : ¬ (e.2 ∉ a :: seen) := by simp [h2]
        simp_all
      · have h3 : e.2 ∉ a :: seen := by simp [h1, h2]
        simp_all; omega

/-- `true` = the Python loop raises (node depends on itself) -/
def go (E : List (α × α)) (id : α) (todo checked : List α) : Bool :=
  match todo with
  | [] => false
  | cur :: todo =>
    if cur = id ∧ checked ≠ [] then true
    else if h : cur ∈ checked then go E id todo checked
    else go E id (preds E cur ++ todo) (cur :: checked)
termination_by todo.length + pending E checked
decreasing_by
  · simp
  · have := pending_cons E checked cur h
    simp only [List.length_append, List.length_cons]; omega

def selfDep (E : List (α × α)) (id : α) : Bool := go E id [id] []

/-- soundness (general state, after the first pop): `true` only if `id` is on a cycle -/
theorem go_sound (E : List (α × α)) (id : α) (todo checked : List α) (hne : checked ≠ [])
    (hc : ∀ c ∈ checked, RTC (Rel E) c id)
    (ht : ∀ x ∈ todo, ∃ c ∈ checked, Rel E x c) :
    go E id todo checked = true → TC (Rel E) id id := by
  induction todo, checked using go.induct (E := E) (id := id) with
  | case1 checked => intro h; rw [go] at h; cases h
  | case2 checked cur todo hcond =>
    intro _
    obtain ⟨rfl, _⟩ := hcond
    obtain ⟨c, hcm, hrel⟩ := ht _ List.mem_cons_self
    exact TC.of_step_rtc hrel (hc c hcm)
  | case3 checked cur todo hcond hmem ih =>
    intro h; rw [go] at h; simp only [hcond, if_false, hmem, dite_true] at h
    exact ih hne hc (fun x hx => ht x (List.mem_cons_of_mem _ hx)) h
  | case4 checked cur todo hcond hmem ih =>
    intro h; rw [go] at h; simp only [hcond, if_false, hmem, dite_false] at h
    obtain ⟨c0, hcm0, hrel0⟩ := ht cur List.mem_cons_self
    have hcur : RTC (Rel E) cur id := RTC.head hrel0 (hc c0 hcm0)
    refine ih (by simp) ?_ ?_ h
    · intro c hcm
      rcases List.mem_cons.mp hcm with h' | h'
      · subst h'; exact hcur
      · exact hc c h'
    · intro x hx
      rcases List.mem_append.mp hx with h' | h'
      · exact ⟨cur, List.mem_cons_self, mem_preds.mp h'⟩
      · obtain ⟨c, hcm, hrel⟩ := ht x (List.mem_cons_of_mem _ h')
        exact ⟨c, List.mem_cons_of_mem _ hcm, hrel⟩

/-- once `id` is waiting in the stack and something has been checked, the loop raises -/
theorem go_true_of_mem (E : List (α × α)) (id : α) (todo checked : List α) (hne : checked ≠ [])
    (hid : id ∈ todo) : go E id todo checked = true := by
  induction todo, checked using go.induct (E := E) (id := id) with
  | case1 checked => simp at hid
  | case2 checked cur todo hcond => rw [go]; simp [hcond]
  | case3 checked cur todo hcond hmem ih =>
    rw [go]; simp only [hcond, if_false, hmem, dite_true]
    apply ih hne
    rcases List.mem_cons.mp hid with h | h
    · subst h; exact absurd ⟨rfl, hne⟩ hcond
    · exact h
  | case4 checked cur todo hcond hmem ih =>
    rw [go]; simp only [hcond, if_false, hmem, dite_false]
    apply ih (by simp)
    rcases List.mem_cons.mp hid with h | h
    · subst h; exact absurd ⟨rfl, hne⟩ hcond
    · exact List.mem_append_right _ h

/-- completeness (general state): if the loop ends quietly, the final checked set is closed under
    predecessors, contains what was given, and none of its *new* members has `id` as a predecessor -/
theorem go_false (E : List (α × α)) (id : α) (todo checked : List α) (hne : checked ≠ [])
    (hinv : ∀ c ∈ checked, ∀ p, Rel E p c → p ∈ checked ∨ p ∈ todo)
    (hno : ∀ c ∈ checked, ¬ Rel E id c) :
    go E id todo checked = false →
      ∃ S : List α, (∀ c ∈ checked, c ∈ S) ∧ (∀ x ∈ todo, x ∈ S) ∧
        (∀ c ∈ S, ∀ p, Rel E p c → p ∈ S) ∧ (∀ c ∈ S, ¬ Rel E id c) := by
  induction todo, checked using go.induct (E := E) (id := id) with
  | case1 checked =>
    intro _
    refine ⟨checked, fun c h => h, by simp, ?_, hno⟩
    intro c hc p hp
    rcases hinv c hc p hp with h | h
    · exact h
    · simp at h
  | case2 checked cur todo hcond => intro h; rw [go] at h; simp [hcond] at h
  | case3 checked cur todo hcond hmem ih =>
    intro h; rw [go] at h; simp only [hcond, if_false, hmem, dite_true] at h
    obtain ⟨S, h1, h2, h3, h4⟩ := ih hne (by
      intro c hc p hp
      rcases hinv c hc p hp with h' | h'
      · exact Or.inl h'
      · rcases List.mem_cons.mp h' with h'' | h''
        · subst h''; exact Or.inl hmem
        · exact Or.inr h'') hno h
    refine ⟨S, h1, ?_, h3, h4⟩
    intro x hx
    rcases List.mem_cons.mp hx with h' | h'
    · subst h'; exact h1 _ hmem
    · exact h2 x h'
  | case4 checked cur todo hcond hmem ih =>
    intro h; rw [go] at h; simp only [hcond, if_false, hmem, dite_false] at h
    -- `id` is not a predecessor of `cur`, otherwise the loop would raise
    have hnoid : ¬ Rel E id cur := by
      intro hrel
      have := go_true_of_mem E id (preds E cur ++ todo) (cur :: checked) (by simp)
        (List.mem_append_left _ (mem_preds.mpr hrel))
      rw [this] at h; cases h
    obtain ⟨S, h1, h2, h3, h4⟩ := ih (by simp) (by
      intro c hc p hp
      rcases List.mem_cons.mp hc with h' | h'
      · subst h'; exact Or.inr (List.mem_append_left _ (mem_preds.mpr hp))
      · rcases hinv c h' p hp with h'' | h''
        · exact Or.inl (List.mem_cons_of_mem _ h'')
        · rcases List.mem_cons.mp h'' with h3 | h3
          · subst h3; exact Or.inl List.mem_cons_self
          · exact Or.inr (List.mem_append_right _ h3)) (by
      intro c hc
      rcases List.mem_cons.mp hc with h' | h'
      · subst h'; exact hnoid
      · exact hno c h') h
    refine ⟨S, fun c hc => h1 c (List.mem_cons_of_mem _ hc), ?_, h3, h4⟩
    intro x hx
    rcases List.mem_cons.mp hx with h' | h'
    · subst h'; exact h1 _ List.mem_cons_self
    · exact h2 x (List.mem_append_right _ h')

/-- the first iteration: `checked` is empty, so the exemption applies and `id` itself is checked -/
theorem selfDep_unfold (E : List (α × α)) (id : α) : selfDep E id = go E id (preds E id) [id] := by
  unfold selfDep; rw [go]; simp

theorem selfDep_iff (E : List (α × α)) (id : α) : selfDep E id = true ↔ TC (Rel E) id id := by
  rw [selfDep_unfold]
  constructor
  · apply go_sound E id _ _ (by simp)
    · intro c hc; simp at hc; subst hc; exact .refl _
    · intro x hx; exact ⟨id, by simp, mem_preds.mp hx⟩
  · intro htc
    cases hgo : go E id (preds E id) [id] with
    | true => rfl
    | false =>
      exfalso
      -- no self-loop, otherwise `id ∈ preds id` and the loop raises
      have hnoself : ¬ Rel E id id := by
        intro hrel
        have := go_true_of_mem E id (preds E id) [id] (by simp) (mem_preds.mpr hrel)
        rw [this] at hgo; cases hgo
      obtain ⟨S, h1, _, h3, h4⟩ := go_false E id (preds E id) [id] (by simp)
        (by intro c hc p hp; simp at hc; subst hc; exact Or.inr (mem_preds.mpr hp))
        (by intro c hc; simp at hc; subst hc; exact hnoself) hgo
      -- every ancestor-or-self of `id` is in S
      have hanc : ∀ c, RTC (Rel E) c id → c ∈ S := by
        intro c hc
        -- induction from the `id` end: use head-recursion by reversing
        have : ∀ a b, RTC (Rel E) a b → b ∈ S → a ∈ S := by
          intro a b hab
          induction hab with
          | refl => exact fun h => h
          | tail _ hbc ih => exact fun hcS => ih (h3 _ hcS _ hbc)
        exact this c id hc (h1 id (by simp))
      obtain ⟨b, hidb, hbid⟩ := TC.split htc
      exact h4 b (hanc b hbid) hidb

#print axioms selfDep_iff
#eval selfDep [(1,2),(2,3),(3,1)] 1
#eval selfDep [(1,2),(2,3)] 1
#eval selfDep [(1,2),(2,3),(3,2)] 1
end SelfDep
