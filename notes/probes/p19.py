import itertools, sys, random, logging
logging.disable(logging.CRITICAL)
from cai_causal_graph import CausalGraph, EdgeType
from cai_causal_graph.identify_utils import identify_markov_boundary, identify_colliders
n=int(sys.argv[1]); part=int(sys.argv[2]); nparts=int(sys.argv[3])
names=[chr(97+i) for i in range(n)]
pairs=list(itertools.combinations(range(n),2))
def reach(E,a):
    seen=set(); st=[a]
    while st:
        x=st.pop()
        for (u,v) in E:
            if u==x and v not in seen: seen.add(v); st.append(v)
    return seen
def paths(E,a,b,vis=()):
    if a==b: yield [a]; return
    for (u,v) in sorted(E):
        if u==a and v not in vis and v!=a:
            for p in paths(E,v,b,vis+(a,)): yield [a]+p
def toposorts(nodes,E):
    def rec(rem,acc):
        if not rem: yield list(acc); return
        for x in sorted(rem):
            if not any(v==x and u in rem for (u,v) in E):
                yield from rec(rem-{x},acc+[x])
    yield from rec(set(nodes),[])
bad={}; cnt=0
idx=0
for choice in itertools.product(range(3), repeat=len(pairs)):
    E=set()
    for (i,j),c in zip(pairs,choice):
        if c==1: E.add((names[i],names[j]))
        elif c==2: E.add((names[j],names[i]))
    # acyclic?
    if any(a in reach(E,a) for a in names): continue
    idx+=1
    if idx%nparts!=part: continue
    cnt+=1
    order=list(E); random.Random(idx).shuffle(order)
    g=CausalGraph(); nn=names[:]; random.Random(idx).shuffle(nn); g.add_nodes_from(nn)
    for u,v in order: g.add_edge(u,v)
    D={a:reach(E,a) for a in names}
    A={a:{b for b in names if a in D[b]} for a in names}
    def chk(k,cond,info=None):
        if not cond: bad.setdefault(k,[]).append((sorted(E),info))
    for a in names:
        chk('anc',g.get_ancestors(a)==A[a],a); chk('desc',g.get_descendants(a)==D[a],a)
        ag=g.get_ancestral_graph(a); keep=A[a]|{a}
        chk('ancg',sorted(x.identifier for x in ag.nodes)==sorted(keep) and sorted(ag.get_edge_pairs())==sorted(e for e in E if e[0] in keep and e[1] in keep),a)
        dg=g.get_descendant_graph(a); keep=D[a]|{a}
        chk('descg',sorted(x.identifier for x in dg.nodes)==sorted(keep) and sorted(dg.get_edge_pairs())==sorted(e for e in E if e[0] in keep and e[1] in keep),a)
        pg=g.get_parents_graph(a); par={u for (u,v) in E if v==a}
        chk('parg',sorted(x.identifier for x in pg.nodes)==sorted(par|{a}) and sorted(pg.get_edge_pairs())==sorted((u,a) for u in par),a)
        cg_=g.get_children_graph(a); ch={v for (u,v) in E if u==a}
        chk('chg',sorted(x.identifier for x in cg_.nodes)==sorted(ch|{a}) and sorted(cg_.get_edge_pairs())==sorted((a,v) for v in ch),a)
        # markov boundary
        mb=par|ch|{u for (u,v) in E if v in ch and u!=a}
        chk('mb',sorted(identify_markov_boundary(g,a))==sorted(mb),a)
        chk('mbsk',sorted(identify_markov_boundary(g.skeleton,a))==sorted(par|ch),a)
        for b in names:
            chk('isanc',g.is_ancestor(a,b)==(b in D[a]),(a,b))
            chk('isdesc',g.is_descendant(a,b)==(b in A[a]),(a,b))
            chk('isanc_list',g.is_ancestor(a,[b,b])==(b in D[a]),(a,b))
            chk('dpe',g.directed_path_exists(a,b)==(b in D[a]),(a,b))
            ps=sorted(paths(E,a,b)) if a!=b else []
            chk('paths',sorted(g.get_all_causal_paths(a,b))==ps,(a,b))
            nb={x.identifier for x in g.get_nodes_between(a,b)}
            exp={x for x in names if (x==a or x in D[a]) and (x==b or b in D[x])} if (a==b or b in D[a]) else set()
            chk('between',nb==exp,(a,b,nb,exp))
            chk('comanc',g.get_common_ancestors(a,b)==A[a]&A[b],(a,b)); chk('comdesc',g.get_common_descendants(a,b)==D[a]&D[b],(a,b))
    ts=sorted(map(tuple,toposorts(names,E)))
    chk('alltopo',sorted(map(tuple,g.get_topological_order(return_all=True)))==ts)
    chk('topo',tuple(g.get_topological_order()) in set(ts))
    col={a for a in names if len([u for (u,v) in E if v==a])>=2}
    chk('col',sorted(identify_colliders(g))==sorted(col))
    uns={a for a in col if not any((p,q) in E or (q,p) in E for p,q in itertools.combinations([u for (u,v) in E if v==a],2))}
    chk('uncol',sorted(identify_colliders(g,unshielded_only=True))==sorted(uns))
print(n,part,cnt,{k:len(v) for k,v in bad.items()})
for k,v in bad.items(): print(k,v[0])
