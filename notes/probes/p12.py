from cai_causal_graph import TimeSeriesCausalGraph, CausalGraph, EdgeType
t=TimeSeriesCausalGraph()
try: t.add_edge('X','Y lag(n=1) lag(n=2)')
except Exception as ex: print(type(ex).__name__, t.nodes)
t=TimeSeriesCausalGraph(); t.add_node('X lag(n=1)'); t.replace_node('X lag(n=1)', meta={'color':'red'})
try: t.delete_node('X lag(n=1)'); print('deleted')
except Exception as ex: print('delete fails', type(ex).__name__)
# TS change_edge_type cycle
t=TimeSeriesCausalGraph(); t.add_edge('A','B'); t.add_edge('B','C'); t.add_edge('C','A',edge_type=EdgeType.UNDIRECTED_EDGE)
try: t.change_edge_type('C','A',EdgeType.DIRECTED_EDGE)
except Exception as ex: print(type(ex).__name__, t.edges)
# replace_node in plain graph partial? new node exists assertion first -> no partial. 
