/-! Spike: operational model of the name regex on `List Char`. -/

namespace Name

abbrev Str := List Char

def isDig (c : Char) : Bool := c.isDigit

/-- longest run of digits at the head -/
def takeDigits : Str → Str × Str
  | [] => ([], [])
  | c :: cs => if isDig c then let (d, r) := takeDigits cs; (c :: d, r) else ([], c :: cs)

def stripPrefix? : Str → Str → Option Str
  | [], s => some s
  | _ :: _, [] => none
  | p :: ps, c :: cs => if p = c then stripPrefix? ps cs else none

/-- match `' ' ++ word ++ "(n=" ++ digits+ ++ ")"` at the head; returns digits and rest -/
def matchMarker (word : Str) (s : Str) : Option (Str × Str) :=
  match stripPrefix? (' ' :: word ++ "(n=".toList) s with
  | none => none
  | some r =>
    match takeDigits r with
    | ([], _) => none
    | (d, ')' :: rest) => some (d, rest)
    | _ => none

def atEnd (s : Str) : Bool := s == [] || s == ['\n']

/-- the tail after group 1: optional lag (prefer present), optional future (prefer present), `$` -/
def matchTail (s : Str) : Option (Option Str × Option Str) :=
  let tryFuture (lag : Option Str) (p : Str) : Option (Option Str × Option Str) :=
    match matchMarker "future".toList p with
    | some (d, q) => if atEnd q then some (lag, some d) else if atEnd p then some (lag, none) else none
    | none => if atEnd p then some (lag, none) else none
  match matchMarker "lag".toList s with
  | some (d, p) =>
    match tryFuture (some d) p with
    | some r => some r
    | none => tryFuture none s
  | none => tryFuture none s

def newlineRun : Str → Nat
  | '\n' :: cs => newlineRun cs + 1
  | _ => 0

/-- for fixed `.+?` length already consumed (prefix `pre` reversed in acc), try `\n*` greedy then back off.
    `k` newlines are available at the head of `s`. Returns group-1 extension count and tail result. -/
def tryNewlines (s : Str) : Nat → Option (Nat × (Option Str × Option Str))
  | 0 => (matchTail s).map (fun r => (0, r))
  | k + 1 =>
    match matchTail (s.drop (k + 1)) with
    | some r => some (k + 1, r)
    | none => tryNewlines s k

/-- search over the length of `.+?` (shortest first). `pre` is what `.+?` has consumed so far (≥ 1 char). -/
def search : Str → Str → Option (Str × Option Str × Option Str)
  | _, [] => none  -- handled by caller for the final position
  | pre, c :: cs =>
    -- `.+?` = pre ++ [c]
    let pre' := pre ++ [c]
    match tryNewlines cs (newlineRun cs) with
    | some (k, (l, f)) => some (pre' ++ cs.take k, l, f)
    | none => search pre' cs

#eval search [] "a lag(n=12)".toList
#eval search [] "a\n\n".toList
#eval search [] "a\nb\n".toList
#eval search [] "a lag(n=1) future(n=2)".toList
#eval search [] " lag(n=1)".toList
#eval search [] "".toList

end Name
