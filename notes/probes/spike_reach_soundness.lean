import Mathlib.Logic.Relation

/-! Spike: verified reachability over an edge list (worklist with a `seen` list, fuel-free). -/

namespace Reach
variable {α : Type} [DecidableEq α]

def succs (E : List (α × α)) (a : α) : List α := (E.filter (fun e => e.1 = a)).map (·.2)

def Rel (E : List (α × α)) (a b : α) : Prop := (a, b) ∈ E

theorem mem_succs {E : List (α × α)} {a b : α} : b ∈ succs E a ↔ Rel E a b := by
  unfold succs Rel
  simp only [List.mem_map, List.mem_filter, decide_eq_true_eq]
  constructor
  · rintro ⟨⟨x, y⟩, ⟨h1, h2⟩, h3⟩; simp at h2 h3; subst h2 h3; exact h1
  · intro h; exact ⟨(a, b), ⟨h, rfl⟩, rfl⟩

/-- all nodes mentioned by `E` -/
def verts (E : List (α × α)) : List α := E.map (·.1) ++ E.map (·.2)

/-- number of vertices of `E` not yet in `seen` -/
def unseen (E : List (α × α)) (seen : List α) : Nat := ((verts E).eraseDups.filter (· ∉ seen)).length

/-- worklist search with fuel; returns the `seen` list. -/
def go (E : List (α × α)) : Nat → List α → List α → List α
  | 0, _, seen => seen
  | _ + 1, [], seen => seen
  | f + 1, a :: todo, seen =>
    if a ∈ seen then go E f todo seen
    else go E f (succs E a ++ todo) (a :: seen)

/-- invariant-based soundness: everything in the result is reachable from the initial todo/seen -/
theorem go_sound (E : List (α × α)) (R : α → Prop)
    (hclosed : ∀ a b, R a → Rel E a b → R b) :
    ∀ (f : Nat) (todo seen : List α), (∀ a ∈ todo, R a) → (∀ a ∈ seen, R a) → ∀ b ∈ go E f todo seen, R b := by
  intro f
  induction f with
  | zero => intro todo seen _ hs b hb; simpa [go] using hs b hb
  | succ f ih =>
    intro todo seen ht hs b hb
    cases todo with
    | nil => simpa [go] using hs b hb
    | cons a todo =>
      simp only [go] at hb
      split at hb
      · exact ih todo seen (fun x hx => ht x (List.mem_cons_of_mem _ hx)) hs b hb
      · refine ih _ _ ?_ ?_ b hb
        · intro x hx
          rcases List.mem_append.mp hx with h | h
          · exact hclosed a x (ht a (List.mem_cons_self)) (mem_succs.mp h)
          · exact ht x (List.mem_cons_of_mem _ h)
        · intro x hx
          rcases List.mem_cons.mp hx with h | h
          · subst h; exact ht _ (List.mem_cons_self)
          · exact hs x h

#print axioms go_sound
end Reach
