from cai_causal_graph import CausalGraph, TimeSeriesCausalGraph, EdgeType
import networkx as nx
print(CausalGraph().get_topological_order(return_all=True), TimeSeriesCausalGraph().get_topological_order(return_all=True), TimeSeriesCausalGraph().get_topological_order())
g=CausalGraph(); print(g.is_dag(), g.identifier)
# directed_path_exists on cyclic validate=False
g=CausalGraph(); g.add_edge('a','b',validate=False); g.add_edge('b','a') if False else None
g=CausalGraph.from_adjacency_matrix(__import__('numpy').array([[0,1,0],[0,0,1],[1,0,0]]), ['a','b','c'], validate=False)
print(g.is_dag())
g.add_node('d')
try: print(g.directed_path_exists('a','d'))
except RecursionError: print('RecursionError')
# self-loop in matrix
g=CausalGraph.from_adjacency_matrix(__import__('numpy').array([[1,1],[0,0]]), ['a','b']); print(g.edges)
# get_nodes_between s==t
g=CausalGraph(); g.add_edge('a','b'); print(g.get_nodes_between('a','a'), g.get_nodes_between('b','a'))
# equality across classes
t=TimeSeriesCausalGraph(); c=CausalGraph(); print(c==t, t==c)
# TS json roundtrip
import json
t=TimeSeriesCausalGraph(); t.add_edge('X lag(n=1)','X', edge_type=EdgeType.UNKNOWN_DIRECTED_EDGE, meta={'a':{'b':[1,2]}}); t.add_node('F future(n=2)')
t2=TimeSeriesCausalGraph.from_dict(json.loads(json.dumps(t.to_dict())))
print(t2.__eq__(t, True), t2.to_dict()==t.to_dict(), type(t2.edges[0].get_edge_type()))
c=CausalGraph.from_dict(t.to_dict()); print(c.nodes, c.get_node('X').meta, c.edges)
