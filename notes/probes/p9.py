import random, sys, json, logging, itertools
logging.disable(logging.CRITICAL)
import numpy as np, networkx as nx
from cai_causal_graph import CausalGraph, TimeSeriesCausalGraph, EdgeType, NodeVariableType, Skeleton
from cai_causal_graph.exceptions import CausalGraphErrors as E
ET=list(EdgeType); SYM={EdgeType.UNDIRECTED_EDGE,EdgeType.BIDIRECTED_EDGE,EdgeType.UNKNOWN_EDGE}
def lag(n):
    from cai_causal_graph.utils import get_variable_name_and_lag
    return get_variable_name_and_lag(n)[1]
class Ref:
    def __init__(s, ts): s.ts=ts; s.nodes={}; s.edges={}  # edges[(a,b)]=type
    def acyc(s, extra=None):
        G=nx.DiGraph(); G.add_nodes_from(s.nodes)
        for (a,b),t in s.edges.items():
            if t==EdgeType.DIRECTED_EDGE: G.add_edge(a,b)
        return nx.is_directed_acyclic_graph(G)
    def add_edge(s,a,b,t):
        if a==b: return 'CyclicConnectionError'
        if s.ts:
            if t==EdgeType.DIRECTED_EDGE and lag(a)>lag(b): return 'ValueError'
        if (a,b) in s.edges: return 'EdgeDuplicatedError'
        if s.ts and t!=EdgeType.DIRECTED_EDGE and lag(a)>lag(b): a,b=b,a
        if (a,b) in s.edges: return 'EdgeDuplicatedError'
        if (b,a) in s.edges: return 'ReverseEdgeExistsError'
        s.edges[(a,b)]=t
        if not s.acyc():
            del s.edges[(a,b)]; return 'CyclicConnectionError'
        s.nodes.setdefault(a,1); s.nodes.setdefault(b,1)
        return None
    def del_edge(s,a,b):
        if a not in s.nodes or b not in s.nodes: return 'NodeDoesNotExistError'
        if (a,b) not in s.edges: return 'EdgeDoesNotExistError'
        del s.edges[(a,b)]
    def del_node(s,a):
        if a not in s.nodes: return 'KeyError'
        del s.nodes[a]
        for k in [k for k in s.edges if a in k]: del s.edges[k]
def snap(g):
    nodes=sorted(n.identifier for n in g.nodes)
    edges=sorted((e.source.identifier,e.destination.identifier,str(e.get_edge_type())) for e in g.edges)
    return nodes,edges
def views_ok(g, ref):
    nodes,edges=snap(g)
    if nodes!=sorted(ref.nodes): return 'nodes'
    if edges!=sorted((a,b,str(t)) for (a,b),t in ref.edges.items()): return 'edges %s %s'%(edges,ref.edges)
    for n in nodes:
        par=sorted(a for (a,b),t in ref.edges.items() if b==n and t==EdgeType.DIRECTED_EDGE)
        ch=sorted(b for (a,b),t in ref.edges.items() if a==n and t==EdgeType.DIRECTED_EDGE)
        nb=sorted({a for (a,b) in ref.edges if b==n}|{b for (a,b) in ref.edges if a==n})
        if sorted(g.get_parents(n))!=par: return 'parents'
        if sorted(g.get_children(n))!=ch: return 'children'
        if sorted(g.get_neighbors(n))!=nb: return 'nbrs'
        if [(e.source.identifier,e.destination.identifier) for e in g.get_edges(source=n)]!=sorted((a,b) for (a,b) in ref.edges if a==n): return 'bysrc'
        if [(e.source.identifier,e.destination.identifier) for e in g.get_edges(destination=n)]!=sorted((a,b) for (a,b) in ref.edges if b==n): return 'bydst'
    fd=all(t==EdgeType.DIRECTED_EDGE for t in ref.edges.values())
    if g.is_dag()!=(fd and ref.acyc()): return 'is_dag'
    # fresh copy comparisons (C04)
    f=g.__class__.from_dict(g.to_dict())
    if f!=g or g!=f or not g.__eq__(f,True): return 'eqcopy'
    try: a1=g.adjacency_matrix.tolist(); a2=f.adjacency_matrix.tolist(); 
    except TypeError: a1=a2=None
    if a1!=a2: return 'adj stale'
    try: n1=sorted(g.to_networkx().edges); n2=sorted(f.to_networkx().edges); nn1=sorted(g.to_networkx().nodes); nn2=sorted(f.to_networkx().nodes)
    except E.GraphConversionError: n1=n2=nn1=nn2=None
    if n1!=n2 or nn1!=nn2: return 'nx stale'
    if g.ts if hasattr(g,'ts') else False: pass
    if isinstance(g,TimeSeriesCausalGraph):
        if g.variables!=f.variables: return 'variables stale'
        def tr(fn):
            try: return fn()
            except Exception as ex: return type(ex).__name__
        if tr(g.is_minimal_graph)!=tr(f.is_minimal_graph): return 'ismin stale'
        if tr(g.is_stationary_graph)!=tr(f.is_stationary_graph): return 'isstat stale'
        for n in g.nodes:
            if (n.variable_name,n.time_lag)!=__import__('cai_causal_graph.utils',fromlist=['x']).get_variable_name_and_lag(n.identifier): return 'nodeattrs'
        lags={}
        for n in g.nodes: lags.setdefault(n.time_lag,[]).append(n.identifier)
        for l in list(lags)+[7]:
            if sorted(x.identifier for x in g.get_nodes_at_lag(l))!=sorted(lags.get(l,[])): return 'lagidx'
    # skeleton C09
    sk=g.skeleton
    if sorted(n.identifier for n in sk.nodes)!=nodes: return 'sknodes'
    if sorted(tuple(sorted(e.get_edge_pair())) for e in sk.edges)!=sorted(tuple(sorted(k)) for k in ref.edges): return 'skedges'
    return None
seed=int(sys.argv[1]); N=int(sys.argv[2])
rng=random.Random(seed); fails={}
for it in range(N):
    ts=rng.random()<0.5
    names=['a','b','c','d'] if not ts else ['X','X lag(n=1)','Y','Y lag(n=1)','Y future(n=1)']
    g=(TimeSeriesCausalGraph if ts else CausalGraph)(); ref=Ref(ts); hist=[]
    for step in range(rng.randint(1,14)):
        op=rng.choice(['add_edge']*5+['del_edge','del_node','add_node','change','replace_edge'])
        a,b=rng.choice(names),rng.choice(names); t=rng.choice(ET)
        hist.append((op,a,b,str(t)))
        before=(dict(ref.nodes),dict(ref.edges))
        try:
            if op=='add_edge':
                exp=ref.add_edge(a,b,t); g.add_edge(a,b,edge_type=t)
            elif op=='del_edge':
                exp=ref.del_edge(a,b); g.delete_edge(a,b)
            elif op=='del_node':
                exp=ref.del_node(a); g.delete_node(a)
            elif op=='add_node':
                exp='NodeDuplicatedError' if a in ref.nodes else None
                if exp is None: ref.nodes[a]=1
                g.add_node(a)
            elif op=='change':
                if (a,b) not in ref.edges: exp='EdgeDoesNotExistError'
                else:
                    old=ref.edges[(a,b)]
                    if old==t: exp=None
                    else:
                        del ref.edges[(a,b)]; exp=ref.add_edge(a,b,t)
                        if exp: ref.edges[(a,b)]=old
                g.change_edge_type(a,b,t)
            elif op=='replace_edge':
                c,d=rng.choice(names),rng.choice(names); hist[-1]=hist[-1]+(c,d)
                if (a,b) not in ref.edges: exp='EdgeDoesNotExistError'
                elif (c,d) in ref.edges: exp='EdgeExistsError'
                else:
                    old=ref.edges.pop((a,b)); exp=ref.add_edge(c,d,old)
                    if exp: ref.edges[(a,b)]=old
                g.replace_edge(a,b,c,d)
            got=None
        except Exception as ex:
            got=type(ex).__name__
        if got!=exp:
            fails.setdefault('err %s exp %s got %s ts=%s'%(op,exp,got,ts),[]).append(hist[:]); break
        if got is not None:
            nodes,edges=snap(g)
            if nodes!=sorted(ref.nodes) or edges!=sorted((x,y,str(tt)) for (x,y),tt in ref.edges.items()):
                fails.setdefault('C03 %s %s ts=%s'%(op,got,ts),[]).append(hist[:]); break
        v=views_ok(g,ref)
        if v: fails.setdefault('view %s after %s ts=%s'%(v.split()[0],op,ts),[]).append(hist[:]); break
print({k:len(v) for k,v in fails.items()})
for k,v in fails.items(): print(k, min(v,key=len))
