import random, itertools, sys, logging
logging.disable(logging.CRITICAL)
from cai_causal_graph import TimeSeriesCausalGraph, CausalGraph, EdgeType, NodeVariableType
from cai_causal_graph.utils import get_name_with_lag as nm
ET = list(EdgeType)
SYM = {EdgeType.UNDIRECTED_EDGE, EdgeType.BIDIRECTED_EDGE, EdgeType.UNKNOWN_EDGE}
VT = list(NodeVariableType)

def gen(rng, dag_only=False, maxvars=3, maxdelta=2):
    nv = rng.randint(1, maxvars)
    vars_ = ['V%d'%i for i in range(nv)]
    vinfo = {v:(rng.choice(VT), {'u':v}) for v in vars_}
    templates = {}
    order = vars_[:] ; rng.shuffle(order)
    for _ in range(rng.randint(0, 4)):
        s, d = rng.choice(vars_), rng.choice(vars_)
        delta = rng.randint(0, maxdelta)
        if delta == 0:
            if s == d: continue
            if order.index(s) > order.index(d): s, d = d, s   # keep contemporaneous part acyclic and one orientation per pair
        t = EdgeType.DIRECTED_EDGE if dag_only else rng.choice(ET)
        key = (s, d, delta)
        if key in templates: continue
        if delta>0 and not dag_only and (d,s,delta) in templates and False: continue
        templates[key] = (t, {'m': [s,d,delta]})
    return vars_, vinfo, templates

def build(rng, vars_, vinfo, templates, window, partial=True, floating=True, end0=False):
    g = TimeSeriesCausalGraph()
    lo, hi = window
    insts = []
    for (s,d,delta),(t,meta) in templates.items():
        pos = [x for x in range(lo+delta, hi+1)]
        if not pos: pos=[hi]
        k = rng.randint(1, len(pos)) if partial else len(pos)
        for x in rng.sample(pos, k):
            insts.append((s, x-delta, d, x, t, meta))
    rng.shuffle(insts)
    def addn(v, lag):
        idn = nm(v, lag)
        if not g.node_exists(idn):
            g.add_node(idn, variable_type=vinfo[v][0], meta=dict(vinfo[v][1]))
    for s,sl,d,dl,t,meta in insts:
        addn(s,sl); addn(d,dl)
        g.add_edge(nm(s,sl), nm(d,dl), edge_type=t, meta={'m': list(meta['m'])})
    if floating:
        for v in vars_:
            if rng.random()<0.4:
                addn(v, rng.randint(lo,hi))
    return g

def tmpl_of(g):
    T = {}
    for e in g.edges:
        s,d = e.source, e.destination
        T.setdefault((s.variable_name, d.variable_name, d.time_lag - s.time_lag), str(e.get_edge_type()))
    return T

def ref_min(g):
    T = tmpl_of(g)
    nodes = set(); edges = {}
    for (s,d,delta),t in T.items():
        nodes.add((s,-delta)); nodes.add((d,0)); edges[((s,-delta),(d,0))]=t
    have = {v for v,_ in nodes}
    for v in g.variables:
        if v not in have: nodes.add((v,0))
    return nodes, edges

def shape(g):
    return ({(n.variable_name,n.time_lag) for n in g.nodes}, {((e.source.variable_name,e.source.time_lag),(e.destination.variable_name,e.destination.time_lag)):str(e.get_edge_type()) for e in g.edges})

def ref_ext(g, b, f, iap):
    nodes, edges = ref_min(g)
    nodes=set(nodes); edges=dict(edges)
    if not nodes: return nodes, edges
    T = tmpl_of(g)
    vars_ = {v for v,_ in nodes}
    W=set()
    if b is not None: W |= set(range(-b,1))
    if f is not None: W |= set(range(0,f+1))
    for v in vars_:
        for l in W: nodes.add((v,l))
    ts = set()
    if b is not None: ts |= set(range(-b,0))
    if f is not None: ts |= set(range(1,f+1))
    for (s,d,delta),t in T.items():
        for x in ts:
            if x<0 and not iap and x-delta < -b: continue
            nodes.add((s,x-delta)); nodes.add((d,x)); edges[((s,x-delta),(d,x))]=t
    return nodes, edges

seed=int(sys.argv[1]); N=int(sys.argv[2])
rng=random.Random(seed)
fails={}
def fail(k, info):
    fails.setdefault(k, []).append(info)
for it in range(N):
    vars_, vinfo, templates = gen(rng)
    lo = -rng.randint(0,3); hi = rng.randint(0,2)
    try:
        g = build(rng, vars_, vinfo, templates, (lo,hi))
    except Exception as ex:
        fail('build', (type(ex).__name__, str(ex)[:80])); continue
    desc = [(e.source.identifier, str(e.get_edge_type()), e.destination.identifier) for e in g.edges], [n.identifier for n in g.nodes]
    # C14
    try:
        m = g.get_minimal_graph()
        if shape(m) != ref_min(g): fail('min_shape', desc)
        if not m.is_minimal_graph(): fail('min_is_min', desc)
        if m.get_minimal_graph() != m or not m.get_minimal_graph().__eq__(m, True): fail('min_fix', desc)
        if g.is_minimal_graph() != (shape(g)==ref_min(g)): fail('is_min', desc)
        for n in m.nodes:
            if n.variable_type != vinfo[n.variable_name][0] or n.meta.get('u') != n.variable_name: fail('min_node_meta', desc)
        for e in m.edges:
            k=(e.source.variable_name,e.destination.variable_name,e.destination.time_lag-e.source.time_lag)
            if e.meta.get('m') != list(k): fail('min_edge_meta', (desc, e.meta, k))
    except Exception as ex:
        fail('min_exc', (type(ex).__name__, str(ex)[:80], desc)); continue
    # C15
    for b,f,iap in [(None,None,True),(0,None,True),(None,0,True),(2,None,True),(2,None,False),(None,2,True),(1,2,True),(3,1,False),(0,0,False),(1,1,False)]:
        try:
            x = g.extend_graph(b,f,include_all_parents=iap)
            if shape(x) != ref_ext(g,b,f,iap): 
                rs=ref_ext(g,b,f,iap); xs=shape(x)
                fail('ext_shape', (desc,b,f,iap, 'extra nodes',xs[0]-rs[0],'missing nodes',rs[0]-xs[0], 'extra edges', set(xs[1])-set(rs[1]), 'missing', set(rs[1])-set(xs[1])))
            if shape(x.get_minimal_graph()) != ref_min(g): fail('ext_min', (desc,b,f,iap))
        except Exception as ex:
            fail('ext_exc', (type(ex).__name__, str(ex)[:80], desc,b,f,iap))
print('fails', {k:len(v) for k,v in fails.items()})
for k,v in fails.items():
    print(k, v[0])
