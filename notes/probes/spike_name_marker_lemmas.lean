/-! Spike 2: characterisation lemmas for the name-grammar model (List Char). -/
namespace Name
abbrev Str := List Char

def isDig (c : Char) : Bool := c.isDigit

def takeDigits : Str → Str × Str
  | [] => ([], [])
  | c :: cs => if isDig c then let (d, r) := takeDigits cs; (c :: d, r) else ([], c :: cs)

def stripPrefix? : Str → Str → Option Str
  | [], s => some s
  | _ :: _, [] => none
  | p :: ps, c :: cs => if p = c then stripPrefix? ps cs else none

theorem stripPrefix?_eq_some {p s r : Str} : stripPrefix? p s = some r ↔ s = p ++ r := by
  induction p generalizing s with
  | nil => simp [stripPrefix?, eq_comm]
  | cons a p ih =>
    cases s with
    | nil => simp [stripPrefix?]
    | cons c cs =>
      simp only [stripPrefix?]
      split
      · rename_i h; subst h; simp [ih]
      · rename_i h; simp; intro h'; exact absurd h'.symm h

theorem takeDigits_spec (s : Str) :
    s = (takeDigits s).1 ++ (takeDigits s).2 ∧ (∀ c ∈ (takeDigits s).1, isDig c = true) ∧
    (∀ c r, (takeDigits s).2 = c :: r → isDig c = false) := by
  induction s with
  | nil => simp [takeDigits]
  | cons c cs ih =>
    simp only [takeDigits]
    split
    · rename_i h
      obtain ⟨h1, h2, h3⟩ := ih
      refine ⟨?_, ?_, ?_⟩
      · simp; exact h1
      · intro x hx; simp at hx; rcases hx with rfl | hx; exact h; exact h2 x hx
      · exact h3
    · rename_i h
      refine ⟨by simp, by simp, ?_⟩
      intro x r hx; simp at hx; rw [← hx.1]; simpa using h

/-- takeDigits on `d ++ rest` where `d` all digits and rest does not start with a digit -/
theorem takeDigits_append {d rest : Str} (hd : ∀ c ∈ d, isDig c = true)
    (hr : ∀ c r, rest = c :: r → isDig c = false) : takeDigits (d ++ rest) = (d, rest) := by
  induction d with
  | nil =>
    cases rest with
    | nil => simp [takeDigits]
    | cons c r => simp [takeDigits, hr c r rfl]
  | cons c d ih =>
    have hc := hd c (List.mem_cons_self)
    have := ih (fun x hx => hd x (List.mem_cons_of_mem _ hx))
    simp [takeDigits, hc, this]

def marker (word d : Str) : Str := ' ' :: word ++ "(n=".toList ++ d ++ [')']

def matchMarker (word : Str) (s : Str) : Option (Str × Str) :=
  match stripPrefix? (' ' :: word ++ "(n=".toList) s with
  | none => none
  | some r =>
    match takeDigits r with
    | ([], _) => none
    | (d, ')' :: rest) => some (d, rest)
    | _ => none

theorem matchMarker_some {word s d rest : Str} (h : matchMarker word s = some (d, rest)) :
    s = marker word d ++ rest ∧ d ≠ [] ∧ ∀ c ∈ d, isDig c = true := by
  unfold matchMarker at h
  split at h
  · cases h
  · rename_i r hr
    have hs := stripPrefix?_eq_some.mp hr
    have ⟨t1, t2, _⟩ := takeDigits_spec r
    split at h
    · cases h
    · rename_i d' rest' hd' heq
      cases h
      rw [heq] at t1 t2
      simp only at t1 t2
      refine ⟨?_, ?_, t2⟩
      · rw [hs, t1]; simp [marker]
      · intro hd; subst hd; exact hd' rfl
    · cases h

theorem matchMarker_marker {word d rest : Str} (hd : d ≠ []) (hdig : ∀ c ∈ d, isDig c = true) :
    matchMarker word (marker word d ++ rest) = some (d, rest) := by
  unfold matchMarker
  have h1 : stripPrefix? (' ' :: word ++ "(n=".toList) (marker word d ++ rest) = some (d ++ ')' :: rest) := by
    rw [stripPrefix?_eq_some]; simp [marker]
  rw [h1]
  have h2 : takeDigits (d ++ ')' :: rest) = (d, ')' :: rest) :=
    takeDigits_append hdig (by intro c r h; cases h; decide)
  simp only [h2]

#print axioms matchMarker_some
#print axioms matchMarker_marker
end Name
