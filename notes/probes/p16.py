import warnings, logging; logging.disable(logging.CRITICAL)
from cai_causal_graph import CausalGraph, TimeSeriesCausalGraph, EdgeType, NodeVariableType
from cai_causal_graph.graph_components import Node, Edge, TimeSeriesNode
def T(f):
    try: return f()
    except BaseException as ex: return type(ex).__name__
g=CausalGraph(); g.add_edge('a','b')
print('1 get_node missing', T(lambda: g.get_node('z')))
print('2 get_nodes(list missing)', T(lambda: g.get_nodes(['a','z'])))
print('3 get_nodes(str missing)', T(lambda: g.get_nodes('z')))
print('4 delete_node missing', T(lambda: g.delete_node('z')))
print('5 delete_edge missing node', T(lambda: g.delete_edge('a','z')))
print('6 delete_edge missing edge', T(lambda: g.delete_edge('b','a')))
print('7 delete_edge wrong type', T(lambda: g.delete_edge('a','b',edge_type=EdgeType.UNDIRECTED_EDGE)))
print('8 change_edge_type missing', T(lambda: g.change_edge_type('b','a',EdgeType.UNDIRECTED_EDGE)))
print('9 replace_node missing', T(lambda: g.replace_node('z','y')))
print('10 replace_node existing target', T(lambda: g.replace_node('a','b')))
print('11 replace_edge missing', T(lambda: g.replace_edge('b','a','a','c')))
print('12 replace_edge target exists', T(lambda: g.replace_edge('a','b','a','b')))
print('13 add_edge non-str', T(lambda: g.add_edge(1,'b')))
print('14 add_node non-str', T(lambda: g.add_node(1)))
print('15 get_edge missing', T(lambda: g.get_edge('b','a')))
print('16 get_parents missing', T(lambda: g.get_parents('z')))
print('17 get_neighbors missing', T(lambda: g.get_neighbors('z')))
print('18 add_edges_from_paths empty', T(lambda: g.add_edges_from_paths([])))
print('19 add_edge_by_pair list', T(lambda: g.add_edge_by_pair(['a','c'])))
# paths nested validate dropped
h=CausalGraph(); h.add_edges_from_paths([['a','b','c']]); print('20 nested paths validate ignored:', T(lambda: h.add_edges_from_paths([['c','a']], validate=False)), T(lambda: h.add_edges_from_paths(['c','a'], validate=False)), h.is_dag())
# add_edge with Node object from another graph carrying meta/vtype
n=Node('q', meta={'k':1}, variable_type=NodeVariableType.BINARY)
g.add_edge(n,'a'); print('21 implicit node from Node obj', g.get_node('q').meta, g.get_node('q').variable_type)
n2=Node('a', meta={'k':2}); g.add_edge(n2,'q2') if False else None
# add_edge(edge=Edge) with nodes having meta
e=Edge(Node('s1',meta={'m':1}),Node('s2',variable_type=NodeVariableType.ORDINAL),edge_type=EdgeType.UNKNOWN_EDGE,meta={'w':3})
g.add_edge(edge=e); print('22 add_edge(edge=)', g.get_node('s1').meta, g.get_node('s2').variable_type, g.get_edge('s1','s2').meta)
# replace_node in place semantics
g.add_node('vt', variable_type=NodeVariableType.BINARY, meta={'x':1}); g.replace_node('vt'); print('23 replace in place no args', g.get_node('vt').variable_type, g.get_node('vt').meta)
# replace_node new id copies edge meta by reference?  change_edge_type same type no-op
print('24 change same type', T(lambda: g.change_edge_type('a','b',EdgeType.DIRECTED_EDGE)))
# TS add_node forms
t=TimeSeriesCausalGraph()
print('25', T(lambda: t.add_node(variable_name='X', time_lag=-1).identifier), T(lambda: t.add_node('X lag(n=1)')), T(lambda: t.add_node(variable_name='X')), T(lambda: t.add_node('Y lag(n=1)', variable_name='Y', time_lag=-2)), T(lambda: t.add_node()))
print('26 TS bad name', T(lambda: t.add_node('Z lag(n=1) lag(n=2)')))
print('27 TS replace time_lag same', T(lambda: t.replace_node('X lag(n=1)', time_lag=-1)))
print('28 TS replace both new_id and lag', T(lambda: t.replace_node('X lag(n=1)', 'X', time_lag=0)))
# TS add_edge equal lag non-directed orientation kept
t.add_edge('B','A',edge_type=EdgeType.UNDIRECTED_EDGE); print('29', t.get_edge_pairs())
print('30 TS get_nodes_at_lag missing', t.get_nodes_at_lag(9), dict(t._lag_to_nodes).keys())
# edge_exists with type
print('31', g.edge_exists('a','b',edge_type=EdgeType.UNDIRECTED_EDGE), g.is_edge_by_pair(('a','b')), T(lambda: g.is_edge_by_pair(['a','b'])))
# get_edge with type mismatch
print('32', T(lambda: g.get_edge('a','b',edge_type=EdgeType.UNDIRECTED_EDGE)))
# __getitem__
print('33', g['a'], g[('a','b')], T(lambda: g[('a','b','c')]))
# add_fully_connected with existing edge
print('34', T(lambda: g.add_fully_connected_nodes(['a'],['b'])))
# from_dict duplicate node? from_adjacency_matrix duplicate names
import numpy as np
print('35 dup names', T(lambda: CausalGraph.from_adjacency_matrix(np.zeros((2,2)),['a','a'])))
print('36 int names', CausalGraph.from_adjacency_matrix(np.array([[0,1],[0,0]]),[1,2]).get_node_names(), CausalGraph.from_adjacency_matrix(np.array([[0,1],[0,0]])).get_node_names())
print('37 3d', T(lambda: CausalGraph.from_adjacency_matrix(np.zeros((2,2,2)))), T(lambda: CausalGraph.from_adjacency_matrix(np.zeros((2,3)))), T(lambda: CausalGraph.from_adjacency_matrix(np.array([[0,2],[0,0]]))), T(lambda: CausalGraph.from_adjacency_matrix(np.zeros((2,2)),['a'])))
print('38 bool matrix', CausalGraph.from_adjacency_matrix(np.array([[False,True],[False,False]])).edges)
