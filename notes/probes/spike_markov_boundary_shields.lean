import Mathlib.Logic.Relation

/-! Spike: d-separation by path blocking, and the Markov-boundary shielding theorem. -/
namespace DSepSpike
variable {α : Type}

/-- adjacency in the skeleton -/
def Adj (E : α → α → Prop) (a b : α) : Prop := E a b ∨ E b a

/-- a walk in the skeleton -/
def IsWalk (E : α → α → Prop) : List α → Prop
  | [] => False
  | [_] => True
  | a :: b :: rest => Adj E a b ∧ IsWalk E (b :: rest)

def Desc (E : α → α → Prop) (a b : α) : Prop := Relation.ReflTransGen E a b

/-- the interior node `b` of the consecutive triple `a, b, c` blocks, given `Z` -/
def BlocksAt (E : α → α → Prop) (Z : α → Prop) (a b c : α) : Prop :=
  ((E a b ∧ E c b) ∧ ∀ d, Desc E b d → ¬ Z d)   -- collider: no descendant-or-self in Z
  ∨ (¬ (E a b ∧ E c b) ∧ Z b)                    -- non-collider in Z

def Blocked (E : α → α → Prop) (Z : α → Prop) : List α → Prop
  | a :: b :: c :: rest => BlocksAt E Z a b c ∨ Blocked E Z (b :: c :: rest)
  | _ => False

/-- a simple path from `x` to `y` -/
structure IsPath (E : α → α → Prop) (x y : α) (p : List α) : Prop where
  walk : IsWalk E p
  nodup : p.Nodup
  head : p.head? = some x
  last : p.getLast? = some y

def DSep (E : α → α → Prop) (x y : α) (Z : α → Prop) : Prop :=
  ∀ p, IsPath E x y p → Blocked E Z p

/-- Markov boundary of `n`: parents, children, other parents of children -/
def MB (E : α → α → Prop) (n m : α) : Prop :=
  E m n ∨ E n m ∨ (m ≠ n ∧ ∃ c, E n c ∧ E m c)

theorem mb_shields (E : α → α → Prop) (hno2 : ∀ a b, E a b → ¬ E b a)
    (n w : α) (hwn : w ≠ n) (hw : ¬ MB E n w) : DSep E n w (MB E n) := by
  intro p hp
  obtain ⟨hwalk, hnd, hhead, hlast⟩ := hp
  -- p = n :: rest
  match p, hwalk, hnd, hhead, hlast with
  | [], hwalk, _, _, _ => exact absurd hwalk (by simp [IsWalk])
  | [a], _, _, hhead, hlast =>
    simp at hhead hlast; subst hhead; exact absurd hlast.symm hwn
  | [a, b], hwalk, _, hhead, hlast =>
    simp at hhead hlast; subst hhead; subst hlast
    -- n adjacent to w: then w in MB
    exfalso; apply hw
    rcases hwalk.1 with h | h
    · exact Or.inr (Or.inl h)
    · exact Or.inl h
  | a :: b :: c :: rest, hwalk, hnd, hhead, hlast =>
    simp at hhead; subst hhead
    have hab := hwalk.1
    have hbc := hwalk.2.1
    rcases hab with hab | hba
    · -- a → b : b is a child of a
      by_cases hcb : E c b
      · -- collider at b; c is a co-parent
        have hca : c ≠ a := by
          intro h; subst h
          simp [List.nodup_cons] at hnd
        have hcMB : MB E a c := Or.inr (Or.inr ⟨hca, b, hab, hcb⟩)
        -- need a next node after c
        match rest, hwalk, hnd, hlast with
        | [], _, _, hlast =>
          simp at hlast; subst hlast; exact absurd hcMB hw
        | d :: rest', hwalk, _, _ =>
          -- triple (b, c, d): c is a non-collider since E c b and not E b c
          right; left
          exact Or.inr ⟨fun h => hno2 _ _ hcb h.1, hcMB⟩
      · -- b → c (since adjacent): non-collider at b, b in MB
        left
        exact Or.inr ⟨fun h => hcb h.2, Or.inr (Or.inl hab)⟩
    · -- b → a : b is a parent: non-collider at b (E a b impossible)
      left
      exact Or.inr ⟨fun h => hno2 _ _ hba h.1, Or.inl hba⟩

#print axioms mb_shields
end DSepSpike
