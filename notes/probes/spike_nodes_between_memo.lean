/-! Spike: `get_nodes_between` — memoised recursion (dict `seen_nodes`, all children evaluated, `any`).
    Part 1: whenever the run does not exhaust its fuel, every stored and returned answer is the truth
    (`b = true ↔ RTC s t`). Core Lean only. -/
namespace Between
variable {α : Type} [DecidableEq α]

inductive RTC (R : α → α → Prop) : α → α → Prop
  | refl (a) : RTC R a a
  | head {a b c} : R a b → RTC R b c → RTC R a c

def Rel (E : List (α × α)) (a b : α) : Prop := (a, b) ∈ E
def succs (E : List (α × α)) (a : α) : List α := (E.filter (fun e => e.1 = a)).map (·.2)

theorem mem_succs {E : List (α × α)} {a b : α} : b ∈ succs E a ↔ Rel E a b := by
  unfold succs Rel
  simp only [List.mem_map, List.mem_filter, decide_eq_true_eq]
  constructor
  · rintro ⟨⟨x, y⟩, ⟨h1, h2⟩, h3⟩; simp at h2 h3; subst h2 h3; exact h1
  · intro h; exact ⟨(a, b), ⟨h, rfl⟩, rfl⟩

abbrev Memo (α : Type) := List (α × Bool)
def Memo.get? (m : Memo α) (a : α) : Option Bool := (m.find? (fun kv => kv.1 = a)).map (·.2)

theorem get?_cons (m : Memo α) (k a : α) (v : Bool) :
    Memo.get? ((k, v) :: m) a = if k = a then some v else Memo.get? m a := by
  unfold Memo.get?
  by_cases h : k = a <;> simp [List.find?_cons, h]

mutual
def inner (E : List (α × α)) (t : α) : Nat → α → Memo α → Option (Bool × Memo α)
  | 0, _, _ => none
  | f + 1, s, m =>
    match m.get? s with
    | some b => some (b, m)
    | none =>
      if s = t then some (true, (s, true) :: m)
      else
        match innerL E t f (succs E s) m with
        | none => none
        | some (r, m') => some (r, (s, r) :: m')
def innerL (E : List (α × α)) (t : α) : Nat → List α → Memo α → Option (Bool × Memo α)
  | _, [], m => some (false, m)
  | f, c :: cs, m =>
    match inner E t f c m with
    | none => none
    | some (r1, m1) =>
      match innerL E t f cs m1 with
      | none => none
      | some (r2, m2) => some (r1 || r2, m2)
end

def MemoOK (E : List (α × α)) (t : α) (m : Memo α) : Prop :=
  ∀ a b, m.get? a = some b → (b = true ↔ RTC (Rel E) a t)

mutual
theorem inner_ok (E : List (α × α)) (t : α) :
    ∀ (f : Nat) (s : α) (m : Memo α) (r : Bool) (m' : Memo α), MemoOK E t m → inner E t f s m = some (r, m') →
      (r = true ↔ RTC (Rel E) s t) ∧ MemoOK E t m'
  | 0, _, _, _, _, _, h => by simp [inner] at h
  | f + 1, s, m, r, m', hm, h => by
    simp only [inner] at h
    split at h
    · rename_i b hb
      simp at h; obtain ⟨rfl, rfl⟩ := h
      exact ⟨hm s b hb, hm⟩
    · rename_i hnone
      split at h
      · rename_i hst; subst hst
        simp at h; obtain ⟨rfl, rfl⟩ := h
        refine ⟨by simp [RTC.refl], ?_⟩
        intro a b hab
        rw [get?_cons] at hab
        split at hab
        · rename_i hsa; subst hsa; simp at hab; subst hab; simp [RTC.refl]
        · exact hm a b hab
      · rename_i hst
        split at h
        · cases h
        · rename_i r0 m0 hL
          simp at h; obtain ⟨rfl, rfl⟩ := h
          obtain ⟨hr, hm0⟩ := innerL_ok E t f (succs E s) m r0 m0 hm hL
          have hmeaning : r0 = true ↔ RTC (Rel E) s t := by
            rw [hr]
            constructor
            · rintro ⟨c, hc, hct⟩; exact .head (mem_succs.mp hc) hct
            · intro h
              cases h with
              | refl => exact absurd rfl hst
              | head hab hbt => exact ⟨_, mem_succs.mpr hab, hbt⟩
          refine ⟨hmeaning, ?_⟩
          intro a b hab
          rw [get?_cons] at hab
          split at hab
          · rename_i hsa; subst hsa; simp at hab; subst hab; exact hmeaning
          · exact hm0 a b hab
termination_by f _ _ _ _ _ _ => (f, 0)
theorem innerL_ok (E : List (α × α)) (t : α) :
    ∀ (f : Nat) (cs : List α) (m : Memo α) (r : Bool) (m' : Memo α), MemoOK E t m →
      innerL E t f cs m = some (r, m') → (r = true ↔ ∃ c ∈ cs, RTC (Rel E) c t) ∧ MemoOK E t m'
  | _, [], m, r, m', hm, h => by
    simp [innerL] at h; obtain ⟨rfl, rfl⟩ := h; exact ⟨by simp, hm⟩
  | f, c :: cs, m, r, m', hm, h => by
    simp only [innerL] at h
    split at h
    · cases h
    · rename_i r1 m1 h1
      split at h
      · cases h
      · rename_i r2 m2 h2
        simp at h; obtain ⟨rfl, rfl⟩ := h
        obtain ⟨hr1, hm1⟩ := inner_ok E t f c m r1 m1 hm h1
        obtain ⟨hr2, hm2⟩ := innerL_ok E t f cs m1 r2 m2 hm1 h2
        refine ⟨?_, hm2⟩
        simp only [Bool.or_eq_true, hr1, hr2, List.mem_cons, exists_eq_or_imp]
termination_by f cs _ _ _ _ _ => (f, cs.length + 1)
end

#print axioms inner_ok
#eval (inner [(1,2),(2,4),(1,3),(3,4),(3,5)] 4 10 1 []).map (fun (r, m) => (r, m))
end Between
