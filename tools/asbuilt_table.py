#!/usr/bin/env python3
"""Prints the per-property as-built table (theorem counts from the audit files, lane sizes from the evidence files)."""
import json
import os
import re

V = os.path.dirname(os.path.dirname(os.path.abspath(__file__)))
rows = []
for i in range(1, 21):
    pid = f'C{i:02d}'
    audit = os.path.join(V, 'lean', 'CG', 'Audit', pid + '.lean')
    n = len(re.findall(r'^#print axioms', open(audit).read(), flags=re.M))
    mods = re.findall(r'^import (CG\.[\w.]+)', open(audit).read(), flags=re.M)
    ev = os.path.join(V, 'evidence', pid + '.json')
    e = json.load(open(ev)) if os.path.exists(ev) else {}
    c = e.get('coverage', {})
    rows.append((pid, n, ', '.join(m.replace('CG.Proofs.', '') for m in mods), e.get('tier', '?'), c.get('evaluations', '?'),
                 c.get('distinct_nontrivial', '?'), c.get('protocol_lines_compared', '?'), e.get('wall_s', '?'),
                 len(c.get('partial', []))))
print('| property | audited theorems | proof modules | last run: tier | cases | distinct non-trivial | protocol lines compared | wall s | partial items |')
print('|---|---|---|---|---|---|---|---|---|')
for r in rows:
    print('| ' + ' | '.join(str(x) for x in r) + ' |')
