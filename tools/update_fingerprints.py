#!/venv/bin/python
"""Records the normalised-AST hash of every module of /repo's package in fingerprints.json (run after every fix: commit).
A check whose run sees a different hash spends more search (see harness/core.py: effort escalation); the verdict rules
are unchanged."""
import json
import os
import sys

V = os.path.dirname(os.path.dirname(os.path.abspath(__file__)))
sys.path.insert(0, V)
from harness.fingerprints import current  # noqa: E402

json.dump(current(), open(os.path.join(V, 'fingerprints.json'), 'w'), indent=1, sort_keys=True)
print('fingerprints.json updated')
