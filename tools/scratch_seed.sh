#!/bin/sh
# tools/scratch_seed.sh seeded/<id>  ->  scratch copy of /repo HEAD with the patch applied, path printed (remove it yourself)
set -e
V=$(cd "$(dirname "$0")/.." && pwd)
id=$(basename "$1")
d=/var/tmp/dbg_$id
rm -rf "$d"; mkdir -p "$d"
git -C /repo archive HEAD cai_causal_graph pyproject.toml | tar -x -C "$d"
(cd "$d" && git init -q && git apply "$V/seeded/$id/patch.diff")
echo "$d"
