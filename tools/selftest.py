#!/usr/bin/env python3
"""
Development-time self-test (not a registered check): apply a catalogued one-line mutant, or a seeded patch, to a
scratch copy of /repo under /var/tmp, run the quick check of the property it should break with REPO=<copy>, report,
remove the copy.

  tools/selftest.py M02 M90 …            mutants from notes/mutants/mutants.py + mutants2.py (by prefix)
  tools/selftest.py --seed seeded/<id>    a kept seeded change (patch.diff + meta.json)
  options: --tier quick|thorough  --props C01,C03 (override)  --jobs N
"""
import argparse
import json
import os
import re
import shutil
import subprocess
import sys
from concurrent.futures import ThreadPoolExecutor

VERIF = os.path.dirname(os.path.dirname(os.path.abspath(__file__)))
SCR = '/var/tmp/selftest'


def load_mutants():
    M = {}
    for f in ('mutants/mutants.py', 'mutants/mutants2.py', 'harmless/harmless.py'):
        p = os.path.join(VERIF, 'notes', f)
        if os.path.exists(p):
            ns = {}
            exec(open(p).read(), ns)
            M.update(ns.get('M', {}))
    return M


def scratch(name):
    d = os.path.join(SCR, name)
    shutil.rmtree(d, ignore_errors=True)
    os.makedirs(d)
    subprocess.run(['git', '-C', '/repo', 'archive', 'HEAD', 'cai_causal_graph', 'pyproject.toml'], stdout=open(d + '/a.tar', 'wb'), check=True)
    subprocess.run(['tar', '-xf', 'a.tar'], cwd=d, check=True)
    os.remove(d + '/a.tar')
    return d


def run_check(d, prop, tier, seed='0'):
    env = dict(os.environ, REPO=d, VERIF_SEED=seed, VERIF_EVIDENCE_DIR=os.path.join(d, 'evidence'))
    try:
        p = subprocess.run([os.path.join(VERIF, 'check'), prop, '--tier', tier], cwd=VERIF, env=env, stdout=subprocess.PIPE,
                           stderr=subprocess.STDOUT, text=True, timeout=3600)
    except subprocess.TimeoutExpired:
        return 2, ['MACHINERY: the check did not finish within 3600 s']
    lines = [l for l in p.stdout.splitlines() if l.startswith(('VIOLATION', 'OK', 'KNOWN', 'MACHINERY'))]
    return p.returncode, lines


def do_mutant(name, spec, props, tier):
    f, a, b = spec
    d = scratch(name)
    try:
        path = os.path.join(d, f)
        s = open(path).read()
        if a not in s:
            return name, 'PATTERN-NOT-FOUND', []
        open(path, 'w').write(s.replace(a, b, 1))
        res = []
        for prop in props:
            rc, lines = run_check(d, prop, tier)
            res.append((prop, rc, lines[:2]))
        return name, 'ran', res
    finally:
        shutil.rmtree(d, ignore_errors=True)


def do_seed(path, props, tier):
    meta = json.load(open(os.path.join(path, 'meta.json')))
    name = os.path.basename(path.rstrip('/'))
    d = scratch('seed_' + name)
    try:
        subprocess.run(['git', 'init', '-q'], cwd=d, check=True)
        r = subprocess.run(['git', 'apply', os.path.abspath(os.path.join(path, 'patch.diff'))], cwd=d, capture_output=True, text=True)
        if r.returncode != 0:
            return name, 'PATCH-DOES-NOT-APPLY ' + r.stderr[:200], []
        res = []
        for prop in props or [meta['property']]:
            rc, lines = run_check(d, prop, tier)
            res.append((prop, rc, lines[:2]))
        return name, 'ran', res
    finally:
        shutil.rmtree(d, ignore_errors=True)


def claimed():
    return [c['property_id'] for c in json.load(open(os.path.join(VERIF, 'MANIFEST.json')))['checks']]


def main():
    ap = argparse.ArgumentParser()
    ap.add_argument('names', nargs='*')
    ap.add_argument('--seed', action='append', default=[])
    ap.add_argument('--tier', default='quick')
    ap.add_argument('--props', default=None)
    ap.add_argument('--jobs', type=int, default=3)
    a = ap.parse_args()
    M = load_mutants()
    jobs = []
    for n in a.names:
        for k in sorted(M):
            if k.startswith(n + '_') or k == n:
                m = re.match(r'[MH]\d+_(C\d+|ALL)_', k)
                props = a.props.split(',') if a.props else ([m.group(1)] if m.group(1) != 'ALL' else claimed())
                jobs.append(('m', k, M[k], props))
    for s in a.seed:
        jobs.append(('s', s, None, a.props.split(',') if a.props else None))
    with ThreadPoolExecutor(a.jobs) as ex:
        futs = [ex.submit(do_mutant, k, spec, props, a.tier) if kind == 'm' else ex.submit(do_seed, k, props, a.tier)
                for kind, k, spec, props in jobs]
        for f in futs:
            name, status, res = f.result()
            if status != 'ran':
                print(f'{name}: {status}')
            for prop, rc, lines in res:
                verdict = 'CAUGHT' if rc == 1 else ('clean' if rc == 0 else 'MACHINERY')
                print(f'{name}: {prop} -> {verdict} {lines[0] if lines else ""}')


if __name__ == '__main__':
    main()
