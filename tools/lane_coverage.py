#!/venv/bin/python
"""tools/lane_coverage.py [--tier quick] [--seconds 40] [--out notes/lane_coverage.json] [Cxx ...]

Development aid (not a registered check): which lines of /repo's package do the lanes actually execute?  Every lane's
cases are run on the IMPLEMENTATION side only (lane.run_case, no model driver) under coverage.py, one process per property,
for a time budget; the union over the lanes is what the correspondence check can see at all.  Lines no lane reaches are
code the model is not tied to -- the list printed at the end is the work list for extending model and lanes."""
import json
import multiprocessing as mp
import os
import random
import sys
import time

V = os.path.dirname(os.path.dirname(os.path.abspath(__file__)))
sys.path.insert(0, V)


def one(args):
    prop, tier, seconds, seed = args
    import coverage
    from harness import core
    core.setup_repo_path()
    import warnings
    import logging
    warnings.simplefilter('ignore')
    logging.disable(logging.CRITICAL)
    repo = os.environ.get('REPO', '/repo')
    cov = coverage.Coverage(data_file=None, include=[os.path.join(repo, 'cai_causal_graph', '*')], branch=True)
    cov.start()
    lane = core.load_lane(prop)
    n = 0
    t0 = time.time()
    cases = list(lane.cases(tier, random.Random(seed)))
    random.Random(1).shuffle(cases)
    for c in cases:
        try:
            lane.run_case(c)
        except Exception:   # noqa: BLE001
            pass
        n += 1
        if time.time() - t0 > seconds:
            break
    cov.stop()
    data = cov.get_data()
    out = {}
    for f in data.measured_files():
        out[os.path.basename(f)] = {'lines': sorted(data.lines(f) or []), 'arcs': sorted(map(list, data.arcs(f) or []))}
    return prop, n, len(cases), out


def main():
    a = sys.argv[1:]
    tier, seconds, outp = 'quick', 40, os.path.join(V, 'notes', 'lane_coverage.json')
    props = []
    while a:
        x = a.pop(0)
        if x == '--tier':
            tier = a.pop(0)
        elif x == '--seconds':
            seconds = int(a.pop(0))
        elif x == '--out':
            outp = a.pop(0)
        else:
            props.append(x)
    props = props or ['C%02d' % i for i in range(1, 21)]
    with mp.get_context('spawn').Pool(min(len(props), 10)) as pool:
        res = pool.map(one, [(p, tier, seconds, 0) for p in props])
    import coverage
    from coverage.python import PythonParser
    repo = os.environ.get('REPO', '/repo')
    union = {}
    uarcs = {}
    per = {}
    for prop, n, total, out in res:
        per[prop] = {'cases_run': n, 'cases_total': total}
        for f, d in out.items():
            union.setdefault(f, set()).update(d['lines'])
            uarcs.setdefault(f, set()).update(tuple(a) for a in d['arcs'])
    report = {'per_property': per, 'files': {}}
    for f in sorted(os.listdir(os.path.join(repo, 'cai_causal_graph'))):
        if not f.endswith('.py'):
            continue
        path = os.path.join(repo, 'cai_causal_graph', f)
        p = PythonParser(filename=path)
        p.parse_source()
        stmts = p.statements - p.excluded
        hit = union.get(f, set()) & stmts
        missing = sorted(stmts - hit)
        possible = {a for a in p.arcs() if a[0] > 0 and a[1] > 0 and a[0] in hit and a[1] in stmts}
        multi = {}
        for a in possible:
            multi.setdefault(a[0], []).append(a)
        branch_missing = sorted(a for src, arcs in multi.items() if len(arcs) > 1 for a in arcs
                                if a not in uarcs.get(f, set()) and a[1] in hit)
        report['files'][f] = {'statements': len(stmts), 'hit': len(hit), 'missing': missing,
                              'branches_never_taken_between_reached_lines': branch_missing}
        print(f'   branches never taken (both ends reached otherwise): {branch_missing}')
        print(f'{f}: {len(hit)}/{len(stmts)} statements reached; missing {missing}')
    json.dump(report, open(outp, 'w'), indent=1)


if __name__ == '__main__':
    main()
