#!/usr/bin/env python3
"""Writes seeded/README.md: the kept seeded changes and which check catches each (from the last self-test log)."""
import glob
import json
import os
import sys

VERIF = os.path.dirname(os.path.dirname(os.path.abspath(__file__)))
log = sys.argv[1] if len(sys.argv) > 1 else None
caught = {}
if log and os.path.exists(log):
    for ln in open(log):
        if ': ' in ln and ' -> ' in ln:
            name, rest = ln.split(': ', 1)
            prop, verdict = rest.split(' -> ', 1)
            caught.setdefault(name.strip(), []).append((prop.strip(), verdict.split()[0]))
# verdicts of earlier self-test runs are kept for the changes the given log does not mention (the README is their record)
old_readme = os.path.join(VERIF, 'seeded', 'README.md')
previous = {}
if os.path.exists(old_readme):
    for ln in open(old_readme):
        if ln.startswith('| C'):
            cells = [c.strip() for c in ln.strip().strip('|').split(' | ')]
            if len(cells) >= 5:
                previous[cells[0]] = cells[-1]
rows = []
for d in sorted(glob.glob(os.path.join(VERIF, 'seeded', '*'))):
    if not os.path.isdir(d):
        continue
    m = json.load(open(os.path.join(d, 'meta.json')))
    name = os.path.basename(d)
    c = caught.get(name, [])
    rows.append((name, m.get('property', '?'), str(m.get('what_it_breaks', '')).replace('\n', ' ').replace('|', '/')[:260],
                 str(m.get('needs_to_manifest', '')).replace('\n', ' ').replace('|', '/')[:260],
                 ', '.join(f'{p}: {v}' for p, v in c) or previous.get(name, 'not run')))
with open(os.path.join(VERIF, 'seeded', 'README.md'), 'w') as f:
    f.write('# Seeded changes kept for the self-test of the machinery\n\n'
            'Each directory holds `patch.diff` (applies to /repo HEAD with `git apply`), `demo.py` (exits 0 on the original, non-zero on\n'
            'the changed code) and `meta.json` (what it breaks, what it needs to manifest, what was run to confirm it: the patch\n'
            'applies, the demonstration fails with it and passes without it, all 256 tests still pass with it). They were written\n'
            'by sub-agents that saw only the text of one property and a scratch worktree of the repository, nothing from /verif.\n'
            'None of them is ever committed to /repo. `tools/selftest.py --seed seeded/<id>` applies one to a scratch copy and runs\n'
            'the quick check of its property (`REPO=<copy>`).\n\n'
            '| id | property | what it breaks | needs to manifest | quick check |\n|---|---|---|---|---|\n')
    for r in rows:
        f.write('| ' + ' | '.join(r) + ' |\n')
print(len(rows), 'rows')
