#!/bin/bash
# usage: tools/verify_batch.sh <worktree with _seeds/> <ID prefix>   (verifies every seed dir, 3 at a time)
wt=$1; pre=$2
ls -d $wt/_seeds/*/ | sed 's#/$##' | xargs -P 3 -I{} sh -c 'n=$(basename {}); /verif/tools/verify_seed.sh {} '"$pre"'_$n 2>&1 | grep "KEPT\|REJECT\|APPLY"'
