#!/usr/bin/env python3
"""tools/make_seed_prompts.py <round-tag> <out-dir> [Cxx ...]: one prompt file per property for a further round of seeded
changes.  A prompt holds ONLY the property text (title, statement, quantifier) and one line per change already kept for that
property (so that the new ones differ in site and mechanism) -- nothing else from /verif.  Worktree: /tmp/<tag>_<Cxx>."""
import glob
import json
import os
import sys

V = os.path.dirname(os.path.dirname(os.path.abspath(__file__)))
tag, out = sys.argv[1], sys.argv[2]
want = sys.argv[3:]
os.makedirs(out, exist_ok=True)
props = [json.loads(l) for l in open(os.path.join(V, 'properties.jsonl'))]
for p in props:
    pid = p['id']
    if want and pid not in want:
        continue
    wt = f'/tmp/{tag}_{pid}'
    prev = []
    for m in sorted(glob.glob(os.path.join(V, 'seeded', pid + '*', 'meta.json'))):
        d = json.load(open(m))
        prev.append(f"- {d.get('name')}: {' '.join(str(d.get('what_it_breaks', '')).split())[:230]}")
    text = f"""You are given a Python library (cai-causal-graph: mixed-edge-type causal graphs, time-series lagged graphs) checked out as a git worktree at {wt} (this is YOUR scratch copy; work only inside it; do not touch /repo or /verif, and do not read anything under /verif). Python with all dependencies: /venv/bin/python ; run the test-suite with: cd {wt} && /venv/bin/python -m pytest -q -p no:cacheprovider -x -n 4   (256 tests, about 90-200 s depending on machine load).

Here is a semantic property the library is supposed to satisfy:

TITLE: {p.get('title')}
STATEMENT: {p.get('statement')}
QUANTIFIER: {(p.get('quantifier') or {}).get('text', '') if isinstance(p.get('quantifier'), dict) else p.get('quantifier', '')}

Earlier rounds already produced the following changes for this property; yours must differ from ALL of them in BOTH the site and the mechanism. Look for clauses of the statement that none of them attacks, other functions and argument forms, other files (graph_components.py / interfaces.py / utils.py / type_definitions.py / metadata_handler.py / identify_utils.py / time_series_causal_graph.py / causal_graph.py), other kinds of input (empty graphs, one node, isolated nodes, names with blanks / unicode / digits, large lags, positive lags, all six edge types, Node-object arguments, plain-string enum values, graphs rebuilt from dictionaries / matrices / networkx), other kinds of history (deletions, replacements, renames, bulk adders, failing calls in the middle, queries between mutations, results of one call fed into another):
{chr(10).join(prev)}

YOUR TASK: produce 3 DIFFERENT, independent, realistic code changes (each one a small patch to files under {wt}/cai_causal_graph/) such that EACH change (i) breaks the property above, (ii) still imports/compiles, (iii) still passes the ENTIRE existing test-suite unchanged (all 256 tests), and (iv) needs something specific to manifest -- a multi-step sequence of operations, an unusual but legitimate input, a particular argument form, warm caches, a particular orientation / edge type / lag combination, or two cooperating sites that each look fine alone -- NOT something any ordinary first use would expose at once. Think like a plausible regression a maintainer could introduce while refactoring or "optimising" (an off-by-one, a check moved after a write, a wrong key / orientation, a forgotten index update in one branch, a cache not reset in one path, an early return, a changed default, a condition that is right for the common case only, a comparison that is right for one type of argument only, a loop that stops early, a sort key that ties). Vary the mechanisms and the places in the code across your 3 changes, and prefer SUBTLE wrong answers over exceptions.

For each change deliver, under {wt}/_seeds/<short_name>/ :
  patch.diff   -- `git diff` of the change against the worktree's HEAD (only library files; apply with `git apply`)
  demo.py      -- a small standalone program (ALWAYS run it as `cd <checkout> && PYTHONPATH=<checkout> /venv/bin/python _seeds/<short_name>/demo.py` -- without PYTHONPATH the installed copy from /repo would be imported; print cai_causal_graph.__file__ once to be sure your edited files are the ones running) that exits 0 on the ORIGINAL code and exits non-zero (assertion failure with a clear message) on the CHANGED code, demonstrating the violation of the property through the public API only
  meta.json    -- {{"property": "{pid}", "name": ..., "what_it_breaks": ..., "needs_to_manifest": ..., "files_touched": [...]}}
Procedure per change: start from a clean worktree (`git checkout -- . && git status`), make the edit, run demo.py (must FAIL), run the full test-suite (must PASS: 256 passed), save the patch with `git diff > _seeds/<name>/patch.diff`, then revert the edit (`git checkout -- cai_causal_graph`) and run demo.py again (must PASS). Keep the _seeds directory untracked. If a candidate is caught by the test-suite, discard it and try another. At the end the worktree must be clean apart from the untracked _seeds directory. Report the list of seeds with one line each (name, mechanism, what is needed to manifest, test-suite result)."""
    open(os.path.join(out, f'{tag}prompt_{pid}.txt'), 'w').write(text)
    print(pid, len(prev), 'earlier changes listed')
