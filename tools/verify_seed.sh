#!/bin/bash
# usage: tools/verify_seed.sh <dir with patch.diff demo.py meta.json> <id>
# confirms: patch applies to /repo HEAD; demo fails with it and passes without; full test-suite passes with it.
# on success copies the seed to /verif/seeded/<id>/ and records what was run in meta.json
set -u
src=$1; id=$2
wt=/tmp/vs_$id
git -C /repo worktree remove --force $wt >/dev/null 2>&1
git -C /repo worktree add -q --detach $wt HEAD || exit 2
cleanup() { git -C /repo worktree remove --force $wt >/dev/null 2>&1; }
trap cleanup EXIT
cd $wt
mkdir -p _seeds/x && cp $src/demo.py _seeds/x/demo.py
PYTHONPATH=$wt /venv/bin/python _seeds/x/demo.py >/tmp/vs_$id.base.log 2>&1; base=$?
git apply $src/patch.diff || { echo "$id: PATCH-DOES-NOT-APPLY"; exit 1; }
PYTHONPATH=$wt /venv/bin/python _seeds/x/demo.py >/tmp/vs_$id.mut.log 2>&1; mut=$?
tests=$(/venv/bin/python -m pytest -q -p no:cacheprovider -x -n 6 2>&1 | tail -1)
echo "$id: demo_on_original=$base demo_on_changed=$mut tests: $tests"
if [ $base -eq 0 ] && [ $mut -ne 0 ] && echo "$tests" | grep -q "256 passed"; then
  mkdir -p /verif/seeded/$id && cp $src/patch.diff $src/demo.py /verif/seeded/$id/
  /venv/bin/python - "$src/meta.json" "/verif/seeded/$id/meta.json" "$tests" <<'PY'
import json,sys
m=json.load(open(sys.argv[1]))
m['confirmed']={'patch_applies_to':'/repo HEAD at confirmation time','demo_exit_on_original':0,'demo_exit_on_changed':'non-zero','test_suite_with_change':sys.argv[3],
 'ran':['git worktree add --detach /tmp/vs_<id> HEAD','PYTHONPATH=<wt> /venv/bin/python demo.py  (original: exit 0)','git apply patch.diff','PYTHONPATH=<wt> /venv/bin/python demo.py  (changed: exit != 0)','/venv/bin/python -m pytest -q -p no:cacheprovider -x -n 6','git worktree remove --force']}
json.dump(m,open(sys.argv[2],'w'),indent=1)
PY
  echo "$id: KEPT"
else
  echo "$id: REJECTED"
fi
rm -f /tmp/vs_$id.base.log /tmp/vs_$id.mut.log
