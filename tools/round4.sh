#!/bin/bash
# tools/round4.sh Cxx : confirm the round-4 seeds of one property (scratch worktree /tmp/r4_Cxx), remove the worktree,
# run the quick check of the property against every kept seed; log in /var/tmp/r4logs/Cxx.log
p=$1
mkdir -p /var/tmp/r4logs
{
  /verif/tools/verify_batch.sh /tmp/r4_$p ${p}d
  git -C /repo worktree remove --force /tmp/r4_$p
  args=""
  for d in /verif/seeded/${p}d_*; do args="$args --seed seeded/$(basename $d)"; done
  cd /verif && VERIF_NO_ESCALATION=0 python3 tools/selftest.py --jobs 3 $args
} > /var/tmp/r4logs/$p.log 2>&1
