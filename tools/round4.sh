#!/bin/bash
# tools/round4.sh Cxx [tag suffix] : confirm the seeds of one property written in the scratch worktree /tmp/<tag>_Cxx (default
# tag r4, suffix d), remove the worktree, run the quick check of the property against every kept seed (ONE self-test at a
# time per call; do not start more than three of these at once); log in /var/tmp/r4logs/<tag>_Cxx.log
p=$1; tag=${2:-r4}; suf=${3:-d}
mkdir -p /var/tmp/r4logs
{
  /verif/tools/verify_batch.sh /tmp/${tag}_$p ${p}${suf}
  git -C /repo worktree remove --force /tmp/${tag}_$p
  args=""
  for d in /verif/seeded/${p}${suf}_*; do args="$args --seed seeded/$(basename $d)"; done
  cd /verif && python3 tools/selftest.py --jobs 1 $args
} > /var/tmp/r4logs/${tag}_$p.log 2>&1
